#!/bin/sh
# usage: check.sh <property-id> <quick|thorough>
# Decides the structural clauses of one property from /repo's current source
# (static analysis only: nothing of /repo is executed).
here="$(cd "$(dirname "$0")" && pwd)"
export GOFLAGS=-mod=mod GOPROXY=off GOSUMDB=off GOTOOLCHAIN=local CGO_ENABLED=0
unset GOWORK
id="$1"; tier="${2:-${VERIF_TIER:-quick}}"
if [ ! -x "$here/bin/rcheck" ] || [ -n "$(find "$here/rcheck" -name '*.go' -newer "$here/bin/rcheck" 2>/dev/null | head -1)" ]; then
  "$here/setup.sh" >/dev/null || { echo "cannot build checker"; exit 2; }
fi
exec "$here/bin/rcheck" -prop "$id" -tier "$tier" -repo "${VERIF_REPO:-/repo}" -out "$here"
