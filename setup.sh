#!/bin/sh
# Builds the checker from files on disk only (offline).
set -e
cd "$(dirname "$0")/rcheck"
export GOFLAGS=-mod=mod GOPROXY=off GOSUMDB=off GOTOOLCHAIN=local CGO_ENABLED=0
unset GOWORK
mkdir -p ../bin
go build -o ../bin/rcheck ./cmd/rcheck
echo "built $(cd .. && pwd)/bin/rcheck"
