package v1alpha1

// Demonstrations of genuine conversion defects found by the C20 rules (fail before the fix: commits, pass after).
// Copy into api/v1alpha1/ and run: go test -run TestFinding ./api/v1alpha1/

import (
	"testing"

	"github.com/openkruise/rollouts/api/v1beta1"
)

// F10: disableGenerateCanaryService exists in both versions and was mapped in neither direction.
func TestFindingDisableGenerateCanaryServiceSurvives(t *testing.T) {
	src := &Rollout{Spec: RolloutSpec{
		ObjectRef: ObjectRef{WorkloadRef: &WorkloadRef{APIVersion: "apps/v1", Kind: "Deployment", Name: "d"}},
		Strategy:  RolloutStrategy{Canary: &CanaryStrategy{DisableGenerateCanaryService: true}},
	}}
	hub := &v1beta1.Rollout{}
	if err := src.ConvertTo(hub); err != nil {
		t.Fatal(err)
	}
	if !hub.Spec.Strategy.Canary.DisableGenerateCanaryService {
		t.Fatalf("v1alpha1 -> v1beta1 dropped disableGenerateCanaryService")
	}
	back := &Rollout{}
	if err := back.ConvertFrom(hub); err != nil {
		t.Fatal(err)
	}
	if !back.Spec.Strategy.Canary.DisableGenerateCanaryService {
		t.Fatalf("v1beta1 -> v1alpha1 dropped disableGenerateCanaryService")
	}
}

// F11: objects the schema admits (optional blocks absent) crashed the converters.
func TestFindingConvertersDoNotPanicOnAbsentOptionalBlocks(t *testing.T) {
	run := func(name string, f func() error) {
		defer func() {
			if r := recover(); r != nil {
				t.Errorf("%s panicked: %v", name, r)
			}
		}()
		if err := f(); err != nil {
			t.Errorf("%s failed: %v", name, err)
		}
	}
	run("Rollout.ConvertTo without workloadRef and canary", func() error { return (&Rollout{}).ConvertTo(&v1beta1.Rollout{}) })
	run("Rollout.ConvertFrom without strategy", func() error { return (&Rollout{}).ConvertFrom(&v1beta1.Rollout{}) })
	run("BatchRelease.ConvertTo without workloadRef", func() error { return (&BatchRelease{}).ConvertTo(&v1beta1.BatchRelease{}) })
}

// F12: a v1alpha1 BatchRelease that sets spec.releasePlan.rollingStyle but carries no style annotation lost its style.
func TestFindingBatchReleaseRollingStyleFieldIsHonoured(t *testing.T) {
	src := &BatchRelease{Spec: BatchReleaseSpec{
		TargetRef:   ObjectRef{WorkloadRef: &WorkloadRef{APIVersion: "apps/v1", Kind: "Deployment", Name: "d"}},
		ReleasePlan: ReleasePlan{RollingStyle: BlueGreenRollingStyle},
	}}
	hub := &v1beta1.BatchRelease{}
	if err := src.ConvertTo(hub); err != nil {
		t.Fatal(err)
	}
	if hub.Spec.ReleasePlan.RollingStyle != v1beta1.BlueGreenRollingStyle {
		t.Fatalf("rollingStyle %q lost, got %q", src.Spec.ReleasePlan.RollingStyle, hub.Spec.ReleasePlan.RollingStyle)
	}
}
