package luamanager

import (
	"testing"
	"time"

	"k8s.io/apimachinery/pkg/apis/meta/v1/unstructured"
)

// F24: a reader function that is a Go builtin (math.random) and never returns nil / "" keeps
// base.load looping in Go code, where the 1s context deadline of RunLuaScript is never checked.
func TestFindingF24LoadWithGoReaderReturnsInBoundedTime(t *testing.T) {
	for _, script := range []string{
		`load(math.random)`,
		`load(os and os.time or math.random)`,
	} {
		done := make(chan error, 1)
		go func() {
			m := &LuaManager{}
			_, err := m.RunLuaScript(&unstructured.Unstructured{Object: map[string]interface{}{}}, script)
			done <- err
		}()
		select {
		case err := <-done:
			if err == nil {
				t.Errorf("%q: expected an error (no table result), got none", script)
			}
		case <-time.After(6 * time.Second):
			t.Fatalf("%q: RunLuaScript did not return within 6s (deadline is 1s): the worker is blocked", script)
		}
	}
}
