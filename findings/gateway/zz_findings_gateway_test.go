package gateway

// Demonstrations of genuine defects found by the C13 rules (fail before the fix: commits, pass after).
// Copy into pkg/trafficrouting/network/gateway/ and run: go test -run TestFinding ./pkg/trafficrouting/network/gateway/

import (
	"testing"

	utilpointer "k8s.io/utils/pointer"
	gatewayv1beta1 "sigs.k8s.io/gateway-api/apis/v1beta1"

	"github.com/openkruise/rollouts/api/v1beta1"
)

func findingSvcRef(name string, weight int32) gatewayv1beta1.HTTPBackendRef {
	kind := gatewayv1beta1.Kind("Service")
	port := gatewayv1beta1.PortNumber(80)
	return gatewayv1beta1.HTTPBackendRef{BackendRef: gatewayv1beta1.BackendRef{
		BackendObjectReference: gatewayv1beta1.BackendObjectReference{Kind: &kind, Name: gatewayv1beta1.ObjectName(name), Port: &port},
		Weight:                 utilpointer.Int32(weight),
	}}
}

func findingController() *gatewayController {
	return &gatewayController{conf: Config{StableService: "stable", CanaryService: "stable-canary"}}
}

func findingHeaderMatch() []v1beta1.HttpRouteMatch {
	ht := gatewayv1beta1.HeaderMatchExact
	return []v1beta1.HttpRouteMatch{{Headers: []gatewayv1beta1.HTTPHeaderMatch{{Type: &ht, Name: "user", Value: "canary"}}}}
}

// F15: a stable rule without explicit matches (= matches everything) plus a header-match step
// produced a canary rule without matches, i.e. a catch-all rule for the canary Service.
func TestFindingCanaryRuleForMatchlessRuleIsNotCatchAll(t *testing.T) {
	rules := []gatewayv1beta1.HTTPRouteRule{{BackendRefs: []gatewayv1beta1.HTTPBackendRef{findingSvcRef("stable", 1)}}}
	desired := findingController().buildDesiredHTTPRoute(rules, nil, findingHeaderMatch())
	for _, r := range desired {
		for _, b := range r.BackendRefs {
			if string(b.Name) == "stable-canary" && len(r.Matches) == 0 {
				t.Fatalf("canary rule without any match accepts every request: %+v", r)
			}
		}
	}
}

// F16: a header-match step that follows a weight step dropped the user's rules (they carry the canary backendRef
// of the weight step and were skipped as if they were generated canary rules).
func TestFindingMatchStepAfterWeightStepKeepsUserRules(t *testing.T) {
	c := findingController()
	rules := []gatewayv1beta1.HTTPRouteRule{{BackendRefs: []gatewayv1beta1.HTTPBackendRef{findingSvcRef("stable", 1)}}}
	afterWeight := c.buildDesiredHTTPRoute(rules, utilpointer.Int32(20), nil)
	afterMatch := c.buildDesiredHTTPRoute(afterWeight, nil, findingHeaderMatch())
	stable := 0
	for _, r := range afterMatch {
		for _, b := range r.BackendRefs {
			if string(b.Name) == "stable" {
				stable++
			}
		}
	}
	if stable == 0 {
		t.Fatalf("no rule routes to the stable Service any more: %+v", afterMatch)
	}
}

// F17: finalising dropped a user rule that has no backendRefs (e.g. a redirect-only rule).
func TestFindingFinaliseKeepsBackendlessUserRule(t *testing.T) {
	scheme := "https"
	redirect := gatewayv1beta1.HTTPRouteRule{Filters: []gatewayv1beta1.HTTPRouteFilter{{
		Type:            gatewayv1beta1.HTTPRouteFilterRequestRedirect,
		RequestRedirect: &gatewayv1beta1.HTTPRequestRedirectFilter{Scheme: &scheme},
	}}}
	rules := []gatewayv1beta1.HTTPRouteRule{{BackendRefs: []gatewayv1beta1.HTTPBackendRef{findingSvcRef("stable", 1)}}, redirect}
	desired := findingController().buildDesiredHTTPRoute(rules, utilpointer.Int32(-1), nil)
	if len(desired) != 2 {
		t.Fatalf("finalise must keep both user rules, got %d: %+v", len(desired), desired)
	}
}
