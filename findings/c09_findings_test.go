package rollout

// Demonstrations of genuine C09 defects (fail before the fix: commits, pass after).
// Copy into pkg/controller/rollout/ and run: go test -run TestFinding ./pkg/controller/rollout/

import (
	"context"
	"testing"

	apps "k8s.io/api/apps/v1"
	metav1 "k8s.io/apimachinery/pkg/apis/meta/v1"
	"sigs.k8s.io/controller-runtime/pkg/client/fake"

	"github.com/openkruise/rollouts/api/v1beta1"
	"github.com/openkruise/rollouts/pkg/util"
)

// F13: kind ReplicaSet passes validation (it is a "known" kind for owner traversal) but the workload finder panics on it.
func TestFindingReplicaSetWorkloadRefDoesNotPanic(t *testing.T) {
	rs := &apps.ReplicaSet{ObjectMeta: metav1.ObjectMeta{Namespace: "default", Name: "rs"}}
	cli := fake.NewClientBuilder().WithScheme(scheme).WithObjects(rs).Build()
	finder := util.NewControllerFinder(cli)
	ro := rolloutDemo.DeepCopy()
	ro.Namespace = "default"
	ro.Spec.WorkloadRef = v1beta1.ObjectRef{APIVersion: "apps/v1", Kind: "ReplicaSet", Name: "rs"}
	defer func() {
		if r := recover(); r != nil {
			t.Fatalf("controller would crash: %v", r)
		}
	}()
	_, _ = finder.GetWorkloadForRef(ro)
	_ = context.TODO()
}

// F3: a user-patched nextStepIndex beyond the number of steps panics the step jump.
func TestFindingNextStepIndexBeyondStepsDoesNotPanic(t *testing.T) {
	ro := rolloutDemo.DeepCopy()
	st := ro.Status.DeepCopy()
	if st.CanaryStatus == nil {
		st.CanaryStatus = &v1beta1.CanaryStatus{}
	}
	st.CanaryStatus.CurrentStepIndex = 1
	st.CanaryStatus.NextStepIndex = 100
	c := &RolloutContext{Rollout: ro, NewStatus: st, Workload: &util.Workload{}}
	defer func() {
		if r := recover(); r != nil {
			t.Fatalf("controller would crash: %v", r)
		}
	}()
	m := &canaryReleaseManager{}
	m.doCanaryJump(c)
}
