package deployment

import (
	"context"
	"testing"
	"time"

	apps "k8s.io/api/apps/v1"
	metav1 "k8s.io/apimachinery/pkg/apis/meta/v1"
	intstrutil "k8s.io/apimachinery/pkg/util/intstr"
	"k8s.io/client-go/informers"
	"k8s.io/client-go/kubernetes/fake"
	appslisters "k8s.io/client-go/listers/apps/v1"
	"k8s.io/client-go/tools/record"
	"k8s.io/utils/pointer"

	rolloutsv1alpha1 "github.com/openkruise/rollouts/api/v1alpha1"
	"github.com/openkruise/rollouts/pkg/controller/deployment/util"
)

// A partition-style release is rolled back to the oldest of four revisions while the three
// newer (abandoned) ReplicaSets still have pods: the "new" ReplicaSet is older than every old
// ReplicaSet, and there are exactly three active old ReplicaSets.
//
// The partition covers all replicas and the size of the Deployment never changes, so the
// controller must converge to the new revision only, and must never scale the new
// ReplicaSet down on the way.
func TestFindingF23RollbackWithThreeActiveOldReplicaSets(t *testing.T) {
	const replicas = int32(10)
	maxSurge := intstrutil.FromInt(0)
	maxUnavailable := intstrutil.FromInt(2)

	fakeClient := fake.NewSimpleClientset()
	factory := informers.NewSharedInformerFactory(fakeClient, 0)
	rsInformer := factory.Apps().V1().ReplicaSets().Informer()
	dInformer := factory.Apps().V1().Deployments().Informer()

	deployment := generateDeployment("busybox")
	deployment.Namespace = "default"
	deployment.UID = "seed-demo-uid"
	deployment.Spec.Replicas = pointer.Int32(replicas)
	deployment.Status.Replicas = replicas
	deployment.Status.ReadyReplicas = replicas
	deployment.Status.AvailableReplicas = replicas
	deployment.Status.UpdatedReplicas = 4
	if _, err := fakeClient.AppsV1().Deployments(deployment.Namespace).Create(context.TODO(), &deployment, metav1.CreateOptions{}); err != nil {
		t.Fatalf("create deployment: %v", err)
	}

	base := time.Date(2024, 1, 1, 0, 0, 0, 0, time.UTC)
	mkRS := func(name, image, revision string, age int, size int32) *apps.ReplicaSet {
		rs := generateRS(deployment)
		rs.Namespace = deployment.Namespace
		rs.Name = name
		rs.CreationTimestamp = metav1.NewTime(base.Add(time.Duration(age) * time.Hour))
		rs.Annotations = map[string]string{util.RevisionAnnotation: revision}
		if image != "" {
			rs.Spec.Template.Spec.Containers[0].Image = image
		}
		rs.Spec.Replicas = pointer.Int32(size)
		rs.Status.Replicas = size
		rs.Status.ReadyReplicas = size
		rs.Status.AvailableReplicas = size
		return &rs
	}
	// revision 1: retired long ago, kept in the history with 0 replicas
	// revision 2: the revision we roll back to -> it is the NEW ReplicaSet now
	// revision 3: the abandoned revision -> old ReplicaSet that must be drained
	for _, rs := range []*apps.ReplicaSet{
		mkRS("rs-v1", "", "1", 1, 4),
		mkRS("rs-v2", "abandoned-version-2", "2", 2, 2),
		mkRS("rs-v3", "abandoned-version-3", "3", 3, 2),
		mkRS("rs-v4", "abandoned-version-4", "4", 4, 2),
	} {
		if _, err := fakeClient.AppsV1().ReplicaSets(rs.Namespace).Create(context.TODO(), rs, metav1.CreateOptions{}); err != nil {
			t.Fatalf("create rs: %v", err)
		}
	}

	dc := &DeploymentController{
		client:        fakeClient,
		eventRecorder: record.NewFakeRecorder(100000),
		dLister:       appslisters.NewDeploymentLister(dInformer.GetIndexer()),
		rsLister:      appslisters.NewReplicaSetLister(rsInformer.GetIndexer()),
		strategy: rolloutsv1alpha1.DeploymentStrategy{
			RollingStyle: rolloutsv1alpha1.PartitionRollingStyle,
			RollingUpdate: &apps.RollingUpdateDeployment{
				MaxSurge:       &maxSurge,
				MaxUnavailable: &maxUnavailable,
			},
			Partition: intstrutil.FromString("100%"),
		},
	}

	// settle plays the ReplicaSet controller (every pod that should exist exists and is
	// available, every pod that should not exist is gone) and refreshes the informer caches.
	settle := func() (newSize, oldSize int32) {
		rss, err := fakeClient.AppsV1().ReplicaSets(deployment.Namespace).List(context.TODO(), metav1.ListOptions{})
		if err != nil {
			t.Fatalf("list rs: %v", err)
		}
		for i := range rss.Items {
			rs := rss.Items[i].DeepCopy()
			rs.Status.Replicas = *rs.Spec.Replicas
			rs.Status.ReadyReplicas = *rs.Spec.Replicas
			rs.Status.AvailableReplicas = *rs.Spec.Replicas
			if _, err := fakeClient.AppsV1().ReplicaSets(rs.Namespace).Update(context.TODO(), rs, metav1.UpdateOptions{}); err != nil {
				t.Fatalf("update rs: %v", err)
			}
			if err := rsInformer.GetIndexer().Add(rs); err != nil {
				t.Fatalf("index rs: %v", err)
			}
			if rs.Name == "rs-v1" {
				newSize = *rs.Spec.Replicas
			} else {
				oldSize += *rs.Spec.Replicas
			}
		}
		d, err := fakeClient.AppsV1().Deployments(deployment.Namespace).Get(context.TODO(), deployment.Name, metav1.GetOptions{})
		if err != nil {
			t.Fatalf("get deployment: %v", err)
		}
		if err := dInformer.GetIndexer().Add(d); err != nil {
			t.Fatalf("index deployment: %v", err)
		}
		return newSize, oldSize
	}

	prevNew, _ := settle()
	converged := false
	for round := 1; round <= 40; round++ {
		d, err := dc.dLister.Deployments(deployment.Namespace).Get(deployment.Name)
		if err != nil {
			t.Fatalf("round %d: get deployment from lister: %v", round, err)
		}
		if err := dc.syncDeployment(context.TODO(), d); err != nil {
			t.Fatalf("round %d: syncDeployment: %v", round, err)
		}
		newSize, oldSize := settle()
		t.Logf("round %2d: new(rs-v1)=%d old=%d", round, newSize, oldSize)
		if newSize < prevNew {
			t.Errorf("round %d: the NEW ReplicaSet was scaled down %d -> %d although the Deployment size (%d) did not change",
				round, prevNew, newSize, replicas)
		}
		if newSize+oldSize > replicas {
			t.Errorf("round %d: total %d exceeds replicas+maxSurge=%d", round, newSize+oldSize, replicas)
		}
		if newSize+oldSize < replicas-2 {
			t.Errorf("round %d: only %d pods can be available, fewer than replicas-maxUnavailable=%d", round, newSize+oldSize, replicas-2)
		}
		prevNew = newSize
		if newSize == replicas && oldSize == 0 {
			converged = true
			break
		}
	}
	if !converged {
		newSize, oldSize := settle()
		t.Fatalf("partition=100%% but the Deployment did not converge to the new revision only: new=%d old=%d (want new=%d old=0)",
			newSize, oldSize, replicas)
	}
}
