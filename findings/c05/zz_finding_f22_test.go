package rollout

import (
	"context"
	"testing"
	"time"

	"github.com/openkruise/rollouts/api/v1beta1"
	"github.com/openkruise/rollouts/pkg/trafficrouting"
	"github.com/openkruise/rollouts/pkg/util"
	apps "k8s.io/api/apps/v1"
	metav1 "k8s.io/apimachinery/pkg/apis/meta/v1"
	"k8s.io/apimachinery/pkg/types"
	"k8s.io/client-go/tools/record"
	ctrl "sigs.k8s.io/controller-runtime"
	"sigs.k8s.io/controller-runtime/pkg/client"
	"sigs.k8s.io/controller-runtime/pkg/client/fake"
)

// A Rollout deleted right after the webhook admitted (and paused) a workload change,
// before the controller wrote its first Progressing status: the workload must not be
// left paused and marked in-progress once the Rollout's finalizer is gone.
func TestFindingF22PausedDeletedBeforeFirstStatus(t *testing.T) {
	runF22(t, v1beta1.RolloutStatus{Phase: v1beta1.RolloutPhaseHealthy})
}

func TestFindingF22PausedDeletedBeforeBatchRelease(t *testing.T) {
	st := rolloutDemo.Status.DeepCopy()
	st.CanaryStatus.CurrentStepIndex = 1
	st.CanaryStatus.CurrentStepState = v1beta1.CanaryStepStateUpgrade
	runF22(t, *st)
}

func runF22(t *testing.T, st v1beta1.RolloutStatus) {
	dep := deploymentDemo.DeepCopy()
	dep.Spec.Paused = true
	dep.Annotations[util.InRolloutProgressingAnnotation] = `{"rolloutName":"rollout-demo"}`
	rs := rsDemo.DeepCopy()
	ro := rolloutDemo.DeepCopy()
	ro.Finalizers = []string{util.KruiseRolloutFinalizer}
	now := metav1.NewTime(time.Now())
	ro.DeletionTimestamp = &now
	ro.Status = st
	fc := fake.NewClientBuilder().WithScheme(scheme).WithObjects(dep, rs, ro, demoService.DeepCopy(), demoIngress.DeepCopy(), demoConf.DeepCopy()).Build()
	r := &RolloutReconciler{
		Client:                fc,
		Scheme:                scheme,
		Recorder:              record.NewFakeRecorder(100),
		finder:                util.NewControllerFinder(fc),
		trafficRoutingManager: trafficrouting.NewTrafficRoutingManager(fc),
	}
	r.canaryManager = &canaryReleaseManager{Client: fc, trafficRoutingManager: r.trafficRoutingManager, recorder: r.Recorder}
	r.blueGreenManager = &blueGreenReleaseManager{Client: fc, trafficRoutingManager: r.trafficRoutingManager, recorder: r.Recorder}
	gone := false
	for i := 0; i < 20; i++ {
		_, err := r.Reconcile(context.TODO(), ctrl.Request{NamespacedName: types.NamespacedName{Name: ro.Name, Namespace: ro.Namespace}})
		if err != nil {
			t.Logf("reconcile %d: %v", i, err)
		}
		got := &v1beta1.Rollout{}
		if err := fc.Get(context.TODO(), client.ObjectKeyFromObject(ro), got); err != nil {
			gone = true
			break
		}
	}
	if !gone {
		t.Fatalf("rollout never terminated")
	}
	d := &apps.Deployment{}
	if err := fc.Get(context.TODO(), client.ObjectKeyFromObject(dep), d); err != nil {
		t.Fatal(err)
	}
	if d.Spec.Paused {
		t.Errorf("Rollout is gone, but the workload is still paused")
	}
}
