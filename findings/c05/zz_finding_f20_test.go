package cloneset

// F20 (C05): blue-green CloneSet. The admission webhook holds a changed CloneSet back with
// partition=100%; only UpgradeBatch releases it (partition=nil). When the rollout ends before
// the first UpgradeBatch (deleted, disabled, rolled back right after admission), Finalize
// restores maxSurge/maxUnavailable/minReadySeconds but leaves partition=100%: the CloneSet
// stays frozen on the old revision although no rollout controls it any more.
// Drop into pkg/controller/batchrelease/control/bluegreenstyle/cloneset/ and run
//   go test -run TestFindingF20 ./pkg/controller/batchrelease/control/bluegreenstyle/cloneset/

import (
	"context"
	"testing"

	kruiseappsv1alpha1 "github.com/openkruise/kruise-api/apps/v1alpha1"
	"k8s.io/apimachinery/pkg/util/intstr"
	"sigs.k8s.io/controller-runtime/pkg/client/fake"
)

func TestFindingF20(t *testing.T) {
	release := releaseDemo.DeepCopy()
	clone := cloneDemo.DeepCopy()
	// what the webhook leaves behind when it admits the template change
	clone.Spec.UpdateStrategy.Partition = &intstr.IntOrString{Type: intstr.String, StrVal: "100%"}
	clone.Status.UpdatedReadyReplicas = clone.Status.ReadyReplicas
	cli := fake.NewClientBuilder().WithScheme(scheme).WithObjects(release, clone).Build()
	c := NewController(cli, cloneKey, clone.GroupVersionKind()).(*realController)
	controller, err := c.BuildController()
	if err != nil {
		t.Fatal(err)
	}
	if err = controller.Initialize(release); err != nil {
		t.Fatal(err)
	}
	// the rollout ends here: no UpgradeBatch ever ran
	fetch := &kruiseappsv1alpha1.CloneSet{}
	if err = cli.Get(context.TODO(), cloneKey, fetch); err != nil {
		t.Fatal(err)
	}
	c.object = fetch
	if err = controller.Finalize(release); err != nil {
		t.Fatal(err)
	}
	fetch = &kruiseappsv1alpha1.CloneSet{}
	if err = cli.Get(context.TODO(), cloneKey, fetch); err != nil {
		t.Fatal(err)
	}
	if p := fetch.Spec.UpdateStrategy.Partition; p != nil && p.String() != "0" && p.String() != "0%" {
		t.Fatalf("after Finalize the CloneSet is still held back: partition=%s", p.String())
	}
}
