#!/bin/bash
# usage: tryseed.sh <seed-dir> <prop>...   applies the seed patch to /repo, runs the checks, reverts.
seed="$1"; shift
cd /repo || exit 2
if ! git diff --quiet; then echo "/repo dirty"; exit 2; fi
if ! git apply "$seed/patch.diff" 2>/dev/null; then echo "patch does not apply"; git checkout -- . ; exit 2; fi
for p in "$@"; do
  out=$(/verif/bin/rcheck -prop "$p" -out /tmp/tryseed_out 2>&1); rc=$?
  echo "== $(basename $seed) vs $p: exit=$rc"
  echo "$out" | grep -A6 "^VIOLATION\|LOAD-FAILURE\|PANIC" | grep -v "^--" | cut -c1-400 | head -40
done
git checkout -- . ; git clean -fdq
