#!/bin/bash
# usage: seedcheck.sh <seed-dir>   (dir with patch.diff, demo/, run.sh)
# Confirms in a scratch worktree of /repo HEAD: demo passes without the patch; with the patch the tree builds,
# the baseline test packages all pass, and the demo fails. Removes the worktree afterwards.
set -u
seed="$(cd "$1" && pwd)"; name="$(basename "$seed")"
export GOFLAGS=-mod=mod GOPROXY=off GOSUMDB=off GOTOOLCHAIN=local
wt=/tmp/sv/$name
rm -rf "$wt"; git -C /repo worktree prune; mkdir -p /tmp/sv
git -C /repo worktree add -q --detach "$wt" HEAD || exit 2
res=0
cd "$wt"
cp -r "$seed/demo/." "$wt/" 2>/dev/null
if bash "$seed/run.sh" >"$seed/.demo_clean.log" 2>&1; then echo "demo on clean tree: PASS (good)"; else echo "demo on clean tree: FAIL (bad)"; res=1; fi
if git apply --check "$seed/patch.diff" 2>/dev/null; then git apply "$seed/patch.diff"; else
  if git apply -3 "$seed/patch.diff" 2>/dev/null; then echo "patch applied with 3-way"; else echo "patch does not apply"; res=1; fi; fi
if go build ./... >"$seed/.build.log" 2>&1; then echo "build with patch: ok"; else echo "build with patch: FAILED"; res=1; fi
if bash "$seed/run.sh" >"$seed/.demo_patched.log" 2>&1; then echo "demo with patch: PASS (bad)"; res=1; else echo "demo with patch: FAIL (good)"; fi
# suite: remove demo files first so that only the existing tests count
(cd "$seed/demo" 2>/dev/null && find . -type f) | while read f; do rm -f "$wt/$f"; done
go test -vet=off -count=1 ./api/... ./pkg/... >"$seed/.suite.log" 2>&1
if grep -q "^FAIL\|^---\s*FAIL\|\[build failed\]" "$seed/.suite.log"; then echo "suite with patch: FAILURES"; grep "^FAIL\|^--- FAIL" "$seed/.suite.log" | head; res=1; else echo "suite with patch: all pass ($(grep -c '^ok' "$seed/.suite.log") packages ok)"; fi
cd /; git -C /repo worktree remove --force "$wt"
echo "RESULT $name: $([ $res = 0 ] && echo CONFIRMED || echo REJECTED)"
exit $res
