#!/usr/bin/env python3
"""Rewrites the seeded-change table of DESIGN.md (between the SEEDTABLE markers) from seeded/*/meta.json."""
import json,glob,os,re
rows=['| seed | written against | changed file | reported by |','|---|---|---|---|']
for d in sorted(glob.glob('/verif/seeded/*/meta.json')):
    m=json.load(open(d)); sid=os.path.basename(os.path.dirname(d))
    det='; '.join(x.split(' [')[0] for x in m.get('detected_by',[])) or '**NOT REPORTED**'
    files=', '.join(os.path.basename(f) for f in m.get('files',[]))[:70]
    rows.append(f"| {sid} | {m.get('property','')} | {files} | {det} |")
p='/verif/DESIGN.md'; s=open(p).read()
s=re.sub(r'<!-- SEEDTABLE:BEGIN -->.*<!-- SEEDTABLE:END -->','<!-- SEEDTABLE:BEGIN -->\n'+'\n'.join(rows)+'\n<!-- SEEDTABLE:END -->',s,flags=re.S)
open(p,'w').write(s); print(len(rows)-2,'seeds')
