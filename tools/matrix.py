#!/usr/bin/env python3
"""usage: matrix.py seeded|neutral [-j N] [--no-meta] [dir...]
For each patch of the corpus (/verif/seeded/* or /verif/neutral/*): applies patch.diff in a scratch worktree of
/repo HEAD (outside /repo and /verif), runs every property's quick rule set over it in one process
(rcheck -all), and records which rules report in meta.json ("detected_by" for seeded changes — expected: at
least one; "alarms" for behaviour-preserving refactorings — expected: none). /repo itself is not touched.
RCHECK=<binary> selects a frozen checker binary so that a rebuild during the run cannot mix versions."""
import sys, os, re, json, glob, subprocess, shutil, tempfile
from concurrent.futures import ThreadPoolExecutor
V = '/verif'
kind = sys.argv[1]
args = sys.argv[2:]
jobs = 5
write_meta = True
dirs = []
i = 0
while i < len(args):
    if args[i] == '-j': jobs = int(args[i+1]); i += 2
    elif args[i] == '--no-meta': write_meta = False; i += 1
    else: dirs.append(args[i]); i += 1
if not dirs:
    dirs = sorted(glob.glob(f'{V}/{kind}/*/'))
dirs = [os.path.abspath(d.rstrip('/')) for d in dirs]
rcheck = os.environ.get('RCHECK', f'{V}/bin/rcheck')
env = dict(os.environ, GOFLAGS='-mod=mod', GOPROXY='off', GOSUMDB='off', GOTOOLCHAIN='local')
env.pop('GOWORK', None)
root = tempfile.mkdtemp(prefix='rcheck-matrix-')
subprocess.run(['git', '-C', '/repo', 'worktree', 'prune'])
field = 'detected_by' if kind == 'seeded' else 'alarms'

def one(slot_dirs):
    slot, mine = slot_dirs
    wt = f'{root}/wt{slot}'
    r = subprocess.run(['git', '-C', '/repo', 'worktree', 'add', '-q', '--detach', wt, 'HEAD'], capture_output=True, text=True)
    if r.returncode != 0:
        return [(os.path.basename(d), 'WORKTREE FAILED ' + r.stderr) for d in mine]
    res = []
    for d in mine:
        name = os.path.basename(d)
        subprocess.run('git checkout -q -- . && git clean -fdq', shell=True, cwd=wt)
        if subprocess.run(['git', '-C', wt, 'apply', d + '/patch.diff'], capture_output=True).returncode != 0:
            res.append((name, 'PATCH DOES NOT APPLY')); print(name + ': PATCH DOES NOT APPLY', flush=True); continue
        if kind == 'neutral' and subprocess.run(['go', 'build', './...'], cwd=wt, env=env, capture_output=True).returncode != 0:
            res.append((name, 'DOES NOT BUILD')); print(name + ': DOES NOT BUILD', flush=True); continue
        out = f'{root}/out{slot}'
        shutil.rmtree(out, ignore_errors=True); os.makedirs(out)
        shutil.copy(f'{V}/known_findings.json', out)
        log = subprocess.run([rcheck, '-all', '-repo', wt, '-out', out], capture_output=True, text=True, env=env).stdout
        det, bad = [], []
        chunk = []
        for line in log.splitlines():
            m = re.match(r'== (\S+) rc=(\d+)', line)
            if not m:
                chunk.append(line); continue
            p, rc = m.group(1), m.group(2)
            text = '\n'.join(chunk); chunk = []
            if rc == '1':
                rules = sorted(set(re.findall(r'^  rule (\S+) ', text, re.M)))
                keys = re.findall(r'^  key  (.+)$', text, re.M)
                det.append(p + ' ' + ','.join(rules) + ' [' + '; '.join(k.split('|', 1)[1] for k in keys[:3]) + ']')
            elif rc != '0':
                bad.append(p + ' exit=' + rc + ' ' + (re.findall(r'LOAD-FAILURE.*|ANALYSER-PANIC.*', text) or [''])[0][:200])
        if not re.search(r'^== C20 ', log, re.M):
            bad.append('run incomplete: ' + log[-300:])
        if write_meta:
            m = json.load(open(d + '/meta.json'))
            m[field] = det
            if bad: m['check_errors'] = bad
            else: m.pop('check_errors', None)
            json.dump(m, open(d + '/meta.json', 'w'), indent=1)
        if kind == 'seeded':
            line = name + ': ' + ('; '.join(det) if det else 'NOT DETECTED')
        else:
            line = name + ': ' + ('ALARM ' + '; '.join(det) if det else 'silent')
        if bad: line += ' ERRORS ' + str(bad)
        print(line, flush=True)
        res.append((name, line))
    subprocess.run(['git', '-C', '/repo', 'worktree', 'remove', '--force', wt])
    return res

slots = [(k, dirs[k::jobs]) for k in range(jobs)]
try:
    with ThreadPoolExecutor(jobs) as ex:
        allres = [x for r in ex.map(one, slots) for x in r]
finally:
    shutil.rmtree(root, ignore_errors=True)
    subprocess.run(['git', '-C', '/repo', 'worktree', 'prune'])
n = len(allres)
if kind == 'seeded':
    missed = [a for a, l in allres if 'NOT DETECTED' in l or 'ERRORS' in l or 'DOES NOT' in l or 'FAILED' in l]
    print(f'SUMMARY seeded: {n} changes, {n-len(missed)} reported, not reported/errors: {missed}')
else:
    al = [a for a, l in allres if 'silent' not in l or 'ERRORS' in l]
    print(f'SUMMARY neutral: {n} refactorings, {n-len(al)} silent, alarms/errors: {al}')
