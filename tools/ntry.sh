#!/bin/bash
# usage: ntry.sh <dir-with-patch.diff> <prop>...   applies the patch in a scratch worktree (/tmp/nw) and runs the given rule sets
export GOFLAGS=-mod=mod GOPROXY=off GOSUMDB=off GOTOOLCHAIN=local
d=$(cd "$1" && pwd); shift
git -C /repo worktree remove --force /tmp/nw 2>/dev/null; git -C /repo worktree prune
git -C /repo worktree add -q --detach /tmp/nw HEAD || exit 2
git -C /tmp/nw apply "$d/patch.diff" || { echo "patch does not apply"; exit 2; }
mkdir -p /tmp/nwo; cp /verif/known_findings.json /tmp/nwo/
for p in "$@"; do
  /verif/bin/rcheck -prop $p -repo /tmp/nw -out /tmp/nwo 2>&1 | grep -A7 "^VIOLATION\|quick:\|UNRES\|LOAD\|PANIC" | grep -v "^--" | cut -c1-${W:-600}
done
