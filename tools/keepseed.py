#!/usr/bin/env python3
"""keepseed.py <seed-dir> [caught-by text]: copy a confirmed seeded change into /verif/seeded/<name>/."""
import json, os, shutil, sys
src = sys.argv[1].rstrip('/'); name = os.path.basename(src)
dst = f'/verif/seeded/{name}'
os.makedirs(dst, exist_ok=True)
for f in ('patch.diff', 'run.sh'):
    shutil.copy(f'{src}/{f}', f'{dst}/{f}')
if os.path.isdir(f'{dst}/demo'): shutil.rmtree(f'{dst}/demo')
shutil.copytree(f'{src}/demo', f'{dst}/demo')
try: meta = json.load(open(f'{src}/meta.json'))
except Exception as e: meta = {'note': f'agent meta.json unreadable: {e}'}
old = {}
if os.path.exists(f'{dst}/meta.json'):
    try: old = json.load(open(f'{dst}/meta.json'))
    except Exception: pass
meta['breaks_property'] = name[:3]
meta['confirmed'] = {
  'how': 'tools/seedcheck.sh in a scratch worktree of /repo HEAD: demo passes on the clean tree; with the patch `go build ./...` succeeds, the 29 baseline test packages (go test -vet=off -count=1 ./api/... ./pkg/...) all pass, and the demo fails',
  'result': 'CONFIRMED'}
if len(sys.argv) > 2: meta['detected_by'] = sys.argv[2]
elif 'detected_by' in old: meta['detected_by'] = old['detected_by']
json.dump(meta, open(f'{dst}/meta.json', 'w'), indent=1)
print('kept', dst)
