#!/bin/bash
# usage: seedmatrix.sh [seed-dir...]   (default: all of /verif/seeded/*)
# For each seeded change: applies patch.diff in a scratch worktree of /repo HEAD, runs every property's quick
# rule set against that worktree (rcheck -repo), records which rules report a violation in meta.json
# ("detected_by"), and removes the worktree. /repo itself is not touched.
export GOFLAGS=-mod=mod GOPROXY=off GOSUMDB=off GOTOOLCHAIN=local
unset GOWORK
V=/verif; W=/tmp/sm; rm -rf $W; mkdir -p $W
git -C /repo worktree prune
git -C /repo worktree add -q --detach $W/wt HEAD || exit 2
seeds=("$@"); [ ${#seeds[@]} = 0 ] && seeds=($V/seeded/*/)
props=${PROPS:-$(${RCHECK:-$V/bin/rcheck} -list)}
for s in "${seeds[@]}"; do
  s=$(cd ${s%/} && pwd); name=$(basename $s)
  (cd $W/wt && git checkout -q -- . && git clean -fdq)
  if ! git -C $W/wt apply "$s/patch.diff" 2>/dev/null; then echo "$name: PATCH DOES NOT APPLY"; continue; fi
  rm -rf $W/out; mkdir -p $W/out
  for p in $props; do
    ( mkdir -p $W/out/$p; cp $V/known_findings.json $W/out/$p/; ${RCHECK:-$V/bin/rcheck} -prop $p -repo $W/wt -out $W/out/$p > $W/out/$p.log 2>&1; echo $? > $W/out/$p.rc ) &
    while [ $(jobs -r | wc -l) -ge 10 ]; do sleep 0.2; done
  done
  wait
  python3 - "$s" $W/out <<'PY'
import sys,json,glob,os,re
seed,out=sys.argv[1],sys.argv[2]
det=[]; bad=[]
for rcf in sorted(glob.glob(out+'/*.rc')):
    p=os.path.basename(rcf)[:-3]; rc=open(rcf).read().strip(); log=open(out+'/'+p+'.log').read()
    if rc=='1':
        rules=sorted(set(re.findall(r'^  rule (\S+) ',log,re.M)))
        keys=re.findall(r'^  key  (.+)$',log,re.M)
        det.append(p+' '+','.join(rules)+' ['+'; '.join(k.split('|',1)[1] for k in keys[:3])+']')
    elif rc!='0':
        bad.append(p+' exit='+rc+' '+(re.findall(r'LOAD-FAILURE.*|ANALYSER-PANIC.*',log) or [''])[0][:200])
m=json.load(open(seed+'/meta.json'))
m['detected_by']=det
if bad: m['check_errors']=bad
elif 'check_errors' in m: del m['check_errors']
json.dump(m,open(seed+'/meta.json','w'),indent=1)
print(os.path.basename(seed)+':', '; '.join(det) if det else 'NOT DETECTED', ('ERRORS '+str(bad)) if bad else '')
PY
done
cd /; git -C /repo worktree remove --force $W/wt; rm -rf $W
