package engine

import (
	"go/types"
	"strings"

	"golang.org/x/tools/go/ssa"
)

var errorType = types.Universe.Lookup("error").Type()

// ErrResultIndex returns the index of the error result of a call's signature (-1 if none).
func ErrResultIndex(c *ssa.CallCommon) int {
	sig := c.Signature()
	if sig == nil {
		return -1
	}
	n := sig.Results().Len()
	for i := n - 1; i >= 0; i-- {
		if types.Identical(sig.Results().At(i).Type(), errorType) {
			return i
		}
	}
	return -1
}

// errValue finds the SSA value carrying the error result of call (nil if the result is discarded).
func errValue(call ssa.CallInstruction, idx int) ssa.Value {
	v := call.Value()
	if v == nil {
		return nil // go / defer
	}
	sig := call.Common().Signature()
	if sig.Results().Len() == 1 {
		if v.Referrers() == nil || len(*v.Referrers()) == 0 {
			return nil
		}
		return v
	}
	refs := v.Referrers()
	if refs == nil {
		return nil
	}
	for _, r := range *refs {
		if ex, ok := r.(*ssa.Extract); ok && ex.Index == idx {
			if ex.Referrers() == nil || len(*ex.Referrers()) == 0 {
				return nil
			}
			return ex
		}
	}
	return nil
}

func isLogCall(name string) bool {
	return strings.HasPrefix(name, "k8s.io/klog/v2.") || strings.HasPrefix(name, "fmt.Print") || strings.HasPrefix(name, "fmt.Fprint") ||
		strings.HasPrefix(name, "log.") || strings.Contains(name, "record.EventRecorder.")
}

// errPredicates are functions that classify an error without consuming it.
var errPredicates = []string{"errors.IsNotFound", "errors.IsAlreadyExists", "errors.IsConflict", "errors.IsBadRequest", "errors.IsRetryError",
	"errors.IsInvalid", "errors.IsForbidden", "errors.IsTimeout", "errors.Is", "errors.As"}

func isErrPredicate(name string) bool {
	for _, p := range errPredicates {
		if NameMatch(name, p) {
			return true
		}
	}
	return false
}

// ErrorFate decides whether the error produced by call can be lost: it reports
// a non-empty reason if the result is discarded outright, or if some path on
// which the error may be non-nil (and is not an accepted NotFound /
// AlreadyExists outcome) reaches a return that does not return it (or a value
// wrapping it) without the error having been handed to a non-logging function
// (aggregation, wrapping) or stored.
func ErrorFate(p *Program, call ssa.CallInstruction) (lost string) {
	idx := ErrResultIndex(call.Common())
	if idx < 0 {
		return ""
	}
	if _, isDefer := call.(*ssa.Defer); isDefer {
		return ""
	}
	if _, isGo := call.(*ssa.Go); isGo {
		return ""
	}
	e := errValue(call, idx)
	if e == nil {
		return "the error result is discarded"
	}
	fn := call.Parent()
	isE := func(v ssa.Value, env Env) bool {
		v = Resolve(v, env)
		if v == e {
			return true
		}
		// wrappers: a call/MakeInterface/conversion that has e among its operands
		switch x := v.(type) {
		case *ssa.MakeInterface:
			return Resolve(x.X, env) == e
		case *ssa.ChangeInterface:
			return Resolve(x.X, env) == e
		case *ssa.Call:
			for _, a := range x.Call.Args {
				ra := Resolve(a, env)
				if ra == e {
					return true
				}
				if mi, ok := ra.(*ssa.MakeInterface); ok && Resolve(mi.X, env) == e {
					return true
				}
				// variadic ...interface{}: slice built from an alloc'd array holding e
				if sl, ok := ra.(*ssa.Slice); ok {
					if al, ok := sl.X.(*ssa.Alloc); ok {
						for _, st := range allocStores(al) {
							sv := Resolve(st.Val, env)
							if sv == e {
								return true
							}
							if mi, ok := sv.(*ssa.MakeInterface); ok && Resolve(mi.X, env) == e {
								return true
							}
						}
					}
				}
			}
		}
		return false
	}
	absent := func(f Fact) bool {
		// e == nil
		if f.Op == "==" && f.R.Op == "const" && f.R.Name == "nil" && termIs(f.L, e) {
			return true
		}
		// accepted outcomes
		for _, pr := range []string{"errors.IsNotFound", "errors.IsAlreadyExists"} {
			if f.Op == "==" && f.R.Op == "const" && f.R.Name == "true" && f.L.Op == "call" && NameMatch(f.L.Name, pr) && len(f.L.Args) > 0 && termIs(f.L.Args[0], e) {
				return true
			}
		}
		if f.Op == "==" && f.R.Op == "const" && f.R.Name == "nil" && f.L.Op == "call" && NameMatch(f.L.Name, "client.IgnoreNotFound") && len(f.L.Args) > 0 && termIs(f.L.Args[0], e) {
			return true
		}
		// another result of the same call says so: the callee returns a nil error whenever that
		// result has this value (e.g. `known == false`, `found == false`)
		if f.Op == "==" && f.R.Op == "const" && (f.R.Name == "true" || f.R.Name == "false") && f.L.Op == "extract" && f.L.Idx != idx {
			if c, ok := call.(*ssa.Call); ok && f.L.Call == c {
				if callee := c.Call.StaticCallee(); callee != nil && errNilWhen(callee, f.L.Idx, f.R.Name == "true", idx) {
					return true
				}
			}
		}
		return false
	}
	consumed := func(in ssa.Instruction, env Env) bool {
		switch x := in.(type) {
		case ssa.CallInstruction:
			if x == call {
				return false
			}
			name := CalleeName(x.Common())
			if isLogCall(name) || isErrPredicate(name) {
				return false
			}
			// method call on the error itself (err.Error()) is not consumption
			if x.Common().IsInvoke() && Resolve(x.Common().Value, env) == e {
				return false
			}
			for _, a := range x.Common().Args {
				if isE(a, env) {
					// IgnoreNotFound(e): its result replaces e — follow it instead of stopping
					if NameMatch(name, "client.IgnoreNotFound") {
						return false
					}
					return true
				}
			}
		case *ssa.Store:
			if al := rootAlloc(x.Addr); al != nil && al.Comment == "varargs" {
				return false // packing of variadic arguments: judged at the call that receives them
			}
			if isE(x.Val, env) {
				return true
			}
		case *ssa.MapUpdate:
			if isE(x.Value, env) {
				return true
			}
		case *ssa.Send:
			if isE(x.X, env) {
				return true
			}
		case *ssa.Panic:
			return true
		}
		return false
	}
	exceeded := false
	isRetOrSelf := func(in ssa.Instruction) bool { return IsReturn(in) || in == call.(ssa.Instruction) }
	reached := WalkEnv(PointAfter(call.(ssa.Instruction)), nil, isRetOrSelf, WalkOpts{
		ReachOpts: ReachOpts{CutEdge: func(b *ssa.BasicBlock, k int) bool {
			if len(b.Instrs) == 0 || len(b.Succs) != 2 {
				return false
			}
			ifi, ok := b.Instrs[len(b.Instrs)-1].(*ssa.If)
			if !ok {
				return false
			}
			return absent(FactOf(ifi.Cond, k == 0))
		}},
		CutInstrEnv: consumed,
		CutFactEnv:  absent, // `case err != nil && IsNotFound(err):` is a phi; on the path that evaluated IsNotFound the edge says so
		Exceeded:    &exceeded,
	})
	if exceeded {
		return "undecided: too many path states"
	}
	for _, r := range reached {
		if r.Instr == call.(ssa.Instruction) {
			return "on a path where the error may be non-nil the call is executed again (next loop iteration) before the error was returned, stored or aggregated: a later success overwrites it"
		}
		ret := r.Instr.(*ssa.Return)
		ok := false
		anyErrResult := false
		for _, res := range ret.Results {
			if !types.Identical(res.Type(), errorType) {
				continue
			}
			anyErrResult = true
			rv := Resolve(res, r.Env)
			if isE(res, r.Env) {
				ok = true
			}
			// IgnoreNotFound(e) returned
			if c, isCall := rv.(*ssa.Call); isCall && NameMatch(CalleeName(&c.Call), "client.IgnoreNotFound") && len(c.Call.Args) > 0 && isE(c.Call.Args[0], r.Env) {
				ok = true
			}
			// a fresh error constructed on this path (fmt.Errorf("... %s", err.Error()), NewBadRequestError(...), errList.ToAggregate())
			inner := rv
			if mi, isMI := inner.(*ssa.MakeInterface); isMI {
				inner = Resolve(mi.X, r.Env)
			}
			if c, isCall := inner.(*ssa.Call); isCall && isErrCtor(CalleeName(&c.Call)) {
				ok = true
			}
			// a value loaded from a cell (named result captured by a closure): cannot follow, accept
			if u, isLoad := rv.(*ssa.UnOp); isLoad {
				if _, isAlloc := u.X.(*ssa.Alloc); isAlloc {
					ok = true
				}
			}
		}
		if !ok && !anyErrResult && testedByIf(e) {
			// a function that cannot return an error handles it by branching on it (event handlers, best-effort lookups)
			ok = true
		}
		if !ok {
			what := "the function returns without returning it"
			if !anyErrResult {
				what = "the function (no error result) returns without testing it"
			}
			return "on a path where the error may be non-nil " + what + " (return at " + p.Pos(ret.Pos()) + ")"
		}
	}
	_ = fn
	return ""
}

// termIs reports whether term t denotes exactly SSA value v (possibly through a phi that includes it).
func termIs(t *Term, v ssa.Value) bool {
	if t.V == v {
		return true
	}
	if t.Op == "phi" {
		for _, a := range t.Args {
			if a.V == v {
				return true
			}
		}
	}
	return false
}

func isErrCtor(name string) bool {
	last := name
	if i := strings.LastIndex(name, "."); i >= 0 {
		last = name[i+1:]
	}
	return last == "Errorf" || strings.HasPrefix(last, "New") || last == "ToAggregate" || strings.HasPrefix(last, "Wrap")
}

// testedByIf reports whether e is compared (directly or via a phi) in a branch condition.
func testedByIf(e ssa.Value) bool {
	seen := map[ssa.Value]bool{}
	var walk func(v ssa.Value, depth int) bool
	walk = func(v ssa.Value, depth int) bool {
		if seen[v] || depth > 4 {
			return false
		}
		seen[v] = true
		refs := v.Referrers()
		if refs == nil {
			return false
		}
		for _, r := range *refs {
			switch x := r.(type) {
			case *ssa.BinOp:
				if x.Referrers() != nil {
					for _, rr := range *x.Referrers() {
						if _, ok := rr.(*ssa.If); ok {
							return true
						}
						if ph, ok := rr.(*ssa.Phi); ok && walkBool(ph) {
							return true
						}
					}
				}
			case *ssa.Phi:
				if walk(x, depth+1) {
					return true
				}
			}
		}
		return false
	}
	return walk(e, 0)
}

func walkBool(v ssa.Value) bool {
	refs := v.Referrers()
	if refs == nil {
		return false
	}
	for _, r := range *refs {
		if _, ok := r.(*ssa.If); ok {
			return true
		}
	}
	return false
}

// errNilWhen: in callee, every return whose result k may equal want returns the constant nil as result errIdx.
func errNilWhen(callee *ssa.Function, k int, want bool, errIdx int) bool {
	if callee == nil || callee.Blocks == nil || k >= callee.Signature.Results().Len() || errIdx >= callee.Signature.Results().Len() {
		return false
	}
	seen := false
	for _, b := range callee.Blocks {
		for _, in := range b.Instrs {
			ret, ok := in.(*ssa.Return)
			if !ok || len(ret.Results) <= k || len(ret.Results) <= errIdx {
				continue
			}
			may := false
			for _, lf := range Leaves(Forwarded(ret.Results[k]), ret.Block()) {
				if c, isC := Forwarded(lf.V).(*ssa.Const); isC {
					if (constText(c) == "true") == want {
						may = true
					}
				} else {
					may = true
				}
			}
			if !may {
				continue
			}
			seen = true
			for _, lf := range Leaves(Forwarded(ret.Results[errIdx]), ret.Block()) {
				if c, isC := Forwarded(lf.V).(*ssa.Const); !isC || !c.IsNil() {
					return false
				}
			}
		}
	}
	return seen
}
