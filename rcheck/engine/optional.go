package engine

import (
	"go/types"
	"reflect"
	"strings"

	"golang.org/x/tools/go/ssa"
)

// OptDeref is a dereference of an optional (omitempty / nil-able) pointer field
// that is not dominated by a nil check of that pointer.
type OptDeref struct {
	Instr ssa.Instruction
	Ptr   *Term
	Field *types.Var
	Owner string
}

// optionalPtrField reports whether the struct field is a pointer that the API marks optional.
func optionalPtrField(st *types.Struct, i int) bool {
	f := st.Field(i)
	if _, ok := f.Type().Underlying().(*types.Pointer); !ok {
		return false
	}
	tag := reflect.StructTag(st.Tag(i)).Get("json")
	return strings.Contains(tag, "omitempty")
}

// OptionalDerefs lists dereferences in fn of pointers loaded from optional
// pointer fields (json omitempty) that no dominating branch fact shows non-nil.
// want selects the fields of interest by (owner type short name, field name).
func OptionalDerefs(fn *ssa.Function, want func(owner, field string) bool) []OptDeref {
	var out []OptDeref
	ptrLoad := func(v ssa.Value) (*ssa.FieldAddr, bool) {
		u, ok := v.(*ssa.UnOp)
		if !ok || u.Op.String() != "*" {
			return nil, false
		}
		fa, ok := u.X.(*ssa.FieldAddr)
		if !ok {
			return nil, false
		}
		st := derefStruct(fa.X.Type())
		if st == nil || !optionalPtrField(st, fa.Field) {
			return nil, false
		}
		return fa, true
	}
	for _, b := range fn.Blocks {
		for _, in := range b.Instrs {
			var p ssa.Value
			switch x := in.(type) {
			case *ssa.FieldAddr:
				p = x.X
			case *ssa.UnOp:
				if x.Op.String() == "*" {
					p = x.X
				}
			case *ssa.Store:
				p = x.Addr
			}
			if p == nil {
				continue
			}
			fa, ok := ptrLoad(p)
			if !ok {
				continue
			}
			name, owner := FieldOf(fa)
			if want != nil && !want(owner, name) {
				continue
			}
			pt := TermOf(p)
			ps := pt.String()
			guarded := false
			// a pointer field of a local composite that is only ever stored fresh allocations is non-nil by construction
			if al := rootAlloc(fa); al != nil {
				fresh, any := true, false
				for _, st := range allocStores(al) {
					if sfa, ok := st.Addr.(*ssa.FieldAddr); ok && sfa.Field == fa.Field && sameFieldChain(sfa, fa) {
						any = true
						switch st.Val.(type) {
						case *ssa.Alloc, *ssa.MakeInterface:
						default:
							fresh = false
						}
					}
				}
				if any && fresh {
					guarded = true
				}
			}
			for _, f := range FactsAtInstr(in) {
				if f.Op == "!=" && f.R.Op == "const" && f.R.Name == "nil" && f.L.String() == ps {
					guarded = true
				}
				if f.Op == "!=" && f.L.Op == "const" && f.L.Name == "nil" && f.R.String() == ps {
					guarded = true
				}
			}
			if !guarded {
				// path form: every path to the dereference passes a `p != nil` edge or a store of a fresh value into the field
				// (idiom: if x.F == nil { x.F = &T{} }; x.F.G = ...)
				addrStr := TermOf(fa).String()
				reach, _ := CanReach(Entry(fn), func(x ssa.Instruction) bool { return x == in }, ReachOpts{
					CutEdge: func(b *ssa.BasicBlock, k int) bool {
						if len(b.Instrs) == 0 || len(b.Succs) != 2 {
							return false
						}
						ifi, ok := b.Instrs[len(b.Instrs)-1].(*ssa.If)
						if !ok {
							return false
						}
						f := FactOf(ifi.Cond, k == 0)
						return f.Op == "!=" && ((f.R.Op == "const" && f.R.Name == "nil" && f.L.String() == ps) || (f.L.Op == "const" && f.L.Name == "nil" && f.R.String() == ps))
					},
					CutInstr: func(x ssa.Instruction) bool {
						st, ok := x.(*ssa.Store)
						if !ok {
							return false
						}
						sfa, ok := st.Addr.(*ssa.FieldAddr)
						if !ok || TermOf(sfa).String() != addrStr {
							return false
						}
						_, fresh := st.Val.(*ssa.Alloc)
						return fresh
					},
				})
				if !reach {
					guarded = true
				}
			}
			if guarded {
				continue
			}
			st := derefStruct(fa.X.Type())
			out = append(out, OptDeref{Instr: in, Ptr: pt, Field: st.Field(fa.Field), Owner: owner})
		}
	}
	return out
}

func sameFieldChain(a, b *ssa.FieldAddr) bool {
	for {
		if a.Field != b.Field {
			return false
		}
		ax, aok := a.X.(*ssa.FieldAddr)
		bx, bok := b.X.(*ssa.FieldAddr)
		if aok != bok {
			return false
		}
		if !aok {
			return a.X == b.X
		}
		a, b = ax, bx
	}
}
