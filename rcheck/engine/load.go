// Package engine holds the loader and the analysis primitives shared by all rules.
package engine

import (
	"fmt"
	"go/token"
	"go/types"
	"os"
	"sort"
	"strings"

	"golang.org/x/tools/go/packages"
	"golang.org/x/tools/go/ssa"
	"golang.org/x/tools/go/ssa/ssautil"
)

// ModPath is the module path of the analysed repository.
const ModPath = "github.com/openkruise/rollouts"

// Program is the loaded, type-checked and SSA-built repository.
type Program struct {
	addrTaken map[*ssa.Function]bool
	Dir       string
	Fset      *token.FileSet
	Roots     []*packages.Package // repository packages
	All       []*packages.Package // roots + deps (deps have syntax only in whole-program mode)
	SSA       *ssa.Program
	Whole     bool
	byPath    map[string]*packages.Package
	ssaPkg    map[string]*ssa.Package
	repoFns   []*ssa.Function
	allFns    map[*ssa.Function]bool
	fnByName  map[string]*ssa.Function
	cgi       *cgIndex
	overlay   map[string][]byte
}

// Load loads /repo (dir). whole=true loads syntax of all dependencies too
// (needed for rules that look into library bodies).
func Load(dir string, whole bool, overlay map[string][]byte) (*Program, error) {
	mode := packages.NeedName | packages.NeedFiles | packages.NeedCompiledGoFiles |
		packages.NeedImports | packages.NeedTypes | packages.NeedTypesSizes |
		packages.NeedSyntax | packages.NeedTypesInfo | packages.NeedModule
	// Dependencies are type-checked from source in both modes (export data would
	// need a compile of every dependency, which is slower cold and needs a build cache).
	mode |= packages.NeedDeps
	env := []string{}
	for _, e := range os.Environ() {
		if strings.HasPrefix(e, "GOWORK=") || strings.HasPrefix(e, "GOFLAGS=") ||
			strings.HasPrefix(e, "GOPROXY=") || strings.HasPrefix(e, "GOSUMDB=") ||
			strings.HasPrefix(e, "GOTOOLCHAIN=") {
			continue
		}
		env = append(env, e)
	}
	env = append(env, "GOWORK=off", "GOFLAGS=-mod=mod", "GOPROXY=off", "GOSUMDB=off", "GOTOOLCHAIN=local")
	fset := token.NewFileSet()
	cfg := &packages.Config{
		Mode:    mode,
		Dir:     dir,
		Env:     env,
		Fset:    fset,
		Tests:   false,
		Overlay: overlay,
	}
	pkgs, err := packages.Load(cfg, "./...")
	if err != nil {
		return nil, fmt.Errorf("packages.Load: %w", err)
	}
	if len(pkgs) == 0 {
		return nil, fmt.Errorf("no packages loaded from %s", dir)
	}
	p := &Program{Dir: dir, Fset: fset, Whole: whole, overlay: overlay, byPath: map[string]*packages.Package{}, ssaPkg: map[string]*ssa.Package{}, fnByName: map[string]*ssa.Function{}}
	var errs []string
	packages.Visit(pkgs, nil, func(pk *packages.Package) {
		p.All = append(p.All, pk)
		p.byPath[pk.PkgPath] = pk
		if strings.HasPrefix(pk.PkgPath, ModPath) {
			for _, e := range pk.Errors {
				errs = append(errs, e.Error())
			}
		} else if os.Getenv("RCHECK_DEBUG") != "" {
			for _, e := range pk.Errors {
				fmt.Fprintln(os.Stderr, "dep error:", e)
			}
		}
	})
	if len(errs) > 0 {
		sort.Strings(errs)
		if len(errs) > 10 {
			errs = errs[:10]
		}
		return nil, fmt.Errorf("type errors in repository packages:\n  %s", strings.Join(errs, "\n  "))
	}
	for _, pk := range pkgs {
		if strings.HasPrefix(pk.PkgPath, ModPath) {
			p.Roots = append(p.Roots, pk)
		}
	}
	sort.Slice(p.Roots, func(i, j int) bool { return p.Roots[i].PkgPath < p.Roots[j].PkgPath })
	if len(p.Roots) < 40 {
		return nil, fmt.Errorf("only %d repository packages loaded (expected >= 40)", len(p.Roots))
	}
	var prog *ssa.Program
	var spkgs []*ssa.Package
	if whole {
		prog, _ = ssautil.AllPackages(pkgs, ssa.InstantiateGenerics)
	} else {
		prog, spkgs = ssautil.Packages(pkgs, ssa.InstantiateGenerics)
		_ = spkgs
	}
	prog.Build()
	p.SSA = prog
	for _, sp := range prog.AllPackages() {
		p.ssaPkg[sp.Pkg.Path()] = sp
	}
	p.allFns = ssautil.AllFunctions(prog)
	// AllFunctions omits methods of unexported types that nothing references; they are
	// still source the rules must see (e.g. a lock-discipline rule over every method).
	for _, sp := range prog.AllPackages() {
		if !strings.HasPrefix(sp.Pkg.Path(), ModPath) {
			continue
		}
		for _, mem := range sp.Members {
			tm, ok := mem.(*ssa.Type)
			if !ok {
				continue
			}
			if _, isIface := tm.Type().Underlying().(*types.Interface); isIface {
				continue
			}
			for _, t := range []types.Type{tm.Type(), types.NewPointer(tm.Type())} {
				ms := prog.MethodSets.MethodSet(t)
				for i := 0; i < ms.Len(); i++ {
					if fn := prog.MethodValue(ms.At(i)); fn != nil && fn.Synthetic == "" {
						p.allFns[fn] = true
						for _, an := range fn.AnonFuncs {
							p.allFns[an] = true
						}
					}
				}
			}
		}
	}
	for fn := range p.allFns {
		if fn.Pkg != nil && strings.HasPrefix(fn.Pkg.Pkg.Path(), ModPath) && fn.Blocks != nil && fn.Synthetic == "" {
			p.repoFns = append(p.repoFns, fn)
		} else if fn.Pkg == nil && fn.Parent() != nil {
			// anonymous function in instantiated generic etc.
			root := fn
			for root.Parent() != nil {
				root = root.Parent()
			}
			if root.Pkg != nil && strings.HasPrefix(root.Pkg.Pkg.Path(), ModPath) && fn.Blocks != nil {
				p.repoFns = append(p.repoFns, fn)
			}
		}
	}
	sort.Slice(p.repoFns, func(i, j int) bool {
		a, b := p.repoFns[i], p.repoFns[j]
		if a.Pos() != b.Pos() {
			return a.Pos() < b.Pos()
		}
		return a.String() < b.String()
	})
	for _, fn := range p.repoFns {
		p.fnByName[FuncName(fn)] = fn
	}
	theProgram = p
	return p, nil
}

// RepoFuncs returns every function with a body that belongs to the repository
// (declared functions, methods, and function literals), sorted by position.
func (p *Program) RepoFuncs() []*ssa.Function { return p.repoFns }

// AllFuncs returns every function known to the SSA program.
func (p *Program) AllFuncs() map[*ssa.Function]bool { return p.allFns }

// Pkg returns the go/packages package for a repository-relative or full path.
func (p *Program) Pkg(path string) *packages.Package {
	if pk, ok := p.byPath[path]; ok {
		return pk
	}
	return p.byPath[ModPath+"/"+path]
}

// SSAPkg returns the SSA package for a repository-relative or full path.
func (p *Program) SSAPkg(path string) *ssa.Package {
	if pk, ok := p.ssaPkg[path]; ok {
		return pk
	}
	return p.ssaPkg[ModPath+"/"+path]
}

// Func finds a repository function by short name as produced by FuncName,
// e.g. "pkg/util.UpdateFinalizer" or "pkg/trafficrouting.Manager.DoTrafficRouting".
func (p *Program) Func(name string) *ssa.Function {
	return p.fnByName[name]
}

// FuncsMatching returns repository functions whose short name matches pat
// (see NameMatch), sorted by position.
func (p *Program) FuncsMatching(pat string) []*ssa.Function {
	var out []*ssa.Function
	for _, fn := range p.repoFns {
		if NameMatch(FuncName(fn), pat) {
			out = append(out, fn)
		}
	}
	return out
}

// NamedType looks up a named type in a repository (or other loaded) package.
func (p *Program) NamedType(pkgPath, name string) *types.Named {
	pk := p.Pkg(pkgPath)
	if pk == nil || pk.Types == nil {
		return nil
	}
	obj := pk.Types.Scope().Lookup(name)
	if obj == nil {
		return nil
	}
	n, _ := obj.Type().(*types.Named)
	return n
}

// FieldVar returns the types.Var of field `field` of struct type pkg.typeName.
func (p *Program) FieldVar(pkgPath, typeName, field string) *types.Var {
	n := p.NamedType(pkgPath, typeName)
	if n == nil {
		return nil
	}
	st, ok := n.Underlying().(*types.Struct)
	if !ok {
		return nil
	}
	for i := 0; i < st.NumFields(); i++ {
		if st.Field(i).Name() == field {
			return st.Field(i)
		}
	}
	return nil
}

// ConstObj returns the named constant pkg.name.
func (p *Program) ConstObj(pkgPath, name string) *types.Const {
	pk := p.Pkg(pkgPath)
	if pk == nil || pk.Types == nil {
		return nil
	}
	c, _ := pk.Types.Scope().Lookup(name).(*types.Const)
	return c
}

// Pos renders a position relative to the repository root.
func (p *Program) Pos(pos token.Pos) string {
	if !pos.IsValid() {
		return "-"
	}
	pp := p.Fset.Position(pos)
	f := strings.TrimPrefix(pp.Filename, p.Dir+"/")
	return fmt.Sprintf("%s:%d", f, pp.Line)
}

// ShortPath strips the module prefix from a package path / qualified name.
func ShortPath(s string) string {
	s = strings.ReplaceAll(s, ModPath+"/", "")
	return s
}

// FuncName gives a stable short name for a function:
// "pkg/util.UpdateFinalizer", "pkg/trafficrouting.Manager.DoTrafficRouting",
// function literals "pkg/x.T.M$1".
func FuncName(fn *ssa.Function) string {
	if fn == nil {
		return "<nil>"
	}
	if fn.Parent() != nil {
		// anonymous: parentName$N
		s := fn.Name()
		i := strings.LastIndex(s, "$")
		suffix := s
		if i >= 0 {
			suffix = s[i:]
		}
		return FuncName(fn.Parent()) + suffix
	}
	if obj, ok := fn.Object().(*types.Func); ok && obj != nil {
		return TypesFuncName(obj)
	}
	return ShortPath(fn.String())
}

// TypesFuncName is FuncName for a *types.Func.
func TypesFuncName(obj *types.Func) string {
	s := obj.FullName()
	s = strings.ReplaceAll(s, "(*", "")
	s = strings.ReplaceAll(s, "(", "")
	s = strings.ReplaceAll(s, ")", "")
	return ShortPath(s)
}

// NameMatch reports whether a short function/type name matches a pattern: equal,
// or the pattern is a suffix that starts at a path or qualifier boundary.
func NameMatch(name, pat string) bool {
	if name == pat {
		return true
	}
	if strings.HasSuffix(name, "/"+pat) || strings.HasSuffix(name, "."+pat) {
		return true
	}
	return false
}

// ReadFile reads a file of the repository, honouring the overlay (used for the non-Go sources the rules parse themselves).
func (p *Program) ReadFile(path string) ([]byte, error) {
	if b, ok := p.overlay[path]; ok {
		return b, nil
	}
	return os.ReadFile(path)
}

// addressTaken lists the repository functions used as values (stored, passed, returned): their
// callers are not all known.
func (p *Program) addressTaken() map[*ssa.Function]bool {
	if p.addrTaken != nil {
		return p.addrTaken
	}
	p.addrTaken = map[*ssa.Function]bool{}
	for _, fn := range p.repoFns {
		for _, b := range fn.Blocks {
			for _, in := range b.Instrs {
				var callee ssa.Value
				if ci, ok := in.(ssa.CallInstruction); ok {
					callee = ci.Common().Value
				}
				for _, op := range in.Operands(nil) {
					if *op == nil {
						continue
					}
					if f, ok := (*op).(*ssa.Function); ok && ssa.Value(f) != callee {
						p.addrTaken[f] = true
					}
				}
			}
		}
	}
	return p.addrTaken
}
