package engine

import (
	"go/ast"
	"go/token"
	"go/types"

	"golang.org/x/tools/go/ast/astutil"
	"golang.org/x/tools/go/ssa"
)

// ConstUse is one syntactic use of a named constant in repository code.
type ConstUse struct {
	Ident      *ast.Ident
	Pos        token.Pos
	Fn         *ssa.Function // enclosing function (nil for package-level uses)
	Stmt       ast.Node      // innermost enclosing statement (or spec)
	Comparison bool          // operand of ==/!= or a case label
	Instrs     []ssa.Instruction
}

// ConstUses finds every use of the given constants (identity through
// types.Info.Uses, so equal-valued constants are not confused).
func (p *Program) ConstUses(consts ...*types.Const) []ConstUse {
	want := map[types.Object]bool{}
	for _, c := range consts {
		if c != nil {
			want[c] = true
		}
	}
	var out []ConstUse
	for _, pk := range p.Roots {
		sp := p.SSAPkg(pk.PkgPath)
		for _, file := range pk.Syntax {
			ast.Inspect(file, func(n ast.Node) bool {
				id, ok := n.(*ast.Ident)
				if !ok {
					return true
				}
				obj := pk.TypesInfo.Uses[id]
				if obj == nil || !want[obj] {
					return true
				}
				path, _ := astutil.PathEnclosingInterval(file, id.Pos(), id.End())
				cu := ConstUse{Ident: id, Pos: id.Pos()}
				// classify
				for i, pn := range path {
					switch x := pn.(type) {
					case *ast.BinaryExpr:
						if (x.Op == token.EQL || x.Op == token.NEQ) && i <= 2 {
							cu.Comparison = true
						}
					case *ast.CaseClause:
						for _, e := range x.List {
							if e.Pos() <= id.Pos() && id.End() <= e.End() {
								cu.Comparison = true
							}
						}
					}
					if _, isStmt := pn.(ast.Stmt); isStmt && cu.Stmt == nil {
						if _, isCase := pn.(*ast.CaseClause); !isCase {
							cu.Stmt = pn
						}
					}
				}
				if sp != nil {
					cu.Fn = ssa.EnclosingFunction(sp, path)
				}
				if cu.Fn != nil && cu.Stmt != nil {
					lo, hi := cu.Stmt.Pos(), cu.Stmt.End()
					// for compound statements restrict to the header expression containing the ident
					switch s := cu.Stmt.(type) {
					case *ast.IfStmt:
						if s.Cond != nil && s.Cond.Pos() <= id.Pos() && id.End() <= s.Cond.End() {
							lo, hi = s.Cond.Pos(), s.Cond.End()
						}
					case *ast.SwitchStmt:
						if s.Tag != nil {
							lo, hi = s.Tag.Pos(), s.Tag.End()
						}
					}
					for _, b := range cu.Fn.Blocks {
						for _, in := range b.Instrs {
							if ip := in.Pos(); ip.IsValid() && lo <= ip && ip < hi {
								cu.Instrs = append(cu.Instrs, in)
							}
						}
					}
				}
				out = append(out, cu)
				return true
			})
		}
	}
	return out
}
