package engine

import (
	"fmt"
	"go/types"
	"os"
	"strings"

	"golang.org/x/tools/go/ssa"
)

// Shared-cache taint: objects listed with DisableDeepCopy share their maps, slices and
// pointed-to values with the informer cache. Writing *through a reference* of such an
// object (map update, slice element store, store through a pointer field) mutates the
// cache under the informer's feet — a data race with every other reader.
//
// The struct values themselves are copies (typed lists hold items by value), so a plain
// field store on an item is local and is not reported.

// SharedWrite is one write through a reference of a shared-cache object.
type SharedWrite struct {
	Fn    *ssa.Function
	Instr ssa.Instruction
	What  string
	Via   string // how the object got here
}

type ncSummary struct {
	mutatesParam map[int]string // param index → description of the write
	returnsParam map[int]bool   // result derives from param i
	returnsList  bool           // result derives from an own no-deep-copy list
}

// refHop reports whether loading v's type crosses into memory shared with the cache.
func isRefType(t types.Type) bool {
	switch t.Underlying().(type) {
	case *types.Map, *types.Slice, *types.Pointer, *types.Interface:
		return true
	}
	return false
}

// derivation describes how a value derives from a root: hops = number of loads of
// reference-typed memory crossed after the root struct.
type derivation struct {
	ok   bool
	hops int
}

type ncAnalysis struct {
	p    *Program
	sums map[*ssa.Function]*ncSummary
}

// addrBase walks an address chain (FieldAddr / IndexAddr) down to what it is based on.
func addrBase(v ssa.Value) ssa.Value {
	for {
		switch x := v.(type) {
		case *ssa.FieldAddr:
			v = x.X
		case *ssa.IndexAddr:
			v = x.X
		default:
			return v
		}
	}
}

// derive: does value v denote (memory of / a reference out of) a shared-cache object?
// roots maps the values that denote such objects to their initial hop count.
func (a *ncAnalysis) derive(v ssa.Value, roots map[ssa.Value]int, seen map[ssa.Value]bool) derivation {
	if v == nil || seen[v] {
		return derivation{}
	}
	seen[v] = true
	if h, ok := roots[v]; ok {
		return derivation{true, h}
	}
	switch x := v.(type) {
	case *ssa.FieldAddr, *ssa.IndexAddr:
		base := addrBase(v)
		if _, local := base.(*ssa.Alloc); local {
			if _, isRoot := roots[base]; !isRoot {
				return derivation{} // address inside a local object: not shared memory
			}
		}
		return a.derive(base, roots, seen)
	case *ssa.Field:
		return a.derive(x.X, roots, seen)
	case *ssa.Index:
		return a.derive(x.X, roots, seen)
	case *ssa.Slice:
		return a.derive(x.X, roots, seen)
	case *ssa.ChangeType:
		return a.derive(x.X, roots, seen)
	case *ssa.MakeInterface:
		return a.derive(x.X, roots, seen)
	case *ssa.TypeAssert:
		return a.derive(x.X, roots, seen)
	case *ssa.Extract:
		return a.derive(x.Tuple, roots, seen)
	case *ssa.Next:
		return a.derive(x.Iter, roots, seen)
	case *ssa.Range:
		return a.derive(x.X, roots, seen)
	case *ssa.Lookup:
		return a.derive(x.X, roots, seen)
	case *ssa.UnOp:
		base := addrBase(x.X)
		if al, local := base.(*ssa.Alloc); local {
			if _, isRoot := roots[al]; !isRoot {
				// load from a local cell / local struct: what was stored there flows out unchanged
				if !isRefType(x.Type()) {
					return derivation{}
				}
				best := derivation{}
				for _, st := range allocStores(al) {
					if _, isStruct := st.Val.Type().Underlying().(*types.Struct); isStruct {
						// a (shallow) struct copy of a shared object lives in this local: the
						// references read out of the copy are still the cache's
						if d := a.derive(st.Val, roots, seen); d.ok {
							d.hops++
							if !best.ok || d.hops > best.hops {
								best = d
							}
						}
						continue
					}
					if !types.AssignableTo(st.Val.Type(), x.Type()) && !types.Identical(st.Val.Type(), x.Type()) {
						continue
					}
					if d := a.derive(st.Val, roots, seen); d.ok && (!best.ok || d.hops > best.hops) {
						best = d
					}
				}
				return best
			}
		}
		d := a.derive(x.X, roots, seen)
		if d.ok && isRefType(x.Type()) {
			d.hops++ // a reference loaded out of the object's memory is shared with the cache
		}
		return d
	case *ssa.Alloc:
		// the address of a local that holds a (shallow) struct copy of a shared object
		best := derivation{}
		for _, st := range allocStores(x) {
			_, isStruct := st.Val.Type().Underlying().(*types.Struct)
			switch {
			case st.Addr == ssa.Value(x) && isStruct:
				// whole-struct (shallow) copy of a shared object
			case isRefType(st.Val.Type()):
				// a shared reference kept in an element / field of this local (varargs and
				// slice backing arrays, fields of a local result struct)
			default:
				continue
			}
			if d := a.derive(st.Val, roots, seen); d.ok && (!best.ok || d.hops > best.hops) {
				best = d
			}
		}
		return best
	case *ssa.Phi:
		best := derivation{}
		for _, e := range x.Edges {
			if d := a.derive(e, roots, seen); d.ok && (!best.ok || d.hops > best.hops) {
				best = d
			}
		}
		return best
	case *ssa.Call:
		if b, ok := x.Call.Value.(*ssa.Builtin); ok && b.Name() == "append" {
			best := derivation{}
			for _, arg := range x.Call.Args {
				if d := a.derive(arg, roots, seen); d.ok && (!best.ok || d.hops > best.hops) {
					best = d
				}
			}
			return best
		}
		for _, callee := range a.callees(x) {
			s := a.sums[callee]
			if s == nil {
				continue
			}
			if s.returnsList {
				return derivation{true, 1}
			}
			for i := range s.returnsParam {
				if i < len(x.Call.Args) {
					if d := a.derive(x.Call.Args[i], roots, seen); d.ok {
						return d
					}
				}
			}
		}
	}
	return derivation{}
}

// noCopyLists returns the list objects of fn that are filled by a List call carrying DisableDeepCopy.
func (a *ncAnalysis) noCopyLists(fn *ssa.Function, optParamTainted map[*ssa.Function]bool) map[ssa.Value]int {
	roots := map[ssa.Value]int{}
	for _, ci := range AllCalls(fn) {
		c := ci.Common()
		if !(c.IsInvoke() && c.Method.Name() == "List") || len(c.Args) < 2 {
			continue
		}
		noCopy := false
		for _, arg := range c.Args[2:] {
			for x := range BackwardSlice(arg) {
				if g, ok := x.(*ssa.Global); ok && (g.Name() == "DisableDeepCopy" || g.Name() == "UnsafeDisableDeepCopy") {
					noCopy = true
				}
				if pr, ok := x.(*ssa.Parameter); ok && optParamTainted[fn] && strings.Contains(pr.Type().String(), "ListOption") {
					noCopy = true
				}
			}
		}
		if !noCopy {
			continue
		}
		root := c.Args[1]
		for {
			switch y := root.(type) {
			case *ssa.MakeInterface:
				root = y.X
				continue
			case *ssa.ChangeInterface:
				root = y.X
				continue
			}
			break
		}
		// hops start at 0 on the list object: Items is a slice *of the list* (fresh), its
		// elements are struct copies; the first shared memory is behind a reference field of an item.
		// Loading the Items slice itself counts as a hop in derive(), so start at -1.
		roots[root] = -1
	}
	return roots
}

// SharedCacheWrites runs the analysis over the repository.
func SharedCacheWrites(p *Program) (writes []SharedWrite, lists int) {
	a := &ncAnalysis{p: p, sums: map[*ssa.Function]*ncSummary{}}
	// helpers whose ListOption parameter receives DisableDeepCopy from some caller
	optTainted := map[*ssa.Function]bool{}
	for _, fn := range p.RepoFuncs() {
		for _, ci := range AllCalls(fn) {
			callee := unwrapSynthetic(ci.Common().StaticCallee())
			if callee == nil || callee.Blocks == nil {
				continue
			}
			for _, arg := range ci.Common().Args {
				for x := range BackwardSlice(arg) {
					if g, ok := x.(*ssa.Global); ok && (g.Name() == "DisableDeepCopy" || g.Name() == "UnsafeDisableDeepCopy") {
						for _, pr := range callee.Params {
							if strings.Contains(pr.Type().String(), "ListOption") {
								optTainted[callee] = true
							}
						}
					}
				}
			}
		}
	}
	if os.Getenv("RCHECK_NC_DEBUG") != "" {
		for f := range optTainted {
			fmt.Printf("NC opt-tainted %s\n", FuncName(f))
		}
	}
	funcs := p.RepoFuncs()
	isWriteThrough := func(fn *ssa.Function, roots map[ssa.Value]int, in ssa.Instruction) (bool, string) {
		switch x := in.(type) {
		case *ssa.MapUpdate:
			if d := a.derive(x.Map, roots, map[ssa.Value]bool{}); d.ok && d.hops >= 1 {
				return true, "map update on " + TermOf(x.Map).String()
			}
		case *ssa.Store:
			if al, local := addrBase(x.Addr).(*ssa.Alloc); local {
				if _, isRoot := roots[al]; !isRoot {
					return false, "" // store into a local object
				}
			}
			if d := a.derive(x.Addr, roots, map[ssa.Value]bool{}); d.ok && d.hops >= 1 {
				return true, "store to " + TermOf(x.Addr).String()
			}
		case *ssa.Call:
			if b, ok := x.Call.Value.(*ssa.Builtin); ok && b.Name() == "delete" && len(x.Call.Args) > 0 {
				if d := a.derive(x.Call.Args[0], roots, map[ssa.Value]bool{}); d.ok && d.hops >= 1 {
					return true, "delete on " + TermOf(x.Call.Args[0]).String()
				}
			}
		}
		return false, ""
	}
	// summaries to a fixed point
	for round := 0; round < 6; round++ {
		changed := false
		for _, fn := range funcs {
			s := a.sums[fn]
			if s == nil {
				s = &ncSummary{mutatesParam: map[int]string{}, returnsParam: map[int]bool{}}
				a.sums[fn] = s
			}
			own := a.noCopyLists(fn, optTainted)
			for i, pr := range fn.Params {
				if !isRefType(pr.Type()) {
					continue
				}
				// a pointer parameter denotes the object itself: references loaded from it are shared
				roots := map[ssa.Value]int{pr: 0}
				if _, ok := s.mutatesParam[i]; !ok {
					for _, b := range fn.Blocks {
						for _, in := range b.Instrs {
							if w, what := isWriteThrough(fn, roots, in); w {
								s.mutatesParam[i] = what + " in " + FuncName(fn)
								changed = true
							}
							if ci, ok := in.(ssa.CallInstruction); ok && s.mutatesParam[i] == "" {
								for _, callee := range a.callees(ci) {
									cs := a.sums[callee]
									if cs == nil {
										continue
									}
									for j, why := range cs.mutatesParam {
										if j < len(ci.Common().Args) {
											if d := a.derive(ci.Common().Args[j], roots, map[ssa.Value]bool{}); d.ok {
												s.mutatesParam[i] = why
												changed = true
											}
										}
									}
								}
							}
						}
					}
				}
				if !s.returnsParam[i] {
					for _, b := range fn.Blocks {
						for _, in := range b.Instrs {
							if ret, ok := in.(*ssa.Return); ok {
								for _, r := range ret.Results {
									if !isRefType(r.Type()) {
										continue
									}
									if d := a.derive(r, roots, map[ssa.Value]bool{}); d.ok {
										s.returnsParam[i] = true
										changed = true
									}
								}
							}
						}
					}
				}
			}
			if len(own) > 0 && !s.returnsList {
				for _, b := range fn.Blocks {
					for _, in := range b.Instrs {
						if ret, ok := in.(*ssa.Return); ok {
							for _, r := range ret.Results {
								if !isRefType(r.Type()) {
									continue
								}
								if d := a.derive(r, own, map[ssa.Value]bool{}); d.ok {
									s.returnsList = true
									changed = true
								}
							}
						}
					}
				}
			}
		}
		if !changed {
			break
		}
	}
	if os.Getenv("RCHECK_NC_DEBUG") != "" {
		for _, fn := range funcs {
			if s := a.sums[fn]; s != nil && (len(s.mutatesParam) > 0 || s.returnsList || len(s.returnsParam) > 0) && strings.Contains(FuncName(fn), os.Getenv("RCHECK_NC_DEBUG")) {
				fmt.Printf("NC %s mutates=%v returnsParam=%v returnsList=%v opt=%v\n", FuncName(fn), s.mutatesParam, s.returnsParam, s.returnsList, optTainted[fn])
			}
		}
	}
	lastParamWrites = map[*ssa.Function]map[int]string{}
	for fn, sm := range a.sums {
		if len(sm.mutatesParam) > 0 {
			lastParamWrites[fn] = sm.mutatesParam
		}
	}
	// report
	for _, fn := range funcs {
		roots := a.noCopyLists(fn, optTainted)
		lists += len(roots)
		// results of callees that hand out their own no-deep-copy list
		for _, ci := range AllCalls(fn) {
			call, ok := ci.(*ssa.Call)
			if !ok {
				continue
			}
			for _, callee := range a.callees(ci) {
				if s := a.sums[callee]; s != nil && s.returnsList {
					roots[call] = 0
					for _, r := range *refs(call) {
						if ex, ok := r.(*ssa.Extract); ok {
							roots[ex] = 0
						}
					}
				}
			}
		}
		if len(roots) == 0 {
			continue
		}
		for _, b := range fn.Blocks {
			for _, in := range b.Instrs {
				if w, what := isWriteThrough(fn, roots, in); w {
					writes = append(writes, SharedWrite{Fn: fn, Instr: in, What: what, Via: "object of a DisableDeepCopy list"})
				}
				if ci, ok := in.(ssa.CallInstruction); ok {
					for _, callee := range a.callees(ci) {
						cs := a.sums[callee]
						if cs == nil {
							continue
						}
						for j, why := range cs.mutatesParam {
							if j < len(ci.Common().Args) {
								if d := a.derive(ci.Common().Args[j], roots, map[ssa.Value]bool{}); d.ok {
									writes = append(writes, SharedWrite{Fn: fn, Instr: in, What: "passed to " + FuncName(callee) + ", which performs a " + why, Via: "object of a DisableDeepCopy list"})
								}
							}
						}
					}
				}
			}
		}
	}
	return writes, lists
}

var lastParamWrites map[*ssa.Function]map[int]string
var lastParamWritesFor *Program

// ParamWriteThroughs: for every repository function, the parameters (by index, receiver first)
// through which it writes into memory the caller's object shares — a map update, a slice element
// store, a store through a pointer field — directly or by handing the object to a callee that
// does; a DeepCopy() in between clears the derivation, a shallow struct copy does not.
func ParamWriteThroughs(p *Program) map[*ssa.Function]map[int]string {
	if lastParamWritesFor != p {
		SharedCacheWrites(p)
		lastParamWritesFor = p
	}
	return lastParamWrites
}

// unwrapSynthetic resolves promoted-method wrappers and bound-method thunks to the declared method.
func unwrapSynthetic(fn *ssa.Function) *ssa.Function {
	for i := 0; i < 3 && fn != nil && fn.Synthetic != "" && fn.Blocks != nil; i++ {
		var next *ssa.Function
		for _, ci := range AllCalls(fn) {
			if c := ci.Common().StaticCallee(); c != nil {
				next = c
			}
		}
		if next == nil {
			break
		}
		fn = next
	}
	return fn
}

// callees = Program.Callees with synthetic wrappers resolved.
func (a *ncAnalysis) callees(ci ssa.CallInstruction) []*ssa.Function {
	var out []*ssa.Function
	for _, f := range a.p.Callees(ci) {
		out = append(out, unwrapSynthetic(f))
	}
	if c := ci.Common().StaticCallee(); c != nil && c.Synthetic != "" {
		out = append(out, unwrapSynthetic(c))
	}
	return out
}

func refs(v ssa.Value) *[]ssa.Instruction {
	if r := v.Referrers(); r != nil {
		return r
	}
	return &[]ssa.Instruction{}
}
