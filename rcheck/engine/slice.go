package engine

import (
	"go/token"
	"strings"

	"golang.org/x/tools/go/ssa"
)

// rootAlloc follows FieldAddr/IndexAddr chains down to an Alloc, if any.
func rootAlloc(v ssa.Value) *ssa.Alloc {
	for {
		switch x := v.(type) {
		case *ssa.Alloc:
			return x
		case *ssa.FieldAddr:
			v = x.X
		case *ssa.IndexAddr:
			v = x.X
		default:
			return nil
		}
	}
}

// allocStores lists the Store instructions whose address is rooted at alloc a.
func allocStores(a *ssa.Alloc) []*ssa.Store {
	var out []*ssa.Store
	seen := map[ssa.Value]bool{}
	var visit func(v ssa.Value)
	visit = func(v ssa.Value) {
		if seen[v] {
			return
		}
		seen[v] = true
		refs := v.Referrers()
		if refs == nil {
			return
		}
		for _, r := range *refs {
			switch x := r.(type) {
			case *ssa.Store:
				if x.Addr == v {
					out = append(out, x)
				}
			case *ssa.FieldAddr:
				if x.X == v {
					visit(x)
				}
			case *ssa.IndexAddr:
				if x.X == v {
					visit(x)
				}
			}
		}
	}
	visit(a)
	return out
}

// singleStore returns the only store directly to alloc a (whole-cell store), if there is exactly one.
func singleStore(a *ssa.Alloc) *ssa.Store {
	refs := a.Referrers()
	if refs == nil {
		return nil
	}
	var only *ssa.Store
	for _, r := range *refs {
		if st, ok := r.(*ssa.Store); ok && st.Addr == ssa.Value(a) {
			if only != nil {
				return nil
			}
			only = st
		}
	}
	return only
}

// BackwardSlice returns every value v data-depends on inside its function:
// operands transitively, through local cells (values stored anywhere into an
// Alloc the value is loaded from), through phis, calls (arguments and callee
// value), extracts. Control dependence is not included.
func BackwardSlice(v ssa.Value) map[ssa.Value]bool {
	seen := map[ssa.Value]bool{}
	var walk func(v ssa.Value)
	walk = func(v ssa.Value) {
		if v == nil || seen[v] {
			return
		}
		seen[v] = true
		if a, ok := v.(*ssa.Alloc); ok {
			for _, st := range allocStores(a) {
				walk(st.Val)
			}
			return
		}
		if in, ok := v.(ssa.Instruction); ok {
			for _, op := range in.Operands(nil) {
				if *op != nil {
					walk(*op)
				}
			}
		}
	}
	walk(v)
	return seen
}

// SliceHas reports whether the backward slice of v contains a value whose term matches m.
func SliceHas(v ssa.Value, m M) bool {
	for x := range BackwardSlice(v) {
		if m(TermOf(x)) {
			return true
		}
	}
	return false
}

// AllocStoresOf lists the Store instructions whose address is rooted at a.
func AllocStoresOf(a *ssa.Alloc) []*ssa.Store { return allocStores(a) }

// Forwarded resolves a load whose cell was stored earlier in the same block
// (defer-spilled results, address-taken locals) to the stored value.
func Forwarded(v ssa.Value) ssa.Value {
	for i := 0; i < 8; i++ {
		u, ok := v.(*ssa.UnOp)
		if !ok || u.Op != token.MUL {
			return v
		}
		f := forwardedStore(u)
		if f == nil {
			return v
		}
		v = f
	}
	return v
}

// SliceHasDeep is SliceHas that also looks into the values returned by repository functions
// called in the slice (two levels): a value assembled by an extracted helper is recognised by
// what the helper builds it from.
func SliceHasDeep(v ssa.Value, m M) bool { return sliceHasDeep(v, m, 0, map[*ssa.Function]bool{}) }

func sliceHasDeep(v ssa.Value, m M, depth int, seen map[*ssa.Function]bool) bool {
	for x := range BackwardSlice(v) {
		if m(TermOf(x)) {
			return true
		}
		if depth >= 2 {
			continue
		}
		call, ok := x.(*ssa.Call)
		if !ok {
			continue
		}
		g := call.Call.StaticCallee()
		if g == nil || g.Blocks == nil || g.Pkg == nil || seen[g] || !strings.HasPrefix(g.Pkg.Pkg.Path(), ModPath) {
			continue
		}
		seen[g] = true
		for _, b := range g.Blocks {
			for _, in := range b.Instrs {
				if ret, ok := in.(*ssa.Return); ok {
					for _, r := range ret.Results {
						if sliceHasDeep(r, m, depth+1, seen) {
							return true
						}
					}
				}
			}
		}
	}
	return false
}
