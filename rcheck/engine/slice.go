package engine

import (
	"go/token"
	"go/types"
	"strings"

	"golang.org/x/tools/go/ssa"
)

// rootAlloc follows FieldAddr/IndexAddr chains down to an Alloc, if any.
func rootAlloc(v ssa.Value) *ssa.Alloc {
	for {
		switch x := v.(type) {
		case *ssa.Alloc:
			return x
		case *ssa.FieldAddr:
			v = x.X
		case *ssa.IndexAddr:
			v = x.X
		default:
			return nil
		}
	}
}

// allocStores lists the Store instructions whose address is rooted at alloc a.
func allocStores(a *ssa.Alloc) []*ssa.Store {
	var out []*ssa.Store
	seen := map[ssa.Value]bool{}
	var visit func(v ssa.Value)
	visit = func(v ssa.Value) {
		if seen[v] {
			return
		}
		seen[v] = true
		refs := v.Referrers()
		if refs == nil {
			return
		}
		for _, r := range *refs {
			switch x := r.(type) {
			case *ssa.Store:
				if x.Addr == v {
					out = append(out, x)
				}
			case *ssa.FieldAddr:
				if x.X == v {
					visit(x)
				}
			case *ssa.IndexAddr:
				if x.X == v {
					visit(x)
				}
			}
		}
	}
	visit(a)
	return out
}

// singleStore returns the only store directly to alloc a (whole-cell store), if there is exactly one.
func singleStore(a *ssa.Alloc) *ssa.Store {
	refs := a.Referrers()
	if refs == nil {
		return nil
	}
	var only *ssa.Store
	for _, r := range *refs {
		if st, ok := r.(*ssa.Store); ok && st.Addr == ssa.Value(a) {
			if only != nil {
				return nil
			}
			only = st
		}
	}
	return only
}

// BackwardSlice returns every value v data-depends on inside its function:
// operands transitively, through local cells (values stored anywhere into an
// Alloc the value is loaded from), through phis, calls (arguments and callee
// value), extracts. Control dependence is not included.
func BackwardSlice(v ssa.Value) map[ssa.Value]bool {
	seen := map[ssa.Value]bool{}
	var walk func(v ssa.Value)
	walk = func(v ssa.Value) {
		if v == nil || seen[v] {
			return
		}
		seen[v] = true
		if a, ok := v.(*ssa.Alloc); ok {
			for _, st := range allocStores(a) {
				walk(st.Val)
			}
			return
		}
		if in, ok := v.(ssa.Instruction); ok {
			for _, op := range in.Operands(nil) {
				if *op != nil {
					walk(*op)
				}
			}
		}
	}
	walk(v)
	return seen
}

// SliceHas reports whether the backward slice of v contains a value whose term matches m.
func SliceHas(v ssa.Value, m M) bool {
	for x := range BackwardSlice(v) {
		if m(TermOf(x)) {
			return true
		}
	}
	return false
}

// AllocStoresOf lists the Store instructions whose address is rooted at a.
func AllocStoresOf(a *ssa.Alloc) []*ssa.Store { return allocStores(a) }

// Forwarded resolves a load whose cell was stored earlier in the same block
// (defer-spilled results, address-taken locals) to the stored value.
func Forwarded(v ssa.Value) ssa.Value {
	for i := 0; i < 8; i++ {
		u, ok := v.(*ssa.UnOp)
		if !ok || u.Op != token.MUL {
			return v
		}
		f := forwardedStore(u)
		if f == nil {
			return v
		}
		v = f
	}
	return v
}

// SliceHasDeep is SliceHas that also looks into the values returned by repository functions
// called in the slice (two levels): a value assembled by an extracted helper is recognised by
// what the helper builds it from.
func SliceHasDeep(v ssa.Value, m M) bool { return sliceHasDeep(v, m, 0, map[*ssa.Function]bool{}) }

func sliceHasDeep(v ssa.Value, m M, depth int, seen map[*ssa.Function]bool) bool {
	for x := range BackwardSlice(v) {
		if m(TermOf(x)) {
			return true
		}
		if depth >= 2 {
			continue
		}
		call, ok := x.(*ssa.Call)
		if !ok {
			continue
		}
		g := call.Call.StaticCallee()
		if g == nil || g.Blocks == nil || g.Pkg == nil || seen[g] || !strings.HasPrefix(g.Pkg.Pkg.Path(), ModPath) {
			continue
		}
		seen[g] = true
		for _, b := range g.Blocks {
			for _, in := range b.Instrs {
				if ret, ok := in.(*ssa.Return); ok {
					for _, r := range ret.Results {
						if sliceHasDeep(r, m, depth+1, seen) {
							return true
						}
					}
				}
			}
		}
	}
	return false
}

// ---------------------------------------------------------------------------
// Values carried through a local struct, possibly one returned by a helper.

// StructFieldDefs resolves a read  x.f  of a local struct variable x (a load of &alloc.f) to the
// definitions the field can have there: the value of the latest store to the field — or to the
// whole struct — that dominates the read. A whole-struct store of another local's value or of the
// result of a repository function is followed (into that function: once per return, with the
// facts of the return). A field never stored is its zero value (a nil constant for pointers,
// slices, maps and interfaces). ok is false when the read cannot be resolved that way (a store
// on a path that does not dominate the read, an escaping address, an unknown producer).
func StructFieldDefs(v ssa.Value) ([]Leaf, bool) {
	ld, ok := v.(*ssa.UnOp)
	if !ok || ld.Op != token.MUL {
		return nil, false
	}
	fa, ok := ld.X.(*ssa.FieldAddr)
	if !ok {
		return nil, false
	}
	al, ok := fa.X.(*ssa.Alloc)
	if !ok {
		return nil, false
	}
	return fieldDefsAt(al, fa.Field, ld, 0)
}

func instrIndex(in ssa.Instruction) int {
	for i, x := range in.Block().Instrs {
		if x == in {
			return i
		}
	}
	return -1
}

// before reports whether a is executed before b on every path to b (dominance, or earlier in the block).
func before(a, b ssa.Instruction) bool {
	if a.Block() == b.Block() {
		return instrIndex(a) < instrIndex(b)
	}
	return a.Block().Dominates(b.Block())
}

func fieldDefsAt(al *ssa.Alloc, field int, at ssa.Instruction, depth int) ([]Leaf, bool) {
	if depth > 4 || al.Referrers() == nil {
		return nil, false
	}
	// candidate writers: stores to &al.field, stores to al itself; anything else that lets the address escape fails
	var writers []*ssa.Store
	for _, r := range *al.Referrers() {
		switch x := r.(type) {
		case *ssa.Store:
			if x.Addr == ssa.Value(al) {
				writers = append(writers, x)
			} else {
				return nil, false // the struct's address is stored somewhere
			}
		case *ssa.FieldAddr:
			if x.Referrers() == nil {
				continue
			}
			for _, r2 := range *x.Referrers() {
				switch y := r2.(type) {
				case *ssa.Store:
					if y.Addr == ssa.Value(x) {
						if x.Field == field {
							writers = append(writers, y)
						}
					} else {
						return nil, false
					}
				case *ssa.UnOp, *ssa.DebugRef:
				case *ssa.FieldAddr, *ssa.IndexAddr:
					// nested cell: a write below it is not tracked
					if x.Field == field {
						return nil, false
					}
				default:
					if x.Field == field {
						return nil, false
					}
				}
			}
		case *ssa.UnOp, *ssa.DebugRef:
		default:
			return nil, false
		}
	}
	var last *ssa.Store
	for _, w := range writers {
		if before(w, at) {
			if last == nil || before(last, w) {
				last = w
			}
			continue
		}
		// a writer that may run before the read without dominating it: not decidable here
		if w.Block() == at.Block() || reachesBlock(w.Block(), at.Block()) {
			return nil, false
		}
	}
	if last == nil {
		// zero value
		ft := fieldTypeOf(al, field)
		if ft == nil {
			return nil, false
		}
		switch ft.Underlying().(type) {
		case *types.Pointer, *types.Slice, *types.Map, *types.Interface, *types.Signature, *types.Chan:
			return []Leaf{{V: ssa.NewConst(nil, ft)}}, true
		}
		return nil, false
	}
	if last.Addr != ssa.Value(al) {
		return []Leaf{{V: last.Val}}, true // a store to the field itself
	}
	// whole-struct store
	switch src := last.Val.(type) {
	case *ssa.UnOp:
		if src.Op == token.MUL {
			if al2, ok := src.X.(*ssa.Alloc); ok {
				return fieldDefsAt(al2, field, src, depth+1)
			}
		}
	case *ssa.Call:
		g := src.Call.StaticCallee()
		if g == nil || g.Blocks == nil || g.Pkg == nil || !strings.HasPrefix(g.Pkg.Pkg.Path(), ModPath) || g.Signature.Results().Len() != 1 {
			return nil, false
		}
		var out []Leaf
		for _, b := range g.Blocks {
			if b == g.Recover {
				continue
			}
			for _, in := range b.Instrs {
				ret, isRet := in.(*ssa.Return)
				if !isRet || len(ret.Results) != 1 {
					continue
				}
				rl, ok := ret.Results[0].(*ssa.UnOp)
				if !ok || rl.Op != token.MUL {
					return nil, false
				}
				al2, ok := rl.X.(*ssa.Alloc)
				if !ok {
					return nil, false
				}
				defs, ok := fieldDefsAt(al2, field, rl, depth+1)
				if !ok {
					return nil, false
				}
				fs := FactsFor(g).At(ret.Block())
				for _, d := range defs {
					out = append(out, Leaf{V: d.V, Facts: append(append([]Fact{}, d.Facts...), fs...)})
				}
			}
		}
		return out, len(out) > 0
	}
	return nil, false
}

func fieldTypeOf(al *ssa.Alloc, field int) types.Type {
	pt, ok := al.Type().Underlying().(*types.Pointer)
	if !ok {
		return nil
	}
	st, ok := pt.Elem().Underlying().(*types.Struct)
	if !ok || field >= st.NumFields() {
		return nil
	}
	return st.Field(field).Type()
}

func reachesBlock(from, to *ssa.BasicBlock) bool {
	seen := map[*ssa.BasicBlock]bool{}
	var walk func(b *ssa.BasicBlock) bool
	walk = func(b *ssa.BasicBlock) bool {
		if b == to {
			return true
		}
		if seen[b] {
			return false
		}
		seen[b] = true
		for _, s := range b.Succs {
			if walk(s) {
				return true
			}
		}
		return false
	}
	for _, s := range from.Succs {
		if walk(s) {
			return true
		}
	}
	return false
}
