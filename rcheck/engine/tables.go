package engine

import (
	"go/ast"
	"go/constant"
	"go/token"
	"go/types"

	"golang.org/x/tools/go/ast/astutil"
	"golang.org/x/tools/go/ssa"
)

// TableLit is a slice/array composite literal of constant elements.
type TableLit struct {
	Pos       token.Pos
	Fn        *ssa.Function
	Elems     []string // constant values (strings unquoted); "?" for non-constant elements
	CaseVals  []string // constants of the enclosing case clause, if any
	InDefault bool     // enclosed by a default clause
	InCase    bool
}

// SliceLiteralsOf finds every composite literal whose type is []elem (or [N]elem)
// in repository code.
func (p *Program) SliceLiteralsOf(elem types.Type) []TableLit {
	var out []TableLit
	for _, pk := range p.Roots {
		sp := p.SSAPkg(pk.PkgPath)
		for _, file := range pk.Syntax {
			ast.Inspect(file, func(n ast.Node) bool {
				cl, ok := n.(*ast.CompositeLit)
				if !ok {
					return true
				}
				tv, ok := pk.TypesInfo.Types[cl]
				if !ok {
					return true
				}
				var et types.Type
				switch t := tv.Type.Underlying().(type) {
				case *types.Slice:
					et = t.Elem()
				case *types.Array:
					et = t.Elem()
				default:
					return true
				}
				if !types.Identical(et, elem) {
					return true
				}
				tl := TableLit{Pos: cl.Pos()}
				for _, e := range cl.Elts {
					if kv, ok := e.(*ast.KeyValueExpr); ok {
						e = kv.Value
					}
					if v := pk.TypesInfo.Types[e].Value; v != nil {
						tl.Elems = append(tl.Elems, constString(v))
					} else {
						tl.Elems = append(tl.Elems, "?")
					}
				}
				path, _ := astutil.PathEnclosingInterval(file, cl.Pos(), cl.End())
				for pi, pn := range path {
					// the two-way form of the same selection: if x == K { … } else { … }
					if is, ok := pn.(*ast.IfStmt); ok && pi > 0 {
						if be, ok := is.Cond.(*ast.BinaryExpr); ok && (be.Op == token.EQL || be.Op == token.NEQ) {
							var kv constant.Value
							if v := pk.TypesInfo.Types[be.X].Value; v != nil {
								kv = v
							} else if v := pk.TypesInfo.Types[be.Y].Value; v != nil {
								kv = v
							}
							if kv != nil {
								inBody := path[pi-1] == ast.Node(is.Body)
								inElse := is.Else != nil && path[pi-1] == is.Else
								if inBody || inElse {
									tl.InCase = true
									if inBody == (be.Op == token.EQL) {
										tl.CaseVals = append(tl.CaseVals, constString(kv))
									} else {
										tl.InDefault = true
									}
									break
								}
							}
						}
					}
					if cc, ok := pn.(*ast.CaseClause); ok {
						tl.InCase = true
						if cc.List == nil {
							tl.InDefault = true
						}
						for _, e := range cc.List {
							if v := pk.TypesInfo.Types[e].Value; v != nil {
								tl.CaseVals = append(tl.CaseVals, constString(v))
							} else {
								tl.CaseVals = append(tl.CaseVals, "?")
							}
						}
						break
					}
				}
				if sp != nil {
					tl.Fn = ssa.EnclosingFunction(sp, path)
				}
				out = append(out, tl)
				return true
			})
		}
	}
	return out
}

func constString(v constant.Value) string {
	if v.Kind() == constant.String {
		return constant.StringVal(v)
	}
	return v.ExactString()
}

// ConstVal returns the value text of a named constant.
func ConstVal(c *types.Const) string {
	if c == nil {
		return ""
	}
	return constString(c.Val())
}
