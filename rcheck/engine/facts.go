package engine

import (
	"fmt"
	"go/constant"
	"go/token"
	"go/types"
	"os"
	"sort"
	"strings"

	"golang.org/x/tools/go/ssa"
)

// Fact is a normalised branch condition known to hold: L op R.
// Boolean conditions are rendered as  v == `true` / v == `false`.
type Fact struct {
	Op   string
	L, R *Term
	If   *ssa.If
	Succ int // which successor edge of If established it
}

func (f Fact) String() string { return f.L.String() + " " + f.Op + " " + f.R.String() }

var negOp = map[string]string{"==": "!=", "!=": "==", "<": ">=", "<=": ">", ">": "<=", ">=": "<"}
var swapOp = map[string]string{"==": "==", "!=": "!=", "<": ">", "<=": ">=", ">": "<", ">=": "<="}

var trueT = &Term{Op: "const", Name: "true"}
var falseT = &Term{Op: "const", Name: "false"}

// FactOf normalises (cond, polarity).
func FactOf(cond ssa.Value, pol bool) Fact {
	for {
		u, ok := cond.(*ssa.UnOp)
		if ok && u.Op == token.NOT {
			cond = u.X
			pol = !pol
			continue
		}
		break
	}
	if b, ok := cond.(*ssa.BinOp); ok {
		op := b.Op.String()
		if _, isCmp := negOp[op]; isCmp {
			if !pol {
				op = negOp[op]
			}
			l, r := TermOf(b.X), TermOf(b.Y)
			// x == true / x != false etc. on booleans: fold
			if r.Op == "const" && (r.Name == "true" || r.Name == "false") && (op == "==" || op == "!=") {
				want := (r.Name == "true") == (op == "==")
				return FactOf(b.X, want)
			}
			return Fact{Op: op, L: l, R: r}
		}
	}
	t := TermOf(cond)
	if pol {
		return Fact{Op: "==", L: t, R: trueT}
	}
	return Fact{Op: "==", L: t, R: falseT}
}

// normFact folds "(a <cmp> b) == true/false" — which arises when a boolean parameter is
// replaced by the comparison passed for it — into the comparison itself.
func normFact(f Fact) Fact {
	for i := 0; i < 4; i++ {
		if f.Op != "==" && f.Op != "!=" {
			return f
		}
		l, r := f.L, f.R
		if l != nil && l.Op == "const" && (l.Name == "true" || l.Name == "false") {
			l, r = r, l
		}
		if l == nil || r == nil || r.Op != "const" || (r.Name != "true" && r.Name != "false") {
			return f
		}
		want := (r.Name == "true") == (f.Op == "==")
		if l.Op == "binop" && len(l.Args) == 2 {
			if _, isCmp := negOp[l.Name]; isCmp {
				op := l.Name
				if !want {
					op = negOp[op]
				}
				f = Fact{Op: op, L: l.Args[0], R: l.Args[1], If: f.If, Succ: f.Succ}
				continue
			}
		}
		if l.Op == "unop" && l.Name == "!" && len(l.Args) == 1 {
			nr := trueT
			if want {
				nr = falseT
			}
			f = Fact{Op: "==", L: l.Args[0], R: nr, If: f.If, Succ: f.Succ}
			continue
		}
		return f
	}
	return f
}

// FuncFacts caches per-function edge-dominance facts.
type FuncFacts struct {
	Fn     *ssa.Function
	byBlk  map[*ssa.BasicBlock][]Fact
	edges  []edgeFact
	reachC map[[2]int]map[*ssa.BasicBlock]bool
}

type edgeFact struct {
	from *ssa.BasicBlock
	succ int
	fact Fact
}

var factsCache = map[*ssa.Function]*FuncFacts{}

// FactsFor computes (and caches) the facts of fn.
func FactsFor(fn *ssa.Function) *FuncFacts {
	if ff, ok := factsCache[fn]; ok {
		return ff
	}
	ff := &FuncFacts{Fn: fn, byBlk: map[*ssa.BasicBlock][]Fact{}}
	factsCache[fn] = ff
	if len(fn.Blocks) == 0 {
		return ff
	}
	// pass 1: the function's own branch facts (complete before anything that may look back at fn)
	type pending struct {
		b *ssa.BasicBlock
		k int
		f Fact
	}
	var todo []pending
	for _, b := range fn.Blocks {
		if len(b.Instrs) == 0 {
			continue
		}
		ifi, ok := b.Instrs[len(b.Instrs)-1].(*ssa.If)
		if !ok || len(b.Succs) != 2 || b.Succs[0] == b.Succs[1] {
			continue
		}
		for k := 0; k < 2; k++ {
			f := FactOf(ifi.Cond, k == 0)
			f.If = ifi
			f.Succ = k
			ff.edges = append(ff.edges, edgeFact{b, k, f})
			reach := reachWithoutEdge(fn, b, k)
			for _, blk := range fn.Blocks {
				if !reach[blk] && reachableFromEntry(fn)[blk] {
					ff.byBlk[blk] = append(ff.byBlk[blk], f)
				}
			}
			todo = append(todo, pending{b, k, f})
		}
	}
	// pass 2: what a predicate call's outcome implies
	for _, t := range todo {
		imp := impliedByPredicate(t.f, 0)
		imp = append(imp, impliedByNilError(t.f)...)
		if len(imp) == 0 {
			continue
		}
		for i := range imp {
			imp[i].If, imp[i].Succ = t.f.If, t.k
			ff.edges = append(ff.edges, edgeFact{t.b, t.k, imp[i]})
		}
		reach := reachWithoutEdge(fn, t.b, t.k)
		for _, blk := range fn.Blocks {
			if !reach[blk] && reachableFromEntry(fn)[blk] {
				ff.byBlk[blk] = append(ff.byBlk[blk], imp...)
			}
		}
	}
	// pass 2b: a function with exactly one call site: its facts also hold with the parameters
	// replaced by that call's arguments (a block extracted into a helper keeps speaking about
	// the caller's objects)
	if sub := soleCallSubst(fn); len(sub) > 0 {
		for blk, fs := range ff.byBlk {
			var extra []Fact
			for _, f := range fs {
				nl, nr := SubstTerm(f.L, sub), SubstTerm(f.R, sub)
				if nl != f.L || nr != f.R {
					extra = append(extra, normFact(Fact{Op: f.Op, L: nl, R: nr, If: f.If, Succ: f.Succ}))
				}
			}
			ff.byBlk[blk] = append(fs, extra...)
		}
		var extraEdges []edgeFact
		for _, e := range ff.edges {
			nl, nr := SubstTerm(e.fact.L, sub), SubstTerm(e.fact.R, sub)
			if nl != e.fact.L || nr != e.fact.R {
				extraEdges = append(extraEdges, edgeFact{e.from, e.succ, normFact(Fact{Op: e.fact.Op, L: nl, R: nr, If: e.fact.If, Succ: e.fact.Succ})})
			}
		}
		ff.edges = append(ff.edges, extraEdges...)
	}
	// pass 3: facts that hold at every call site of fn hold throughout fn
	if inh := inheritedFacts(fn); len(inh) > 0 {
		for _, blk := range fn.Blocks {
			if reachableFromEntry(fn)[blk] {
				ff.byBlk[blk] = append(ff.byBlk[blk], inh...)
			}
		}
	}
	return ff
}

// theProgram is the loaded program (set by Load); facts use its call graph.
var theProgram *Program

var inheritBusy = map[*ssa.Function]bool{}

// inheritedFacts: the facts common to all call sites of fn, when every caller of fn is known:
// fn is a declared function or method (not a closure), it is never used as a value, and it has at
// least one call site in the repository (static, or through an interface it implements).
// This makes guard rules indifferent to a block having been extracted into a helper.
func inheritedFacts(fn *ssa.Function) []Fact {
	p := theProgram
	if p == nil || fn.Parent() != nil || inheritBusy[fn] || p.addressTaken()[fn] {
		return nil
	}
	switch fn.Name() {
	case "Reconcile", "Handle", "Create", "Update", "Delete", "Generic", "main", "init":
		return nil // entered by frameworks
	}
	sites := p.Callers(fn)
	if len(sites) == 0 || len(inheritBusy) > 4 {
		return nil
	}
	inheritBusy[fn] = true
	defer delete(inheritBusy, fn)
	var common map[string]Fact
	for _, cs := range sites {
		if cs.Kind == "closure" {
			return nil
		}
		here := map[string]Fact{}
		if os.Getenv("RCHECK_INH_DEBUG") != "" && strings.Contains(fn.Name(), os.Getenv("RCHECK_INH_DEBUG")) {
			fmt.Printf("INH %s <- %s: %v\n", fn.Name(), cs.Caller.Name(), FactStrings(FactsAtInstr(cs.Instr)))
		}
		for _, f := range FactsAtInstr(cs.Instr) {
			f.If, f.Succ = nil, 0
			here[f.String()] = f
		}
		if common == nil {
			common = here
			continue
		}
		for k := range common {
			if _, ok := here[k]; !ok {
				delete(common, k)
			}
		}
	}
	var out []Fact
	for _, f := range common {
		out = append(out, f)
	}
	sort.Slice(out, func(i, j int) bool { return out[i].String() < out[j].String() })
	return out
}

// impliedByPredicate: when f says that a call of a repository predicate returned true (false),
// the facts common to all of the predicate's true (false) returns hold as well, with the
// predicate's parameters replaced by the call's arguments. This makes guard rules indifferent to
// a condition having been extracted into a boolean helper.
func impliedByPredicate(f Fact, depth int) []Fact {
	if depth > 1 || f.Op != "==" || f.R == nil || f.R.Op != "const" || (f.R.Name != "true" && f.R.Name != "false") {
		return nil
	}
	want := f.R.Name == "true"
	t := f.L
	// a boolean built by && / || and tested later (switch cases, stored conditions): when only one
	// incoming definition can produce the outcome, the facts on that edge and that definition's
	// own outcome are implied
	if t != nil && t.Op == "phi" {
		if phi, ok := t.V.(*ssa.Phi); ok && isBoolType(phi.Type()) {
			cand := -1
			for i, e := range phi.Edges {
				if k, isC := e.(*ssa.Const); isC && (constText(k) == "true") != want {
					continue
				}
				if cand >= 0 {
					return nil
				}
				cand = i
			}
			if cand < 0 {
				return nil
			}
			ff := FactsFor(phi.Parent())
			out := append([]Fact{}, ff.OnEdge(phi.Block().Preds[cand], phi.Block())...)
			if _, isC := phi.Edges[cand].(*ssa.Const); !isC {
				ef := FactOf(phi.Edges[cand], want)
				out = append(out, ef)
				out = append(out, impliedByPredicate(ef, depth+1)...)
			}
			for i := range out {
				out[i].If, out[i].Succ = nil, 0
			}
			return out
		}
	}
	g, resK, theCall, okP := predicateOf(t)
	if !okP {
		return nil
	}
	var common map[string]Fact
	possible := false
	for _, b := range g.Blocks {
		for _, in := range b.Instrs {
			ret, ok := in.(*ssa.Return)
			if !ok || len(ret.Results) <= resK {
				continue
			}
			for _, lf := range Leaves(Forwarded(ret.Results[resK]), ret.Block()) {
				set := map[string]Fact{}
				add := func(x Fact) { x.If, x.Succ = nil, 0; set[x.String()] = x }
				if k, isC := lf.V.(*ssa.Const); isC {
					if (constText(k) == "true") != want {
						continue
					}
				} else {
					lfact := FactOf(lf.V, want)
					add(lfact)
					for _, y := range impliedByPredicate(lfact, depth+1) {
						add(y)
					}
				}
				possible = true
				for _, x := range lf.Facts {
					add(x)
				}
				if common == nil {
					common = set
					continue
				}
				for k := range common {
					if _, ok := set[k]; !ok {
						delete(common, k)
					}
				}
			}
		}
	}
	if !possible || len(common) == 0 {
		return nil
	}
	// parameters → arguments
	sub := map[ssa.Value]*Term{}
	args := theCall.Call.Args
	for i, pr := range g.Params {
		if i < len(args) {
			sub[pr] = TermOf(args[i])
		}
	}
	var out []Fact
	for _, x := range common {
		out = append(out, normFact(Fact{Op: x.Op, L: SubstTerm(x.L, sub), R: SubstTerm(x.R, sub)}))
	}
	sort.Slice(out, func(i, j int) bool { return out[i].String() < out[j].String() })
	return out
}

// impliedByNilError: for a fact `g(...)#k == nil` where g is a repository function and the k-th
// result is an error, the facts that hold on every return of g whose error can be nil, plus
// "that error value is nil" for a returned non-constant error (a helper that hands on the error of
// the step it wraps: its nil result means the step's nil result).
func impliedByNilError(f Fact) []Fact {
	if f.Op != "==" || f.R == nil || f.R.Op != "const" || f.R.Name != "nil" || f.L == nil || f.L.Call == nil {
		return nil
	}
	k := 0
	switch f.L.Op {
	case "call":
	case "extract":
		k = f.L.Idx
	default:
		return nil
	}
	g := f.L.Call.Call.StaticCallee()
	if g == nil || g.Blocks == nil || g.Pkg == nil || !strings.HasPrefix(g.Pkg.Pkg.Path(), ModPath) {
		return nil
	}
	res := g.Signature.Results()
	if k >= res.Len() || !strings.HasSuffix(res.At(k).Type().String(), "error") {
		return nil
	}
	var common map[string]Fact
	gf := FactsFor(g)
	for _, b := range g.Blocks {
		if b == g.Recover {
			continue
		}
		for _, in := range b.Instrs {
			ret, ok := in.(*ssa.Return)
			if !ok || len(ret.Results) <= k {
				continue
			}
			for _, lf := range Leaves(Forwarded(ret.Results[k]), ret.Block()) {
				set := map[string]Fact{}
				add := func(x Fact) { x.If, x.Succ = nil, 0; set[x.String()] = x }
				all := append(append([]Fact{}, gf.At(ret.Block())...), lf.Facts...)
				if kc, isC := lf.V.(*ssa.Const); isC {
					if !kc.IsNil() {
						continue
					}
				} else {
					vt := TermOf(lf.V)
					nonNil := false
					for _, x := range all {
						if x.Op == "!=" && x.R != nil && x.R.Op == "const" && x.R.Name == "nil" && x.L != nil {
							if x.L.String() == vt.String() || (x.L.Op == "call" && strings.HasSuffix(x.L.Name, "IgnoreNotFound") && len(x.L.Args) == 1 && x.L.Args[0].String() == vt.String()) {
								nonNil = true
							}
						}
					}
					if nonNil {
						continue
					}
					add(Fact{Op: "==", L: vt, R: &Term{Op: "const", Name: "nil"}})
				}
				for _, x := range all {
					add(x)
				}
				if common == nil {
					common = set
					continue
				}
				for key := range common {
					if _, ok := set[key]; !ok {
						delete(common, key)
					}
				}
			}
		}
	}
	if len(common) == 0 {
		return nil
	}
	sub := map[ssa.Value]*Term{}
	for i, pr := range g.Params {
		if i < len(f.L.Call.Call.Args) {
			sub[pr] = TermOf(f.L.Call.Call.Args[i])
		}
	}
	var out []Fact
	for _, x := range common {
		out = append(out, normFact(Fact{Op: x.Op, L: SubstTerm(x.L, sub), R: SubstTerm(x.R, sub)}))
	}
	sort.Slice(out, func(i, j int) bool { return out[i].String() < out[j].String() })
	return out
}

// predicateOf: when t is the (k-th) boolean result of a static call of a repository function,
// returns that function, the result index and the call.
func predicateOf(t *Term) (*ssa.Function, int, *ssa.Call, bool) {
	if t == nil || t.Call == nil {
		return nil, 0, nil, false
	}
	k := 0
	switch t.Op {
	case "call":
	case "extract":
		k = t.Idx
	default:
		return nil, 0, nil, false
	}
	g := t.Call.Call.StaticCallee()
	if g == nil || g.Blocks == nil || g.Pkg == nil || !strings.HasPrefix(g.Pkg.Pkg.Path(), ModPath) {
		return nil, 0, nil, false
	}
	res := g.Signature.Results()
	if k >= res.Len() || !isBoolType(res.At(k).Type()) {
		return nil, 0, nil, false
	}
	if t.Op == "call" && res.Len() != 1 {
		return nil, 0, nil, false
	}
	return g, k, t.Call, true
}

func isBoolType(t types.Type) bool {
	b, ok := t.Underlying().(*types.Basic)
	return ok && b.Kind() == types.Bool
}

var entryReachCache = map[*ssa.Function]map[*ssa.BasicBlock]bool{}

func reachableFromEntry(fn *ssa.Function) map[*ssa.BasicBlock]bool {
	if r, ok := entryReachCache[fn]; ok {
		return r
	}
	r := reachWithoutEdge(fn, nil, -1)
	entryReachCache[fn] = r
	return r
}

func reachWithoutEdge(fn *ssa.Function, from *ssa.BasicBlock, succ int) map[*ssa.BasicBlock]bool {
	seen := map[*ssa.BasicBlock]bool{}
	var stack []*ssa.BasicBlock
	stack = append(stack, fn.Blocks[0])
	seen[fn.Blocks[0]] = true
	for len(stack) > 0 {
		b := stack[len(stack)-1]
		stack = stack[:len(stack)-1]
		for k, s := range b.Succs {
			if b == from && k == succ {
				continue
			}
			if !seen[s] {
				seen[s] = true
				stack = append(stack, s)
			}
		}
	}
	return seen
}

// At returns the facts that hold on every path from the function entry to block b.
func (ff *FuncFacts) At(b *ssa.BasicBlock) []Fact { return ff.byBlk[b] }

// OnEdge returns the facts that hold when control passes from pred to succ:
// the facts at pred plus the branch condition of pred for that edge.
func (ff *FuncFacts) OnEdge(pred, succ *ssa.BasicBlock) []Fact {
	out := append([]Fact{}, ff.byBlk[pred]...)
	for _, e := range ff.edges {
		if e.from == pred && pred.Succs[e.succ] == succ {
			// if both successors are the same block the edge fact was never recorded
			out = append(out, e.fact)
		}
	}
	return out
}

// FactM matches a fact.
type FactM func(Fact) bool

// FCmp matches  L op R  in either orientation.
func FCmp(op string, l, r M) FactM {
	return func(f Fact) bool {
		if f.Op == op && l(f.L) && r(f.R) {
			return true
		}
		if f.Op == swapOp[op] && l(f.R) && r(f.L) {
			return true
		}
		return false
	}
}

// FTrue / FFalse match boolean-valued conditions.
func FTrue(m M) FactM  { return FCmp("==", m, MConst("true")) }
func FFalse(m M) FactM { return FCmp("==", m, MConst("false")) }

// FNil / FNotNil match comparisons with nil.
func FNil(m M) FactM    { return FCmp("==", m, MConst("nil")) }
func FNotNil(m M) FactM { return FCmp("!=", m, MConst("nil")) }

// FOr matches if any alternative matches.
func FOr(ms ...FactM) FactM {
	return func(f Fact) bool {
		for _, m := range ms {
			if m(f) {
				return true
			}
		}
		return false
	}
}

// HasFact reports whether some fact matches.
func HasFact(fs []Fact, m FactM) bool {
	for _, f := range fs {
		if m(f) {
			return true
		}
	}
	return false
}

// FactStrings renders facts sorted and de-duplicated.
func FactStrings(fs []Fact) []string {
	seen := map[string]bool{}
	var out []string
	for _, f := range fs {
		s := f.String()
		if !seen[s] {
			seen[s] = true
			out = append(out, s)
		}
	}
	sort.Strings(out)
	return out
}

// FactsAtInstr is a convenience: facts at the block of instr.
func FactsAtInstr(in ssa.Instruction) []Fact {
	return FactsFor(in.Parent()).At(in.Block())
}

// ---------------------------------------------------------------------------
// Reachability with cuts (must-precede / must-follow).

// Point is a program point: just before Instrs[Idx] of Block.
type Point struct {
	Block *ssa.BasicBlock
	Idx   int
}

// PointAfter is the point right after instruction in.
func PointAfter(in ssa.Instruction) Point {
	b := in.Block()
	for i, x := range b.Instrs {
		if x == in {
			return Point{b, i + 1}
		}
	}
	return Point{b, len(b.Instrs)}
}

// PointBefore is the point right before instruction in.
func PointBefore(in ssa.Instruction) Point {
	p := PointAfter(in)
	p.Idx--
	return p
}

// Entry is the entry point of fn.
func Entry(fn *ssa.Function) Point { return Point{fn.Blocks[0], 0} }

// ReachOpts configures CanReach.
type ReachOpts struct {
	CutInstr func(ssa.Instruction) bool             // paths stop at (before executing) these instructions
	CutEdge  func(from *ssa.BasicBlock, k int) bool // these CFG edges are removed
}

// CanReach reports whether some path from `from` reaches an instruction satisfying
// target without passing a cut. A target instruction that is also a cut counts as reached.
func CanReach(from Point, target func(ssa.Instruction) bool, o ReachOpts) (bool, ssa.Instruction) {
	seen := map[*ssa.BasicBlock]bool{}
	type item struct {
		b   *ssa.BasicBlock
		idx int
	}
	work := []item{{from.Block, from.Idx}}
	for len(work) > 0 {
		it := work[len(work)-1]
		work = work[:len(work)-1]
		stopped := false
		for i := it.idx; i < len(it.b.Instrs); i++ {
			in := it.b.Instrs[i]
			if target(in) {
				return true, in
			}
			if o.CutInstr != nil && o.CutInstr(in) {
				stopped = true
				break
			}
		}
		if stopped {
			continue
		}
		for k, s := range it.b.Succs {
			if o.CutEdge != nil && o.CutEdge(it.b, k) {
				continue
			}
			if !seen[s] {
				seen[s] = true
				work = append(work, item{s, 0})
			}
		}
	}
	return false, nil
}

// EdgeFactMatches reports whether the branch edge (from,k) establishes a fact matching m.
func EdgeFactMatches(from *ssa.BasicBlock, k int, m FactM) bool {
	return edgeFactMatches(from, k, m, 0)
}

func edgeFactMatches(from *ssa.BasicBlock, k int, m FactM, depth int) bool {
	if len(from.Instrs) == 0 || len(from.Succs) != 2 {
		return false
	}
	ifi, ok := from.Instrs[len(from.Instrs)-1].(*ssa.If)
	if !ok {
		return false
	}
	f := FactOf(ifi.Cond, k == 0)
	if m(f) {
		return true
	}
	if depth > 1 {
		return false
	}
	for _, x := range impliedByPredicate(f, 0) {
		if m(x) {
			return true
		}
	}
	if phiOutcomeOnlyThrough(f, m) {
		return true
	}
	return predicateOnlyThrough(f, m, depth, FactsFor(from.Parent()).At(from))
}

// returnContradicts: the caller's facts say result j (j != k) of this call is nil (non-nil) while
// on the way to ret the callee has established the opposite for the value it returns there.
func returnContradicts(g *ssa.Function, ret *ssa.Return, k int, call *ssa.Call, ctx []Fact) bool {
	for j := range ret.Results {
		if j == k {
			continue
		}
		var known string // "nil" / "notnil" as the caller knows result j
		for _, cf := range ctx {
			l, r := cf.L, cf.R
			if l == nil || r == nil {
				continue
			}
			if l.Op == "const" {
				l, r = r, l
			}
			if l.Op == "extract" && l.Call == call && l.Idx == j && r.Op == "const" && r.Name == "nil" {
				if cf.Op == "==" {
					known = "nil"
				} else if cf.Op == "!=" {
					known = "notnil"
				}
			}
		}
		if known == "" {
			continue
		}
		rv := Forwarded(ret.Results[j])
		if c, isC := rv.(*ssa.Const); isC {
			if c.IsNil() && known == "notnil" {
				return true
			}
			continue
		}
		rt := TermOf(rv).String()
		for _, gf := range FactsFor(g).At(ret.Block()) {
			if gf.L == nil || gf.R == nil {
				continue
			}
			l, r := gf.L, gf.R
			if l.Op == "const" {
				l, r = r, l
			}
			if r.Op != "const" || r.Name != "nil" || l.String() != rt {
				continue
			}
			if (gf.Op == "!=" && known == "nil") || (gf.Op == "==" && known == "notnil") {
				return true
			}
		}
	}
	return false
}

// FactMatchesDeep: f matches m itself, or implies a fact that does, or is the outcome of a
// predicate helper / boolean phi that can come about only through edges matching m.
func FactMatchesDeep(f Fact, m FactM, ctx []Fact) bool {
	if m(f) {
		return true
	}
	for _, x := range impliedByPredicate(f, 0) {
		if m(x) {
			return true
		}
	}
	if phiOutcomeOnlyThrough(f, m) {
		return true
	}
	return predicateOnlyThrough(f, m, 0, ctx)
}

// phiOutcomeOnlyThrough: f tests a boolean assembled by && / || (a phi); it matches m when every
// incoming definition that can yield the tested outcome does so under a fact matching m — the
// branch that selected a constant, or the definition's own outcome.
func phiOutcomeOnlyThrough(f Fact, m FactM) bool {
	if f.Op != "==" || f.R == nil || f.R.Op != "const" || (f.R.Name != "true" && f.R.Name != "false") || f.L == nil || f.L.Op != "phi" {
		return false
	}
	phi, ok := f.L.V.(*ssa.Phi)
	if !ok || !isBoolType(phi.Type()) {
		return false
	}
	want := f.R.Name == "true"
	ff := FactsFor(phi.Parent())
	n := 0
	for i, e := range phi.Edges {
		if k, isC := e.(*ssa.Const); isC && (constText(k) == "true") != want {
			continue
		}
		n++
		hit := false
		if _, isC := e.(*ssa.Const); !isC {
			ef := FactOf(e, want)
			if m(ef) {
				hit = true
			}
			for _, x := range impliedByPredicate(ef, 1) {
				if m(x) {
					hit = true
				}
			}
		}
		pred := phi.Block().Preds[i]
		for _, x := range ff.edges {
			if x.from == pred && pred.Succs[x.succ] == phi.Block() && m(x.fact) {
				hit = true
			}
		}
		if !hit {
			return false
		}
	}
	return n > 0
}

// predicateOnlyThrough: f says a repository predicate returned true (false); report whether the
// predicate can produce that outcome only by passing an edge whose fact matches m (or by the
// outcome being itself a condition matching m). A guard that was extracted into a boolean helper
// is then still recognised as that guard.
//
// ctx are the facts already known in the caller where the outcome is tested: a return of the
// predicate whose OTHER results contradict them (the caller knows `g(...)#1 == nil`, this return
// hands back an error it has just tested non-nil) cannot be the one that produced the outcome.
func predicateOnlyThrough(f Fact, m FactM, depth int, ctx []Fact) bool {
	if f.Op != "==" || f.R == nil || f.R.Op != "const" || (f.R.Name != "true" && f.R.Name != "false") {
		return false
	}
	want := f.R.Name == "true"
	g, resK, theCall, okP := predicateOf(f.L)
	if !okP {
		return false
	}
	// the callee's facts speak about its parameters: judge them with the arguments of this call put in
	if theCall != nil {
		sub := map[ssa.Value]*Term{}
		for i, pr := range g.Params {
			if i < len(theCall.Call.Args) {
				sub[pr] = TermOf(theCall.Call.Args[i])
			}
		}
		m0 := m
		m = func(x Fact) bool {
			return m0(x) || m0(normFact(Fact{Op: x.Op, L: SubstTerm(x.L, sub), R: SubstTerm(x.R, sub)}))
		}
	}
	cut := func(b *ssa.BasicBlock, k int) bool { return edgeFactMatches(b, k, m, depth+1) }
	any := false
	var check func(v ssa.Value, at ssa.Instruction, seen map[*ssa.Phi]bool) bool
	check = func(v ssa.Value, at ssa.Instruction, seen map[*ssa.Phi]bool) bool {
		switch x := v.(type) {
		case *ssa.Const:
			if (constText(x) == "true") != want {
				return true // this definition cannot yield the outcome
			}
		case *ssa.Phi:
			if seen[x] {
				return true
			}
			seen[x] = true
			for i, e := range x.Edges {
				pred := x.Block().Preds[i]
				last := pred.Instrs[len(pred.Instrs)-1]
				// the edge pred -> phi block itself may carry the guard
				for k2, s := range pred.Succs {
					if s == x.Block() && cut(pred, k2) {
						last = nil
					}
				}
				if last == nil {
					continue
				}
				if !check(e, last, seen) {
					return false
				}
			}
			return true
		default:
			if m(FactOf(v, want)) {
				any = true
				return true
			}
		}
		any = true
		return !CanReachFeasible(Entry(g), func(in ssa.Instruction) bool { return in == at }, ReachOpts{CutEdge: cut})
	}
	for _, b := range g.Blocks {
		for _, in := range b.Instrs {
			ret, ok := in.(*ssa.Return)
			if !ok || len(ret.Results) <= resK {
				continue
			}
			if theCall != nil && returnContradicts(g, ret, resK, theCall, ctx) {
				continue
			}
			if !check(Forwarded(ret.Results[resK]), ret, map[*ssa.Phi]bool{}) {
				return false
			}
		}
	}
	return any
}

// IsReturn reports whether in is a normal return.
func IsReturn(in ssa.Instruction) bool { _, ok := in.(*ssa.Return); return ok }

// ---------------------------------------------------------------------------
// Value sources through phis.

// Leaf is one possible definition of a value together with the facts that hold
// when that definition is chosen.
type Leaf struct {
	V     ssa.Value
	Facts []Fact
}

// Leaves expands phis: every non-phi definition that can flow into v when v is
// used in block `at`, with the facts on the selecting edges.
func Leaves(v ssa.Value, at *ssa.BasicBlock) []Leaf {
	ff := FactsFor(at.Parent())
	var out []Leaf
	seen := map[*ssa.Phi]bool{}
	var rec func(v ssa.Value, facts []Fact)
	rec = func(v ssa.Value, facts []Fact) {
		if ph, ok := v.(*ssa.Phi); ok {
			if seen[ph] {
				return
			}
			seen[ph] = true
			for i, e := range ph.Edges {
				pred := ph.Block().Preds[i]
				fs := append(append([]Fact{}, facts...), ff.OnEdge(pred, ph.Block())...)
				rec(e, fs)
			}
			return
		}
		out = append(out, Leaf{v, facts})
	}
	rec(v, append([]Fact{}, ff.At(at)...))
	return out
}

// ---------------------------------------------------------------------------
// Instruction helpers.

// CallsIn lists call instructions (incl. defer/go) of fn whose callee short name matches pat.
func CallsIn(fn *ssa.Function, pat string) []ssa.CallInstruction {
	var out []ssa.CallInstruction
	for _, b := range fn.Blocks {
		for _, in := range b.Instrs {
			if c, ok := in.(ssa.CallInstruction); ok {
				if NameMatch(CalleeName(c.Common()), pat) {
					out = append(out, c)
				}
			}
		}
	}
	return out
}

// AllCalls lists all call instructions in fn.
func AllCalls(fn *ssa.Function) []ssa.CallInstruction {
	var out []ssa.CallInstruction
	for _, b := range fn.Blocks {
		for _, in := range b.Instrs {
			if c, ok := in.(ssa.CallInstruction); ok {
				out = append(out, c)
			}
		}
	}
	return out
}

// StoresToField lists stores in fn whose address is a FieldAddr of field named `name`
// (on any struct) — use FieldVar identity via fld when non-nil.
func StoresToField(fn *ssa.Function, match func(*ssa.FieldAddr) bool) []*ssa.Store {
	var out []*ssa.Store
	for _, b := range fn.Blocks {
		for _, in := range b.Instrs {
			if st, ok := in.(*ssa.Store); ok {
				if fa, ok := st.Addr.(*ssa.FieldAddr); ok && match(fa) {
					out = append(out, st)
				}
			}
		}
	}
	return out
}

// FieldOf returns the struct field a FieldAddr addresses.
func FieldOf(fa *ssa.FieldAddr) (name string, owner string) {
	st := derefStruct(fa.X.Type())
	f := st.Field(fa.Field)
	t := fa.X.Type()
	s := t.String()
	s = strings.TrimPrefix(s, "*")
	return f.Name(), ShortPath(s)
}

// MResultOf matches result #idx of this particular call instruction (idx<0: any
// result, or the call value itself), also when wrapped in a phi.
func MResultOf(call ssa.CallInstruction, idx int) M {
	cv, _ := call.(*ssa.Call)
	base := func(t *Term) bool {
		if cv == nil {
			return false
		}
		if t.Op == "extract" && t.Call == cv && (idx < 0 || t.Idx == idx) {
			return true
		}
		if (t.Op == "call" || t.Op == "len") && t.Call == cv && idx <= 0 && cv.Call.Signature().Results().Len() <= 1 {
			return true
		}
		return false
	}
	return func(t *Term) bool {
		if base(t) {
			return true
		}
		if t.Op == "phi" {
			for _, a := range t.Args {
				if base(a) {
					return true
				}
			}
		}
		return false
	}
}

// OnlyVia reports whether every path from `from` to an instruction satisfying
// target passes, for each need, an edge whose branch fact matches that need.
// It returns the indices of needs that can be bypassed.
func OnlyVia(from Point, target func(ssa.Instruction) bool, needs ...FactM) (bool, []int) {
	var bypass []int
	for i, n := range needs {
		n := n
		reach, _ := CanReach(from, target, ReachOpts{CutEdge: func(b *ssa.BasicBlock, k int) bool { return EdgeFactMatches(b, k, n) }})
		if reach {
			bypass = append(bypass, i)
		}
	}
	return len(bypass) == 0, bypass
}

// StoredConst returns the constant text stored by st, if the stored value is a constant.
func StoredConst(st *ssa.Store) (string, bool) {
	t := TermOf(st.Val)
	if t.Op == "const" {
		return t.Name, true
	}
	return "", false
}

// FieldStores lists stores (in all given functions) to struct fields named `field`
// whose owning struct type's short name matches ownerPat (e.g. "v1beta1.CommonStatus").
func FieldStores(fns []*ssa.Function, ownerPat, field string) []*ssa.Store {
	var out []*ssa.Store
	for _, fn := range fns {
		out = append(out, StoresToField(fn, func(fa *ssa.FieldAddr) bool {
			n, owner := FieldOf(fa)
			return n == field && (ownerPat == "" || NameMatch(owner, ownerPat))
		})...)
	}
	return out
}

// ---------------------------------------------------------------------------
// Constant-propagating reachability: flags that are set to a constant and
// tested at a later join are followed precisely (phi-of-constant folding),
// which removes the classic path-insensitive false alarm
//     modified = true; ...; if modified { return }; X

// Env maps phis to the value they are known to hold on the current path: a
// constant, or any non-phi value (so that "the error that is returned on this
// path" can be told apart from an error overwritten in a later loop iteration).
type Env map[*ssa.Phi]ssa.Value

func (e Env) key() string {
	if len(e) == 0 {
		return ""
	}
	var ks []string
	for p, c := range e {
		ks = append(ks, p.Name()+"="+c.Name())
	}
	sort.Strings(ks)
	return strings.Join(ks, ",")
}

func (e Env) clone() Env {
	n := Env{}
	for k, v := range e {
		n[k] = v
	}
	return n
}

// Resolve follows v through phis bound in env.
func Resolve(v ssa.Value, env Env) ssa.Value {
	for i := 0; i < 8; i++ {
		ph, ok := v.(*ssa.Phi)
		if !ok {
			return v
		}
		b, ok := env[ph]
		if !ok {
			return v
		}
		v = b
	}
	return v
}

// ResolveConst resolves v to a constant under env (through phis known in env and boolean negation).
func ResolveConst(v ssa.Value, env Env) (string, bool) {
	switch x := Resolve(v, env).(type) {
	case *ssa.Const:
		return constText(x), true
	case *ssa.BinOp:
		// an error built by fmt.Errorf / errors.New on this path, compared with nil
		if x.Op == token.EQL || x.Op == token.NEQ {
			var o ssa.Value
			if k, ok := x.Y.(*ssa.Const); ok && k.IsNil() {
				o = Resolve(x.X, env)
			} else if k, ok := x.X.(*ssa.Const); ok && k.IsNil() {
				o = Resolve(x.Y, env)
			}
			if call, ok := o.(*ssa.Call); ok {
				if g := call.Call.StaticCallee(); g != nil && g.Pkg != nil && ((g.Pkg.Pkg.Path() == "fmt" && g.Name() == "Errorf") || (g.Pkg.Pkg.Path() == "errors" && g.Name() == "New")) {
					if x.Op == token.EQL {
						return "false", true
					}
					return "true", true
				}
			}
		}
		// a counter compared with zero: n == 0 is false once n is (something non-negative) + k, k > 0
		var other ssa.Value
		if isZeroConst(x.Y) {
			other = Resolve(x.X, env)
		} else if isZeroConst(x.X) && (x.Op == token.EQL || x.Op == token.NEQ) {
			other = Resolve(x.Y, env)
		}
		if other != nil && isPositiveCount(other) {
			switch x.Op {
			case token.EQL, token.LEQ, token.LSS:
				return "false", true
			case token.NEQ, token.GTR, token.GEQ:
				return "true", true
			}
		}
	case *ssa.UnOp:
		if x.Op == token.NOT {
			if s, ok := ResolveConst(x.X, env); ok {
				if s == "true" {
					return "false", true
				}
				if s == "false" {
					return "true", true
				}
			}
		}
	}
	return "", false
}

// Reached describes a target instruction reached by WalkCP together with the
// phi bindings known on that path.
type Reached struct {
	Instr ssa.Instruction
	Env   Env
}

// WalkOpts extends ReachOpts with env-aware cuts.
type WalkOpts struct {
	ReachOpts
	CutInstrEnv func(ssa.Instruction, Env) bool
	// CutFactEnv: an edge is also cut when its condition is a phi whose value ON THIS PATH is a
	// known non-constant definition and that definition's outcome matches (a `case a && b:` of a
	// tagless switch is a phi of `false` and `b`; on the path that evaluated b the edge says b).
	CutFactEnv FactM
	MaxStates   int
	Exceeded    *bool
	// PruneContradictions drops paths that take two branch edges whose (phi-free) conditions contradict
	// each other syntactically, e.g.  x != ""  false  followed by  x == ""  false.
	PruneContradictions bool
}

// WalkCP explores all paths from `from`, folding branches on phis whose value on
// the path is a known constant, stopping at cuts, and reports every target hit
// (deduplicated per (instruction, env)). Paths do not continue past a target.
func WalkCP(from Point, initEnv Env, target func(ssa.Instruction) bool, o ReachOpts) []Reached {
	return WalkEnv(from, initEnv, target, WalkOpts{ReachOpts: o})
}

// WalkEnv is WalkCP with env-aware instruction cuts.
func WalkEnv(from Point, initEnv Env, target func(ssa.Instruction) bool, o WalkOpts) []Reached {
	type state struct {
		b     *ssa.BasicBlock
		idx   int
		env   Env
		facts []string // "L\x00op\x00R" of branch edges taken (PruneContradictions)
	}
	var out []Reached
	seen := map[string]bool{}
	seenOut := map[string]bool{}
	if initEnv == nil {
		initEnv = Env{}
	}
	max := o.MaxStates
	if max == 0 {
		max = 200000
	}
	work := []state{{from.Block, from.Idx, initEnv, nil}}
	for len(work) > 0 {
		if len(seen) > max {
			if o.Exceeded != nil {
				*o.Exceeded = true
			}
			return out
		}
		st := work[len(work)-1]
		work = work[:len(work)-1]
		stopped := false
		for i := st.idx; i < len(st.b.Instrs); i++ {
			in := st.b.Instrs[i]
			if target(in) {
				k := fmt.Sprintf("%p|%s", in, st.env.key())
				if !seenOut[k] {
					seenOut[k] = true
					out = append(out, Reached{in, st.env})
				}
				stopped = true
				break
			}
			if (o.CutInstr != nil && o.CutInstr(in)) || (o.CutInstrEnv != nil && o.CutInstrEnv(in, st.env)) {
				stopped = true
				break
			}
		}
		if stopped {
			continue
		}
		// branch folding
		follow := []int{}
		for k := range st.b.Succs {
			follow = append(follow, k)
		}
		if len(st.b.Instrs) > 0 {
			if ifi, ok := st.b.Instrs[len(st.b.Instrs)-1].(*ssa.If); ok && len(st.b.Succs) == 2 {
				if s, ok := ResolveConst(ifi.Cond, st.env); ok {
					if s == "true" {
						follow = []int{0}
					} else if s == "false" {
						follow = []int{1}
					}
				}
			}
		}
		for _, k := range follow {
			if o.CutEdge != nil && o.CutEdge(st.b, k) {
				continue
			}
			if o.CutFactEnv != nil && len(st.b.Succs) == 2 && len(st.b.Instrs) > 0 {
				if ifi, ok := st.b.Instrs[len(st.b.Instrs)-1].(*ssa.If); ok {
					if ph, isPhi := ifi.Cond.(*ssa.Phi); isPhi {
						if v, known := st.env[ph]; known {
							if _, isC := v.(*ssa.Const); !isC {
								ef := FactOf(v, k == 0)
								hit := o.CutFactEnv(ef)
								for _, x := range impliedByPredicate(ef, 0) {
									if o.CutFactEnv(x) {
										hit = true
									}
								}
								if hit {
									continue
								}
							}
						}
					}
				}
			}
			facts := st.facts
			if o.PruneContradictions && len(st.b.Succs) == 2 && len(st.b.Instrs) > 0 {
				if ifi, ok := st.b.Instrs[len(st.b.Instrs)-1].(*ssa.If); ok {
					f := FactOf(ifi.Cond, k == 0)
					if !f.L.Any(func(t *Term) bool { return t.Op == "phi" || t.Op == "unknown" }) && !f.R.Any(func(t *Term) bool { return t.Op == "phi" || t.Op == "unknown" }) && repeatedCond(st.b.Parent(), f) {
						l, r := f.L.String(), f.R.String()
						contra := false
						for _, pf := range st.facts {
							parts := strings.SplitN(pf, "\x00", 3)
							pl, pop, pr := parts[0], parts[1], parts[2]
							if pl == l && pr == r && negOp[pop] == f.Op {
								contra = true
							}
							if pl == r && pr == l && negOp[pop] == swapOp[f.Op] {
								contra = true
							}
							if pl == l && pop == "==" && f.Op == "==" && ((pr == "`true`" && r == "`false`") || (pr == "`false`" && r == "`true`")) {
								contra = true
							}
						}
						if contra {
							continue
						}
						facts = append(append([]string{}, st.facts...), l+"\x00"+f.Op+"\x00"+r)
					}
				}
			}
			succ := st.b.Succs[k]
			env := st.env.clone()
			newVals := map[*ssa.Phi]ssa.Value{}
			var phis []*ssa.Phi
			for _, in := range succ.Instrs {
				ph, ok := in.(*ssa.Phi)
				if !ok {
					break
				}
				phis = append(phis, ph)
				for pi, pred := range succ.Preds {
					if pred != st.b {
						continue
					}
					switch e := ph.Edges[pi].(type) {
					case *ssa.Phi:
						if c, ok := st.env[e]; ok {
							newVals[ph] = c
						}
					default:
						newVals[ph] = e
					}
					break
				}
			}
			for _, ph := range phis {
				if c, ok := newVals[ph]; ok {
					env[ph] = c
				} else {
					delete(env, ph)
				}
			}
			key := fmt.Sprintf("%d|%s", succ.Index, env.key())
			if o.PruneContradictions {
				fk := append([]string{}, facts...)
				sort.Strings(fk)
				key += "|" + strings.Join(fk, ";")
			}
			if !seen[key] {
				seen[key] = true
				work = append(work, state{succ, 0, env, facts})
			}
		}
	}
	return out
}

// repeatedCond: the operands of f are compared by more than one branch of fn. Only such a
// condition can be contradicted by a later branch, so only those are carried in the walk state
// (carrying every branch taken makes the state space exponential in the number of branches of
// a loop body).
var repeatedCondCache = map[*ssa.Function]map[string]int{}

func condKey(f Fact) string {
	l, r := f.L.String(), f.R.String()
	if r == "`true`" || r == "`false`" {
		return l + "\x00bool"
	}
	if l > r {
		l, r = r, l
	}
	return l + "\x00" + r
}

func repeatedCond(fn *ssa.Function, f Fact) bool {
	m, ok := repeatedCondCache[fn]
	if !ok {
		m = map[string]int{}
		for _, b := range fn.Blocks {
			if len(b.Instrs) == 0 {
				continue
			}
			if ifi, ok := b.Instrs[len(b.Instrs)-1].(*ssa.If); ok {
				m[condKey(FactOf(ifi.Cond, true))]++
			}
		}
		repeatedCondCache[fn] = m
	}
	return m[condKey(f)] > 1
}

// CanReachCP is CanReach with constant-flag folding.
func CanReachCP(from Point, target func(ssa.Instruction) bool, o ReachOpts) (bool, ssa.Instruction) {
	r := WalkCP(from, nil, target, o)
	if len(r) > 0 {
		return true, r[0].Instr
	}
	return false, nil
}

// OnlyViaCP is OnlyVia with constant-flag folding.
func OnlyViaCP(from Point, target func(ssa.Instruction) bool, needs ...FactM) (bool, []int) {
	var bypass []int
	for i, n := range needs {
		n := n
		reach, _ := CanReachCP(from, target, ReachOpts{CutEdge: func(b *ssa.BasicBlock, k int) bool { return EdgeFactMatches(b, k, n) }})
		if reach {
			bypass = append(bypass, i)
		}
	}
	return len(bypass) == 0, bypass
}

// CanReachFeasible is CanReach with constant folding and pruning of syntactically contradictory branch sequences.
func CanReachFeasible(from Point, target func(ssa.Instruction) bool, o ReachOpts) bool {
	return CanReachFeasibleM(from, target, o, nil)
}

// CanReachFeasibleM additionally cuts edges whose fact matches m, resolving boolean phis by the
// value they have on the path walked.
func CanReachFeasibleM(from Point, target func(ssa.Instruction) bool, o ReachOpts, m FactM) bool {
	exceeded := false
	oo := o
	if m != nil {
		prev := o.CutEdge
		oo.CutEdge = func(b *ssa.BasicBlock, k int) bool {
			return (prev != nil && prev(b, k)) || EdgeFactMatches(b, k, m)
		}
	}
	r := WalkEnv(from, nil, target, WalkOpts{ReachOpts: oo, CutFactEnv: m, PruneContradictions: true, Exceeded: &exceeded, MaxStates: 100000})
	return len(r) > 0 || exceeded
}

// BoolLeaves is Leaves for a boolean value with non-constant definitions split into their two
// outcomes: a definition `e` that is not a constant yields the leaf true under the facts that e
// being true implies, and the leaf false under the facts that e being false implies. Rules of the
// form "true is returned only when ..." then do not depend on the result being written as a
// literal (`return x == END, nil` ≡ `if x == END { return true, nil }; return false, nil`).
func BoolLeaves(v ssa.Value, at *ssa.BasicBlock) []Leaf { return boolLeaves(v, at, 0) }

func boolLeaves(v ssa.Value, at *ssa.BasicBlock, depth int) []Leaf {
	var out []Leaf
	for _, lf := range Leaves(v, at) {
		if _, isC := lf.V.(*ssa.Const); isC || !isBoolType(lf.V.Type()) {
			out = append(out, lf)
			continue
		}
		// the (k-th) boolean result of a repository function: one leaf per way the callee can
		// produce each outcome, under the callee's own facts (parameters replaced by the arguments)
		if g, k, call, ok := predicateOf(TermOf(lf.V)); ok && depth < 2 {
			sub := map[ssa.Value]*Term{}
			for i, pr := range g.Params {
				if i < len(call.Call.Args) {
					sub[pr] = TermOf(call.Call.Args[i])
				}
			}
			expanded := true
			var inner []Leaf
			gf := FactsFor(g)
			for _, b := range g.Blocks {
				if b == g.Recover {
					continue
				}
				for _, in := range b.Instrs {
					ret, isRet := in.(*ssa.Return)
					if !isRet || len(ret.Results) <= k {
						continue
					}
					for _, l2 := range boolLeaves(Forwarded(ret.Results[k]), ret.Block(), depth+1) {
						kc, isC := l2.V.(*ssa.Const)
						if !isC {
							expanded = false
							continue
						}
						fs := append([]Fact{}, lf.Facts...)
						fs = append(fs, FactOf(lf.V, constText(kc) == "true"))
						for _, x := range append(append([]Fact{}, gf.At(ret.Block())...), l2.Facts...) {
							fs = append(fs, normFact(Fact{Op: x.Op, L: SubstTerm(x.L, sub), R: SubstTerm(x.R, sub)}))
						}
						inner = append(inner, Leaf{V: kc, Facts: fs})
					}
				}
			}
			if expanded && len(inner) > 0 {
				out = append(out, inner...)
				continue
			}
		}
		for _, want := range []bool{true, false} {
			f := FactOf(lf.V, want)
			fs := append(append([]Fact{}, lf.Facts...), f)
			fs = append(fs, impliedByPredicate(f, 0)...)
			out = append(out, Leaf{V: ssa.NewConst(constant.MakeBool(want), types.Typ[types.Bool]), Facts: fs})
		}
	}
	return out
}

// soleCallSubst maps the parameters of fn to the argument terms of its only call site (nil if fn
// has none or several, is a closure, is used as a value or is entered by a framework).
func soleCallSubst(fn *ssa.Function) map[ssa.Value]*Term {
	p := theProgram
	if p == nil || fn.Parent() != nil || p.addressTaken()[fn] {
		return nil
	}
	sites := p.Callers(fn)
	if len(sites) != 1 || sites[0].Kind != "static" {
		return nil
	}
	sub := map[ssa.Value]*Term{}
	for i, pr := range fn.Params {
		if i < len(sites[0].Args) {
			sub[pr] = TermOf(sites[0].Args[i])
		}
	}
	return sub
}

// TermUp renders v like TermOf and then rewrites parameters of functions that have exactly one
// call site into that call's arguments, up to three levels: a value handed through an extracted
// helper is described in the terms of the function the helper was extracted from.
func TermUp(v ssa.Value, in *ssa.Function) *Term {
	t := TermOf(v)
	fn := in
	for i := 0; i < 3 && fn != nil; i++ {
		sub := soleCallSubst(fn)
		if len(sub) == 0 {
			break
		}
		t = SubstTerm(t, sub)
		fn = theProgram.Callers(fn)[0].Caller
	}
	return t
}

// ValueIs reports whether v satisfies m, looking through calls of repository functions: a call
// satisfies m when every value the callee can return (at that result index) does. A value that
// is produced by an extracted helper is thereby judged like the expression it replaced.
func ValueIs(v ssa.Value, m M) bool { return valueIs(v, m, 0) }

func valueIs(v ssa.Value, m M, depth int) bool {
	v = Forwarded(v)
	t := TermOf(v)
	if m(t) || t.Any(m) {
		return true
	}
	if depth > 2 {
		return false
	}
	var call *ssa.Call
	idx := 0
	switch x := v.(type) {
	case *ssa.Call:
		call = x
	case *ssa.Extract:
		if c, ok := x.Tuple.(*ssa.Call); ok {
			call, idx = c, x.Index
		}
	case *ssa.MakeInterface:
		return valueIs(x.X, m, depth)
	case *ssa.Phi:
		for _, e := range x.Edges {
			if !valueIs(e, m, depth+1) {
				return false
			}
		}
		return len(x.Edges) > 0
	}
	if call == nil {
		return false
	}
	g := call.Call.StaticCallee()
	if g == nil || g.Blocks == nil || g.Pkg == nil || !strings.HasPrefix(g.Pkg.Pkg.Path(), ModPath) {
		return false
	}
	n := 0
	for _, b := range g.Blocks {
		for _, in := range b.Instrs {
			ret, ok := in.(*ssa.Return)
			if !ok || len(ret.Results) <= idx {
				continue
			}
			for _, lf := range Leaves(Forwarded(ret.Results[idx]), ret.Block()) {
				n++
				if !valueIs(lf.V, m, depth+1) {
					return false
				}
			}
		}
	}
	return n > 0
}

// MustDo lifts an instruction predicate over helper calls: an instruction "does X" when it
// satisfies pred, or when it is a static call of a repository function none of whose paths
// returns without doing X (two levels). A step that was extracted into a helper is thereby
// judged like the statements it replaced.
func MustDo(pred func(ssa.Instruction) bool) func(ssa.Instruction) bool {
	memo := map[*ssa.Function]bool{}
	busy := map[*ssa.Function]bool{}
	var instr func(in ssa.Instruction, depth int) bool
	fnMust := func(f *ssa.Function, depth int) bool {
		if v, ok := memo[f]; ok {
			return v
		}
		if busy[f] {
			return false
		}
		busy[f] = true
		// only the helper's successful returns count: when it fails, its caller fails with it
		target := func(x ssa.Instruction) bool {
			ret, ok := x.(*ssa.Return)
			if !ok || ret.Block() == f.Recover {
				return false
			}
			if n := len(ret.Results); n > 0 && strings.HasSuffix(ret.Results[n-1].Type().String(), "error") {
				for _, lf := range Leaves(ret.Results[n-1], ret.Block()) {
					if k, isC := lf.V.(*ssa.Const); isC && k.IsNil() {
						return true
					}
					if _, isC := lf.V.(*ssa.Const); !isC {
						// an error that the path has found non-nil (err != nil, or IgnoreNotFound(err) != nil) is a failure
						vt := TermOf(lf.V).String()
						knownNonNil := false
						for _, fct := range append(append([]Fact{}, FactsAtInstr(ret)...), lf.Facts...) {
							if fct.Op == "!=" && fct.R != nil && fct.R.Op == "const" && fct.R.Name == "nil" && fct.L != nil {
								if fct.L.String() == vt {
									knownNonNil = true
								}
								if fct.L.Op == "call" && strings.HasSuffix(fct.L.Name, "IgnoreNotFound") && len(fct.L.Args) == 1 && fct.L.Args[0].String() == vt {
									knownNonNil = true
								}
							}
						}
						if knownNonNil {
							continue
						}
						// a non-constant error (e.g. the result of the step itself) may be nil
						if ci, isCall := Forwarded(lf.V).(*ssa.Call); !isCall || !instr(ci, depth) {
							if ex, isEx := Forwarded(lf.V).(*ssa.Extract); !isEx || !func() bool { c2, ok := ex.Tuple.(*ssa.Call); return ok && instr(c2, depth) }() {
								return true
							}
						}
					}
				}
				return false
			}
			return true
		}
		reach, _ := CanReach(Entry(f), target, ReachOpts{CutInstr: func(x ssa.Instruction) bool { return instr(x, depth) }})
		busy[f] = false
		memo[f] = !reach
		return !reach
	}
	instr = func(in ssa.Instruction, depth int) bool {
		if pred(in) {
			return true
		}
		ci, ok := in.(ssa.CallInstruction)
		if !ok || depth >= 2 {
			return false
		}
		g := ci.Common().StaticCallee()
		if g == nil || g.Blocks == nil || g.Pkg == nil || !strings.HasPrefix(g.Pkg.Pkg.Path(), ModPath) {
			return false
		}
		return fnMust(g, depth+1)
	}
	return func(in ssa.Instruction) bool { return instr(in, 0) }
}

// LeavesDeep is Leaves that looks through single-result calls of repository functions: a leaf
// that is such a call is replaced by the leaves of what the callee can return (two levels), so a
// value computed by an extracted helper is judged by the expressions the helper returns.
func LeavesDeep(v ssa.Value, at *ssa.BasicBlock) []Leaf { return leavesDeep(v, at, 0) }

func leavesDeep(v ssa.Value, at *ssa.BasicBlock, depth int) []Leaf {
	var out []Leaf
	for _, lf := range Leaves(v, at) {
		// a value read out of a local struct — possibly one a helper built and returned
		if defs, isField := StructFieldDefs(Forwarded(lf.V)); isField && depth < 2 {
			for _, d := range defs {
				blk := at
				if in, isIn := d.V.(ssa.Instruction); isIn && in.Block() != nil {
					blk = in.Block()
				}
				for _, l2 := range leavesDeep(d.V, blk, depth+1) {
					fs := append(append(append([]Fact{}, lf.Facts...), d.Facts...), l2.Facts...)
					out = append(out, Leaf{V: l2.V, Facts: fs})
				}
			}
			continue
		}
		call, ok := Forwarded(lf.V).(*ssa.Call)
		if !ok || depth >= 2 {
			out = append(out, lf)
			continue
		}
		g := call.Call.StaticCallee()
		if g == nil || g.Blocks == nil || g.Pkg == nil || !strings.HasPrefix(g.Pkg.Pkg.Path(), ModPath) || g.Signature.Results().Len() != 1 {
			out = append(out, lf)
			continue
		}
		for _, b := range g.Blocks {
			if b == g.Recover {
				continue
			}
			for _, in := range b.Instrs {
				ret, isRet := in.(*ssa.Return)
				if !isRet || len(ret.Results) != 1 {
					continue
				}
				for _, l2 := range leavesDeep(Forwarded(ret.Results[0]), ret.Block(), depth+1) {
					fs := append(append([]Fact{}, lf.Facts...), l2.Facts...)
					out = append(out, Leaf{V: l2.V, Facts: fs})
				}
			}
		}
	}
	return out
}

func isZeroConst(v ssa.Value) bool {
	k, ok := v.(*ssa.Const)
	return ok && k.Value != nil && k.Value.Kind() == constant.Int && constant.Sign(k.Value) == 0
}

func intConstSign(v ssa.Value) (int, bool) {
	k, ok := v.(*ssa.Const)
	if !ok || k.Value == nil || k.Value.Kind() != constant.Int {
		return 0, false
	}
	return constant.Sign(k.Value), true
}

// isNonNegCount: a constant >= 0, a len(), a sum of such, or a phi all of whose definitions are
// such (a phi under examination is assumed non-negative: counters start at a constant and only
// grow). Integer overflow is not modelled.
func isNonNegCount(v ssa.Value) bool { return nonNegCount(v, map[*ssa.Phi]bool{}, 0) }

func nonNegCount(v ssa.Value, assume map[*ssa.Phi]bool, depth int) bool {
	if depth > 12 {
		return false
	}
	if s, ok := intConstSign(v); ok {
		return s >= 0
	}
	switch x := v.(type) {
	case *ssa.Call:
		if b, ok := x.Call.Value.(*ssa.Builtin); ok && b.Name() == "len" {
			return true
		}
	case *ssa.BinOp:
		if x.Op == token.ADD {
			return nonNegCount(x.X, assume, depth+1) && nonNegCount(x.Y, assume, depth+1)
		}
	case *ssa.Phi:
		if assume[x] {
			return true
		}
		assume[x] = true
		for _, e := range x.Edges {
			if !nonNegCount(e, assume, depth+1) {
				return false
			}
		}
		return len(x.Edges) > 0
	}
	return false
}

// isPositiveCount: (non-negative count) + (positive constant), or a positive constant.
func isPositiveCount(v ssa.Value) bool {
	if s, ok := intConstSign(v); ok {
		return s > 0
	}
	bo, ok := v.(*ssa.BinOp)
	if !ok || bo.Op != token.ADD {
		return false
	}
	if s, isK := intConstSign(bo.Y); isK && s > 0 && isNonNegCount(bo.X) {
		return true
	}
	if s, isK := intConstSign(bo.X); isK && s > 0 && isNonNegCount(bo.Y) {
		return true
	}
	return false
}
