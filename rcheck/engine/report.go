package engine

import (
	"encoding/json"
	"fmt"
	"go/token"
	"os"
	"path/filepath"
	"regexp"
	"sort"
	"strings"
	"time"
)

// Obligation is one decided instance of a rule.
type Obligation struct {
	Rule     string   `json:"rule"`
	Key      string   `json:"key"` // rule + construct, no line numbers
	Site     string   `json:"site"`
	What     string   `json:"what"`
	OK       bool     `json:"ok"`
	Detail   string   `json:"detail,omitempty"`
	Facts    []string `json:"facts,omitempty"`
	Required []string `json:"required,omitempty"`
	Path     []string `json:"path,omitempty"`
	pos      token.Pos
}

// RuleInfo describes a rule for the evidence file.
type RuleInfo struct {
	ID    string `json:"id"`
	Doc   string `json:"doc"`
	Floor int    `json:"floor"`
	Found int    `json:"found"`
}

// Ctx is handed to rules.
type Ctx struct {
	Prog      *Program
	Prop      string
	Tier      string
	OutDir    string
	obs       []*Obligation
	rules     map[string]*RuleInfo
	ruleOrder []string
	keyCount  map[string]int
	Extra     map[string]interface{}
	start     time.Time
}

// NewCtx creates a rule context.
func NewCtx(p *Program, prop, tier, outDir string) *Ctx {
	return &Ctx{Prog: p, Prop: prop, Tier: tier, OutDir: outDir, rules: map[string]*RuleInfo{}, keyCount: map[string]int{}, Extra: map[string]interface{}{}, start: time.Now()}
}

// Rule declares a rule with its floor (minimum number of instances confirmed by hand).
func (c *Ctx) Rule(id, doc string, floor int) {
	if _, ok := c.rules[id]; !ok {
		c.rules[id] = &RuleInfo{ID: id, Doc: doc, Floor: floor}
		c.ruleOrder = append(c.ruleOrder, id)
	}
}

// Ob records an obligation. construct identifies the code construct without
// line numbers (function short name + what); an ordinal is appended when the
// same construct occurs more than once (ordered by the order of recording,
// which callers keep positional).
func (c *Ctx) Ob(rule, construct string, pos token.Pos, ok bool, what string, detail string) *Obligation {
	if _, known := c.rules[rule]; !known {
		c.Rule(rule, "", 0)
	}
	base := rule + "|" + construct
	c.keyCount[base]++
	key := base
	if n := c.keyCount[base]; n > 1 {
		key = fmt.Sprintf("%s#%d", base, n)
	}
	o := &Obligation{Rule: rule, Key: key, Site: c.Prog.Pos(pos), What: what, OK: ok, Detail: detail, pos: pos}
	c.obs = append(c.obs, o)
	c.rules[rule].Found++
	return o
}

// Unresolved records a failed anchor lookup as a violation of the rule.
func (c *Ctx) Unresolved(rule, what string) {
	c.Ob(rule, "unresolved:"+what, token.NoPos, false, "anchor resolution", "UNRESOLVED anchor: "+what+" (the rule can no longer see the construct it was written for)")
}

// WithFacts attaches fact strings.
func (o *Obligation) WithFacts(fs []Fact) *Obligation {
	o.Facts = FactStrings(fs)
	return o
}

// Req attaches the textual requirement.
func (o *Obligation) Req(req ...string) *Obligation {
	o.Required = append(o.Required, req...)
	return o
}

// KnownFindings file format.
type KnownFindings struct {
	Known []KnownEntry `json:"known"`
	Fixed []FixedEntry `json:"fixed"`
}
type KnownEntry struct {
	Property string `json:"property"`
	Key      string `json:"key"`
	What     string `json:"what"`
}
type FixedEntry struct {
	Property string `json:"property"`
	Commit   string `json:"commit"`
	Key      string `json:"key"`
	What     string `json:"what"`
}

func loadKnown(path string) KnownFindings {
	var k KnownFindings
	b, err := os.ReadFile(path)
	if err != nil {
		return k
	}
	_ = json.Unmarshal(b, &k)
	return k
}

var unsafeFile = regexp.MustCompile(`[^A-Za-z0-9_.-]+`)

// Finish checks floors, writes evidence and reports, prints the verdict and
// returns the process exit code.
func (c *Ctx) Finish(explanation string, notDecided string, assumptions []string) int {
	// floors
	for _, id := range c.ruleOrder {
		r := c.rules[id]
		if r.Found < r.Floor {
			fmt.Printf("UNRESOLVED rule=%s expected>=%d found=%d\n", id, r.Floor, r.Found)
			c.Ob(id, "floor", token.NoPos, false, "instance floor", fmt.Sprintf("rule matched %d instances, fewer than the %d confirmed by hand on the pinned tree: the rule no longer sees what it was written for", r.Found, r.Floor))
			r.Found-- // the floor obligation itself is not an instance
		}
	}
	known := loadKnown(filepath.Join(c.OutDir, "known_findings.json"))
	knownByKey := map[string]KnownEntry{}
	for _, k := range known.Known {
		if k.Property == c.Prop {
			knownByKey[k.Key] = k
		}
	}
	repDir := filepath.Join(c.OutDir, "reports", c.Prop)
	_ = os.RemoveAll(repDir)
	var viol, knownHit []*Obligation
	for _, o := range c.obs {
		if o.OK {
			continue
		}
		if _, ok := knownByKey[o.Key]; ok {
			knownHit = append(knownHit, o)
		} else {
			viol = append(viol, o)
		}
	}
	sortObs := func(os []*Obligation) {
		sort.SliceStable(os, func(i, j int) bool {
			if os[i].pos != os[j].pos {
				return os[i].pos < os[j].pos
			}
			return os[i].Key < os[j].Key
		})
	}
	sortObs(viol)
	sortObs(knownHit)
	for _, o := range knownHit {
		fmt.Printf("KNOWN-FINDING: property=%s %s [%s at %s]\n", c.Prop, knownByKey[o.Key].What, o.Key, o.Site)
	}
	if len(viol) > 0 {
		_ = os.MkdirAll(repDir, 0o755)
	}
	for _, o := range viol {
		fn := unsafeFile.ReplaceAllString(o.Key, "_")
		if len(fn) > 150 {
			fn = fn[:150]
		}
		path := filepath.Join(repDir, fn+".json")
		b, _ := json.MarshalIndent(map[string]interface{}{"property": c.Prop, "obligation": o, "rule_doc": c.rules[o.Rule].Doc}, "", " ")
		_ = os.WriteFile(path, b, 0o644)
		fmt.Printf("VIOLATION property=%s replay=%s\n", c.Prop, path)
		fmt.Printf("  rule %s %s\n", o.Rule, c.rules[o.Rule].Doc)
		fmt.Printf("  site %s  %s\n", o.Site, o.What)
		fmt.Printf("  key  %s\n", o.Key)
		if o.Detail != "" {
			fmt.Printf("  why  %s\n", o.Detail)
		}
		if len(o.Required) > 0 {
			fmt.Printf("  required: %s\n", strings.Join(o.Required, "; "))
		}
		if len(o.Facts) > 0 {
			fmt.Printf("  facts on path: %s\n", strings.Join(o.Facts, "; "))
		}
	}
	if os.Getenv("RCHECK_DUMP") != "" {
		for _, o := range c.obs {
			fmt.Printf("OB %-5v %s @ %s :: %s %s\n", o.OK, o.Key, o.Site, o.What, o.Detail)
		}
	}
	// evidence
	total := len(c.obs)
	disch := 0
	for _, o := range c.obs {
		if o.OK {
			disch++
		}
	}
	var samples []interface{}
	perRule := map[string]int{}
	for _, o := range c.obs {
		if perRule[o.Rule] < 3 {
			perRule[o.Rule]++
			samples = append(samples, o)
		}
	}
	var rules []*RuleInfo
	for _, id := range c.ruleOrder {
		rules = append(rules, c.rules[id])
	}
	cov := map[string]interface{}{
		"explanation":            explanation,
		"not_decided":            notDecided,
		"obligations":            total,
		"discharged":             disch,
		"known_findings_matched": len(knownHit),
		"rule_instances":         rules,
		"samples":                samples,
		"packages_loaded":        len(c.Prog.Roots),
		"packages_with_deps":     len(c.Prog.All),
		"functions_analysed":     len(c.Prog.RepoFuncs()),
		"whole_program":          c.Prog.Whole,
		"checker_cmd":            strings.Join(os.Args, " "),
		"exhaustive":             false,
	}
	for k, v := range c.Extra {
		cov[k] = v
	}
	seed := 0
	fmt.Sscanf(os.Getenv("VERIF_SEED"), "%d", &seed)
	ev := map[string]interface{}{
		"property_id": c.Prop,
		"tier":        c.Tier,
		"seed":        seed,
		"level":       "other",
		"coverage":    cov,
		"assumptions": assumptions,
		"wall_s":      time.Since(c.start).Seconds(),
		"violations":  len(viol),
	}
	_ = os.MkdirAll(filepath.Join(c.OutDir, "evidence"), 0o755)
	b, _ := json.MarshalIndent(ev, "", " ")
	if err := os.WriteFile(filepath.Join(c.OutDir, "evidence", c.Prop+".json"), b, 0o644); err != nil {
		fmt.Println("cannot write evidence:", err)
		return 2
	}
	fmt.Printf("%s %s: %d obligations over %d rules, %d discharged, %d known findings, %d violations (%d functions, %d packages)\n",
		c.Prop, c.Tier, total, len(rules), disch, len(knownHit), len(viol), len(c.Prog.RepoFuncs()), len(c.Prog.Roots))
	for _, r := range rules {
		fmt.Printf("  %-7s instances=%-3d floor=%-3d %s\n", r.ID, r.Found, r.Floor, r.Doc)
	}
	if len(viol) > 0 {
		return 1
	}
	return 0
}

// Obligations exposes recorded obligations (for the sensitivity tier).
func (c *Ctx) Obligations() []*Obligation { return c.obs }

// Import re-records, under new rule ids, the obligations another rule set produced for the
// rules named in mapping (old id → new id). Used where one structural clause is a necessary
// condition of two properties: the clause is evaluated once and reported under both.
func (c *Ctx) Import(from *Ctx, mapping map[string]string, docSuffix string) {
	for _, old := range from.ruleOrder {
		nw, ok := mapping[old]
		if !ok {
			continue
		}
		ri := from.rules[old]
		c.Rule(nw, ri.Doc+docSuffix, ri.Floor)
	}
	for _, o := range from.obs {
		nw, ok := mapping[o.Rule]
		if !ok {
			continue
		}
		construct := strings.TrimPrefix(o.Key, o.Rule+"|")
		// strip the ordinal the source context appended; Ob re-appends one
		if i := strings.LastIndex(construct, "#"); i >= 0 {
			if _, err := fmt.Sscanf(construct[i:], "#%d", new(int)); err == nil && regexp.MustCompile(`#\d+$`).MatchString(construct) {
				construct = construct[:i]
			}
		}
		n := c.Ob(nw, construct, o.pos, o.OK, o.What, o.Detail)
		n.Facts, n.Required, n.Path = o.Facts, o.Required, o.Path
	}
}
