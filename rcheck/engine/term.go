package engine

import (
	"fmt"
	"go/constant"
	"go/token"
	"go/types"
	"strings"

	"golang.org/x/tools/go/ssa"
)

// Term is a canonical, position-free rendering of an SSA value as an access
// path / expression tree. Two loads of the same field of the same root render
// identically; names of locals that were lifted to registers do not appear.
type Term struct {
	Op   string // param, freevar, field, call, extract, const, binop, unop, phi, local, global, index, lookup, slice, typeassert, closure, alloc, make, range, next, func, unknown
	Name string // field name / callee short name / constant text / operator / variable name
	Args []*Term
	Idx  int           // extract index
	V    ssa.Value     // originating value (nil for synthesised terms)
	Call *ssa.Call     // for Op==call / extract: the call instruction
	Fld  *types.Var    // for Op==field
	Fn   *ssa.Function // static callee for calls, function for closure/func
}

const maxTermDepth = 24

// TermOf renders v.
func TermOf(v ssa.Value) *Term { return termOf(v, 0, map[ssa.Value]bool{}) }

func termOf(v ssa.Value, depth int, onpath map[ssa.Value]bool) *Term {
	if v == nil {
		return &Term{Op: "unknown", Name: "nil-value"}
	}
	if depth > maxTermDepth || onpath[v] {
		return &Term{Op: "unknown", Name: "…", V: v}
	}
	onpath[v] = true
	defer delete(onpath, v)
	rec := func(x ssa.Value) *Term { return termOf(x, depth+1, onpath) }
	switch x := v.(type) {
	case *ssa.Parameter:
		return &Term{Op: "param", Name: x.Name(), V: v}
	case *ssa.FreeVar:
		return &Term{Op: "freevar", Name: x.Name(), V: v}
	case *ssa.Const:
		return &Term{Op: "const", Name: constText(x), V: v}
	case *ssa.Global:
		return &Term{Op: "global", Name: ShortPath(x.Pkg.Pkg.Path()) + "." + x.Name(), V: v}
	case *ssa.Function:
		return &Term{Op: "func", Name: FuncName(x), Fn: x, V: v}
	case *ssa.Builtin:
		return &Term{Op: "func", Name: x.Name(), V: v}
	case *ssa.Alloc:
		name := x.Comment
		if name == "" {
			name = "tmp"
		}
		return &Term{Op: "alloc", Name: name, V: v}
	case *ssa.FieldAddr:
		st := derefStruct(x.X.Type())
		f := st.Field(x.Field)
		// field of a struct-valued field of a local composite: x := T{F: v}; x.F.G  reads  v.G
		if inner, ok := x.X.(*ssa.FieldAddr); ok {
			if cv := fieldCellValue(inner); cv != nil {
				return &Term{Op: "field", Name: f.Name(), Fld: f, Args: []*Term{rec(cv)}, V: v}
			}
		}
		if a, ok := x.X.(*ssa.Alloc); ok {
			if ss := singleStore(a); ss != nil && len(allocStores(a)) == 1 {
				// cell holds a copy of another value: field of that value
				return &Term{Op: "field", Name: f.Name(), Fld: f, Args: []*Term{rec(ss.Val)}, V: v}
			}
		}
		return &Term{Op: "field", Name: f.Name(), Fld: f, Args: []*Term{rec(x.X)}, V: v}
	case *ssa.Field:
		st := derefStruct(x.X.Type())
		f := st.Field(x.Field)
		return &Term{Op: "field", Name: f.Name(), Fld: f, Args: []*Term{rec(x.X)}, V: v}
	case *ssa.UnOp:
		switch x.Op {
		case token.MUL:
			// load: transparent, except loads of local cells which become "local".
			if a, ok := x.X.(*ssa.Alloc); ok {
				// a local cell written exactly once: see through to the stored value
				if st := singleStore(a); st != nil {
					return rec(st.Val)
				}
				if fwd := forwardedStore(x); fwd != nil {
					return rec(fwd)
				}
				name := a.Comment
				if name == "" {
					name = "tmp"
				}
				return &Term{Op: "local", Name: name, V: v, Args: nil}
			}
			// block-local store forwarding for captured variables / multi-store cells:
			//   err = f(); if err != nil   (err captured by a closure) reads what was just stored
			if fwd := forwardedStore(x); fwd != nil {
				return rec(fwd)
			}
			t := rec(x.X)
			return t
		case token.NOT:
			return &Term{Op: "unop", Name: "!", Args: []*Term{rec(x.X)}, V: v}
		case token.SUB:
			return &Term{Op: "unop", Name: "-", Args: []*Term{rec(x.X)}, V: v}
		case token.ARROW:
			return &Term{Op: "unop", Name: "<-", Args: []*Term{rec(x.X)}, V: v}
		default:
			return &Term{Op: "unop", Name: x.Op.String(), Args: []*Term{rec(x.X)}, V: v}
		}
	case *ssa.BinOp:
		return &Term{Op: "binop", Name: x.Op.String(), Args: []*Term{rec(x.X), rec(x.Y)}, V: v}
	case *ssa.Call:
		return callTerm(x, rec)
	case *ssa.Extract:
		if c, ok := x.Tuple.(*ssa.Call); ok {
			ct := callTerm(c, rec)
			return &Term{Op: "extract", Name: ct.Name, Idx: x.Index, Args: []*Term{ct}, Call: c, Fn: ct.Fn, V: v}
		}
		return &Term{Op: "extract", Name: "", Idx: x.Index, Args: []*Term{rec(x.Tuple)}, V: v}
	case *ssa.Phi:
		t := &Term{Op: "phi", V: v}
		for _, e := range x.Edges {
			t.Args = append(t.Args, rec(e))
		}
		return t
	case *ssa.Convert:
		return rec(x.X)
	case *ssa.ChangeType:
		return rec(x.X)
	case *ssa.ChangeInterface:
		return rec(x.X)
	case *ssa.MakeInterface:
		return rec(x.X)
	case *ssa.SliceToArrayPointer:
		return rec(x.X)
	case *ssa.MultiConvert:
		return rec(x.X)
	case *ssa.IndexAddr:
		return &Term{Op: "index", Args: []*Term{rec(x.X), rec(x.Index)}, V: v}
	case *ssa.Index:
		return &Term{Op: "index", Args: []*Term{rec(x.X), rec(x.Index)}, V: v}
	case *ssa.Lookup:
		return &Term{Op: "lookup", Args: []*Term{rec(x.X), rec(x.Index)}, V: v}
	case *ssa.Slice:
		t := &Term{Op: "slice", Args: []*Term{rec(x.X)}, V: v}
		for _, b := range []ssa.Value{x.Low, x.High, x.Max} {
			if b != nil {
				t.Args = append(t.Args, rec(b))
			} else {
				t.Args = append(t.Args, &Term{Op: "const", Name: "_"})
			}
		}
		return t
	case *ssa.TypeAssert:
		return &Term{Op: "typeassert", Name: types.TypeString(x.AssertedType, shortQual), Args: []*Term{rec(x.X)}, V: v}
	case *ssa.MakeClosure:
		fn, _ := x.Fn.(*ssa.Function)
		return &Term{Op: "closure", Name: FuncName(fn), Fn: fn, V: v}
	case *ssa.MakeMap:
		return &Term{Op: "make", Name: "map", V: v}
	case *ssa.MakeSlice:
		return &Term{Op: "make", Name: "slice", V: v, Args: []*Term{rec(x.Len)}}
	case *ssa.MakeChan:
		return &Term{Op: "make", Name: "chan", V: v}
	case *ssa.Range:
		return &Term{Op: "range", Args: []*Term{rec(x.X)}, V: v}
	case *ssa.Next:
		return &Term{Op: "next", Args: []*Term{rec(x.Iter)}, V: v}
	}
	return &Term{Op: "unknown", Name: fmt.Sprintf("%T", v), V: v}
}

func shortQual(p *types.Package) string { return ShortPath(p.Path()) }

func derefStruct(t types.Type) *types.Struct {
	t = t.Underlying()
	if p, ok := t.(*types.Pointer); ok {
		t = p.Elem().Underlying()
	}
	st, _ := t.(*types.Struct)
	return st
}

func constText(c *ssa.Const) string {
	if c.Value == nil {
		return "nil"
	}
	if c.Value.Kind() == constant.String {
		return constant.StringVal(c.Value)
	}
	return c.Value.ExactString()
}

// CalleeName gives the short name of the function or interface method a call
// instruction targets ("dyn" for calls of function values).
func CalleeName(c *ssa.CallCommon) string {
	if c.IsInvoke() {
		return TypesFuncName(c.Method)
	}
	switch f := c.Value.(type) {
	case *ssa.Function:
		return FuncName(f)
	case *ssa.Builtin:
		return f.Name()
	case *ssa.MakeClosure:
		if fn, ok := f.Fn.(*ssa.Function); ok {
			return FuncName(fn)
		}
	}
	return "dyn"
}

func callTerm(c *ssa.Call, rec func(ssa.Value) *Term) *Term {
	t := &Term{Op: "call", Name: CalleeName(&c.Call), Call: c, V: c}
	t.Fn = c.Call.StaticCallee()
	if c.Call.IsInvoke() {
		t.Args = append(t.Args, rec(c.Call.Value))
	}
	for _, a := range c.Call.Args {
		t.Args = append(t.Args, rec(a))
	}
	if t.Name == "len" || t.Name == "cap" {
		t.Op = "len"
	}
	return t
}

// String renders the term.
func (t *Term) String() string {
	if t == nil {
		return "<nil>"
	}
	switch t.Op {
	case "param", "freevar", "global", "const", "func":
		if t.Op == "const" {
			return "`" + t.Name + "`"
		}
		return t.Name
	case "local":
		return "$" + t.Name
	case "alloc":
		return "&$" + t.Name
	case "field":
		return t.Args[0].String() + "." + t.Name
	case "call", "len":
		var as []string
		for _, a := range t.Args {
			as = append(as, a.String())
		}
		return t.Name + "(" + strings.Join(as, ", ") + ")"
	case "extract":
		return fmt.Sprintf("%s#%d", t.Args[0].String(), t.Idx)
	case "binop":
		return "(" + t.Args[0].String() + " " + t.Name + " " + t.Args[1].String() + ")"
	case "unop":
		return t.Name + t.Args[0].String()
	case "phi":
		var as []string
		for _, a := range t.Args {
			as = append(as, a.String())
		}
		return "phi(" + strings.Join(as, " | ") + ")"
	case "index":
		return t.Args[0].String() + "[" + t.Args[1].String() + "]"
	case "lookup":
		return t.Args[0].String() + "[" + t.Args[1].String() + "]"
	case "slice":
		return t.Args[0].String() + "[" + t.Args[1].String() + ":" + t.Args[2].String() + "]"
	case "typeassert":
		return t.Args[0].String() + ".(" + t.Name + ")"
	case "closure":
		return "closure(" + t.Name + ")"
	case "make":
		return "make(" + t.Name + ")"
	case "range":
		return "range(" + t.Args[0].String() + ")"
	case "next":
		return "next(" + t.Args[0].String() + ")"
	}
	return "?" + t.Name
}

// Walk visits t and all sub-terms.
func (t *Term) Walk(f func(*Term) bool) {
	if t == nil || !f(t) {
		return
	}
	for _, a := range t.Args {
		a.Walk(f)
	}
}

// Any reports whether some sub-term satisfies m.
func (t *Term) Any(m M) bool {
	found := false
	t.Walk(func(x *Term) bool {
		if found {
			return false
		}
		if m(x) {
			found = true
			return false
		}
		return true
	})
	return found
}

// FieldPath returns the chain of field names from the root, e.g. ["NewStatus","CanaryStatus","CurrentStepState"],
// and the root term. For non-field terms the path is empty and root is t.
func (t *Term) FieldPath() (root *Term, path []string) {
	cur := t
	for cur.Op == "field" {
		path = append([]string{cur.Name}, path...)
		cur = cur.Args[0]
	}
	return cur, path
}

// M is a matcher over terms.
type M func(*Term) bool

// MAny matches everything.
func MAny() M { return func(*Term) bool { return true } }

// MConst matches a constant with the given text ("true", "nil", "3", or a string value).
func MConst(text string) M {
	return func(t *Term) bool { return t.Op == "const" && t.Name == text }
}

// MIsConst matches any constant.
func MIsConst() M { return func(t *Term) bool { return t.Op == "const" } }

// MField matches a field access whose trailing field names are the given ones
// (e.g. MField("CanaryStatus","CurrentStepState") matches x.y.CanaryStatus.CurrentStepState).
func MField(names ...string) M {
	return func(t *Term) bool {
		if t.Op != "field" {
			return false
		}
		_, p := t.FieldPath()
		if len(p) < len(names) {
			return false
		}
		p = p[len(p)-len(names):]
		for i := range names {
			if p[i] != names[i] {
				return false
			}
		}
		return true
	}
}

// MFieldVar matches an access of exactly this struct field (by identity).
func MFieldVar(v *types.Var) M {
	return func(t *Term) bool { return t.Op == "field" && t.Fld == v }
}

// MCall matches a call (or the single result of a call) of a function whose
// short name matches pat; optional argument matchers are positional (receiver first for methods).
func MCall(pat string, args ...M) M {
	return func(t *Term) bool {
		if t.Op != "call" && t.Op != "len" {
			return false
		}
		if !NameMatch(t.Name, pat) {
			return false
		}
		for i, am := range args {
			if am == nil {
				continue
			}
			if i >= len(t.Args) || !am(t.Args[i]) {
				return false
			}
		}
		return true
	}
}

// MResult matches result #idx of a call to pat (idx<0: any result or the call itself).
func MResult(pat string, idx int, args ...M) M {
	cm := MCall(pat, args...)
	return func(t *Term) bool {
		if t.Op == "extract" {
			if idx >= 0 && t.Idx != idx {
				return false
			}
			return cm(t.Args[0])
		}
		if t.Op == "call" || t.Op == "len" {
			// the call value itself stands for its result only when there is exactly one
			if t.Call != nil && t.Call.Call.Signature().Results().Len() > 1 {
				return false
			}
			return (idx <= 0) && cm(t)
		}
		return false
	}
}

// MLen matches len(x) with x matching m.
func MLen(m M) M {
	return func(t *Term) bool { return t.Op == "len" && t.Name == "len" && len(t.Args) == 1 && m(t.Args[0]) }
}

// MHas matches terms that contain a sub-term matching m.
func MHas(m M) M { return func(t *Term) bool { return t.Any(m) } }

// MOr / MAnd combine matchers.
func MOr(ms ...M) M {
	return func(t *Term) bool {
		for _, m := range ms {
			if m(t) {
				return true
			}
		}
		return false
	}
}
func MAnd(ms ...M) M {
	return func(t *Term) bool {
		for _, m := range ms {
			if !m(t) {
				return false
			}
		}
		return true
	}
}

// MBin matches a binary operation.
func MBin(op string, l, r M) M {
	return func(t *Term) bool {
		return t.Op == "binop" && t.Name == op && l(t.Args[0]) && r(t.Args[1])
	}
}

// MStr matches by rendered text equality.
func MStr(s string) M { return func(t *Term) bool { return t.String() == s } }

// MNamedConst matches a constant whose value equals that of the named constant
// and whose type is the constant's type.
func MNamedConst(c *types.Const) M {
	return func(t *Term) bool {
		if t.Op != "const" || c == nil {
			return false
		}
		k, ok := t.V.(*ssa.Const)
		if !ok || k.Value == nil {
			return false
		}
		return types.Identical(k.Type(), c.Type()) && constant.Compare(k.Value, token.EQL, c.Val())
	}
}

// forwardedStore returns the value stored to the cell read by load, when that store
// precedes the load in the same block with no call in between.
func forwardedStore(load *ssa.UnOp) ssa.Value {
	switch load.X.(type) {
	case *ssa.FreeVar, *ssa.Alloc, *ssa.Global:
	default:
		return nil
	}
	b := load.Block()
	if b == nil {
		return nil
	}
	idx := -1
	for i, in := range b.Instrs {
		if in == ssa.Instruction(load) {
			idx = i
			break
		}
	}
	for i := idx - 1; i >= 0; i-- {
		switch x := b.Instrs[i].(type) {
		case *ssa.Store:
			if x.Addr == load.X {
				return x.Val
			}
		case ssa.CallInstruction:
			return nil
		}
	}
	return nil
}

// fieldCellValue returns the value stored into the field cell fa = &alloc.F when the local
// composite alloc is written field by field and F is stored exactly once (composite literal).
func fieldCellValue(fa *ssa.FieldAddr) ssa.Value {
	al, ok := fa.X.(*ssa.Alloc)
	if !ok {
		return nil
	}
	if singleStore(al) != nil {
		return nil
	}
	var val ssa.Value
	n := 0
	refs := al.Referrers()
	if refs == nil {
		return nil
	}
	for _, r := range *refs {
		switch x := r.(type) {
		case *ssa.Store:
			if x.Addr == ssa.Value(al) {
				return nil // whole-cell store as well
			}
		case *ssa.FieldAddr:
			if x.Field != fa.Field || x.Referrers() == nil {
				continue
			}
			for _, rr := range *x.Referrers() {
				if st, ok := rr.(*ssa.Store); ok && st.Addr == ssa.Value(x) {
					n++
					val = st.Val
				}
			}
		}
	}
	if n == 1 {
		return val
	}
	return nil
}
