package engine

import (
	"go/types"
	"sort"

	"golang.org/x/tools/go/ssa"
)

// CallSite is a place where a repository function may be entered: a static
// call, an interface invoke that the function's receiver type satisfies, a
// go/defer of either, or (for function literals) the instruction that creates
// the closure in the enclosing function.
type CallSite struct {
	Instr  ssa.Instruction
	Caller *ssa.Function
	Args   []ssa.Value // actual arguments aligned with callee Params (receiver first); nil for closure creation
	Kind   string      // static, invoke, closure
}

type cgIndex struct {
	static  map[*ssa.Function][]CallSite
	invokes map[string][]invokeSite // by method name
	closure map[*ssa.Function][]CallSite
}

type invokeSite struct {
	instr ssa.CallInstruction
	iface *types.Interface
	recv  types.Type
}

func (p *Program) cg() *cgIndex {
	if p.cgi != nil {
		return p.cgi
	}
	ix := &cgIndex{static: map[*ssa.Function][]CallSite{}, invokes: map[string][]invokeSite{}, closure: map[*ssa.Function][]CallSite{}}
	for _, fn := range p.repoFns {
		for _, b := range fn.Blocks {
			for _, in := range b.Instrs {
				switch x := in.(type) {
				case ssa.CallInstruction:
					c := x.Common()
					if c.IsInvoke() {
						it, _ := c.Value.Type().Underlying().(*types.Interface)
						ix.invokes[c.Method.Name()] = append(ix.invokes[c.Method.Name()], invokeSite{x, it, c.Value.Type()})
					} else if callee := c.StaticCallee(); callee != nil {
						ix.static[callee] = append(ix.static[callee], CallSite{Instr: in, Caller: fn, Args: c.Args, Kind: "static"})
					}
				}
				if mc, ok := in.(*ssa.MakeClosure); ok {
					if cf, ok := mc.Fn.(*ssa.Function); ok {
						ix.closure[cf] = append(ix.closure[cf], CallSite{Instr: in, Caller: fn, Kind: "closure"})
					}
				}
			}
		}
	}
	p.cgi = ix
	return ix
}

// Callers lists the call sites in repository code that may enter fn.
func (p *Program) Callers(fn *ssa.Function) []CallSite {
	ix := p.cg()
	var out []CallSite
	out = append(out, ix.static[fn]...)
	if fn.Parent() != nil {
		out = append(out, ix.closure[fn]...)
	}
	if fn.Signature.Recv() != nil {
		rt := fn.Signature.Recv().Type()
		for _, is := range ix.invokes[fn.Name()] {
			if is.iface == nil {
				continue
			}
			if types.Implements(rt, is.iface) || types.Implements(types.NewPointer(rt), is.iface) {
				c := is.instr.Common()
				args := append([]ssa.Value{c.Value}, c.Args...)
				out = append(out, CallSite{Instr: is.instr.(ssa.Instruction), Caller: is.instr.Parent(), Args: args, Kind: "invoke"})
			}
		}
	}
	sort.SliceStable(out, func(i, j int) bool { return out[i].Instr.Pos() < out[j].Instr.Pos() })
	return out
}

// Implementations returns the repository methods named `method` whose receiver
// type implements the interface type iface.
func (p *Program) Implementations(iface *types.Interface, method string) []*ssa.Function {
	var out []*ssa.Function
	for _, fn := range p.repoFns {
		if fn.Name() != method || fn.Signature.Recv() == nil || fn.Parent() != nil {
			continue
		}
		rt := fn.Signature.Recv().Type()
		if types.Implements(rt, iface) || types.Implements(types.NewPointer(rt), iface) {
			out = append(out, fn)
		}
	}
	return out
}

// CallPath is a chain of call sites from an outermost caller down to the
// function that contains the site of interest.
type CallPath struct {
	Sites []CallSite // outermost first
}

// CallPaths enumerates call paths that lead to function fn, walking callers
// upward until a function satisfying stop, a function without repository
// callers, or maxDepth is reached. Recursion is cut.
func (p *Program) CallPaths(fn *ssa.Function, stop func(*ssa.Function) bool, maxDepth int) []CallPath {
	var out []CallPath
	var rec func(f *ssa.Function, acc []CallSite, on map[*ssa.Function]bool)
	rec = func(f *ssa.Function, acc []CallSite, on map[*ssa.Function]bool) {
		if (stop != nil && stop(f)) || len(acc) >= maxDepth {
			out = append(out, CallPath{Sites: append([]CallSite{}, acc...)})
			return
		}
		callers := p.Callers(f)
		if len(callers) == 0 {
			out = append(out, CallPath{Sites: append([]CallSite{}, acc...)})
			return
		}
		on[f] = true
		for _, cs := range callers {
			if on[cs.Caller] {
				continue
			}
			rec(cs.Caller, append([]CallSite{cs}, acc...), on)
		}
		delete(on, f)
	}
	rec(fn, nil, map[*ssa.Function]bool{})
	return out
}

// Root returns the outermost function of the path (or nil if empty).
func (cp CallPath) Root() *ssa.Function {
	if len(cp.Sites) == 0 {
		return nil
	}
	return cp.Sites[0].Caller
}

// PathFacts returns the facts that hold along the call path at the final site:
// facts at every call site on the path plus the facts at `site` itself.
// Facts of callees are expressed over their own parameters; use Subst-aware
// matching (FactsContradict) when comparing across frames.
func PathFacts(cp CallPath, site ssa.Instruction) []Fact {
	var out []Fact
	for _, cs := range cp.Sites {
		out = append(out, FactsAtInstr(cs.Instr)...)
	}
	out = append(out, FactsAtInstr(site)...)
	return out
}

// PathString renders a call path.
func (p *Program) PathString(cp CallPath, site ssa.Instruction) []string {
	var out []string
	for _, cs := range cp.Sites {
		out = append(out, FuncName(cs.Caller)+" @ "+p.Pos(cs.Instr.Pos()))
	}
	out = append(out, FuncName(site.Parent())+" @ "+p.Pos(site.Pos()))
	return out
}

// PathInfeasible reports whether two facts on the path contradict each other
// syntactically after substituting callee parameters by the caller's actual
// argument terms (e.g. caller knows IsZero(x)==true, callee requires
// IsZero(param)==false with param:=x).
func PathInfeasible(cp CallPath, site ssa.Instruction) (bool, string) {
	n := len(cp.Sites)
	type triple struct{ l, op, r string }
	render := func(f Fact, frame int) triple {
		// frame: index of the call site through which the function holding the fact was entered (-1: root)
		l, r := f.L, f.R
		for k := frame; k >= 0; k-- {
			cs := cp.Sites[k]
			var callee *ssa.Function
			if k+1 < n {
				callee = cp.Sites[k+1].Caller
			} else {
				callee = site.Parent()
			}
			if cs.Args == nil || callee == nil {
				break
			}
			m := map[ssa.Value]*Term{}
			for i, prm := range callee.Params {
				if i < len(cs.Args) {
					m[prm] = TermOf(cs.Args[i])
				}
			}
			l, r = SubstTerm(l, m), SubstTerm(r, m)
		}
		return triple{l.String(), f.Op, r.String()}
	}
	var all []triple
	for i, cs := range cp.Sites {
		for _, f := range FactsAtInstr(cs.Instr) {
			all = append(all, render(f, i-1))
		}
	}
	for _, f := range FactsAtInstr(site) {
		all = append(all, render(f, n-1))
	}
	for i, a := range all {
		for _, b := range all[i+1:] {
			if a.l == b.l && a.r == b.r && negOp[a.op] == b.op {
				return true, a.l + " " + a.op + " " + a.r + "  vs  " + b.l + " " + b.op + " " + b.r
			}
			if a.l == b.r && a.r == b.l && negOp[a.op] == swapOp[b.op] {
				return true, a.l + " " + a.op + " " + a.r + "  vs  " + b.l + " " + b.op + " " + b.r
			}
			if a.l == b.l && a.op == "==" && b.op == "==" &&
				((a.r == "`true`" && b.r == "`false`") || (a.r == "`false`" && b.r == "`true`")) {
				return true, a.l + " == " + a.r + "  vs  " + b.l + " == " + b.r
			}
		}
	}
	return false, ""
}

// SubstTerm replaces sub-terms whose originating value is in m.
func SubstTerm(t *Term, m map[ssa.Value]*Term) *Term {
	if t == nil {
		return nil
	}
	if t.V != nil {
		if r, ok := m[t.V]; ok && t.Op == "param" {
			return r
		}
	}
	if len(t.Args) == 0 {
		return t
	}
	nt := *t
	nt.Args = make([]*Term, len(t.Args))
	for i, a := range t.Args {
		nt.Args[i] = SubstTerm(a, m)
	}
	return &nt
}

// Callees returns the repository functions a call instruction may enter: the static
// callee, closures passed as arguments, or — for interface invokes — every
// repository method of that name whose receiver implements the interface.
func (p *Program) Callees(ci ssa.CallInstruction) []*ssa.Function {
	var out []*ssa.Function
	c := ci.Common()
	if c.IsInvoke() {
		if it, ok := c.Value.Type().Underlying().(*types.Interface); ok {
			out = append(out, p.Implementations(it, c.Method.Name())...)
		}
	} else if callee := c.StaticCallee(); callee != nil && callee.Blocks != nil {
		out = append(out, callee)
	}
	for _, a := range c.Args {
		switch x := a.(type) {
		case *ssa.MakeClosure:
			// a function literal, or a bound method value (x.m passed as a func): the synthetic
			// wrapper is resolved to the method it calls
			if f, ok := x.Fn.(*ssa.Function); ok {
				out = append(out, unwrapSynthetic(f))
			}
		case *ssa.Function:
			// a named function passed as a value
			if x.Blocks != nil {
				out = append(out, unwrapSynthetic(x))
			}
		}
	}
	return out
}

// ReachableFrom computes the repository functions reachable from roots through Callees
// (and through function literals defined inside reached functions).
func (p *Program) ReachableFrom(roots ...*ssa.Function) map[*ssa.Function]bool {
	repo := map[*ssa.Function]bool{}
	for _, f := range p.repoFns {
		repo[f] = true
	}
	seen := map[*ssa.Function]bool{}
	var work []*ssa.Function
	for _, r := range roots {
		if r != nil && !seen[r] {
			seen[r] = true
			work = append(work, r)
		}
	}
	for len(work) > 0 {
		f := work[len(work)-1]
		work = work[:len(work)-1]
		for _, ci := range AllCalls(f) {
			for _, callee := range p.Callees(ci) {
				if repo[callee] && !seen[callee] {
					seen[callee] = true
					work = append(work, callee)
				}
			}
		}
		for _, an := range f.AnonFuncs {
			if !seen[an] {
				seen[an] = true
				work = append(work, an)
			}
		}
	}
	return seen
}
