package engine

import (
	"strings"

	"golang.org/x/tools/go/ssa"
)

// ShellUse is a use of an object that was created as an empty "shell"
// (only its key is set) at a point where it has not provably been populated
// by a successful client call.
type ShellUse struct {
	Shell ssa.Value
	Use   ssa.Instruction
	What  string
}

// IsShellCtor reports whether call creates an empty keyed object.
func IsShellCtor(c *ssa.Call) bool {
	n := CalleeName(&c.Call)
	return NameMatch(n, "util.GetEmptyObjectWithKey") || NameMatch(n, "util.GetEmptyWorkloadObject")
}

// isClientCallWith reports whether ci is a controller-runtime client call that takes v as (out-)argument.
func isClientCallWith(ci ssa.CallInstruction, vals map[ssa.Value]bool) bool {
	n := CalleeName(ci.Common())
	if !(strings.Contains(n, "controller-runtime/pkg/client.")) {
		return false
	}
	for _, a := range ci.Common().Args {
		if vals[a] {
			return true
		}
		// MakeInterface / ChangeInterface wrappers
		switch x := a.(type) {
		case *ssa.MakeInterface:
			if vals[x.X] {
				return true
			}
		case *ssa.ChangeInterface:
			if vals[x.X] {
				return true
			}
		}
	}
	return false
}

// aliasesOf returns v and every value derived from it by interface conversion,
// type assertion or phi (forward closure within the function).
func aliasesOf(v ssa.Value) map[ssa.Value]bool {
	out := map[ssa.Value]bool{v: true}
	work := []ssa.Value{v}
	for len(work) > 0 {
		x := work[len(work)-1]
		work = work[:len(work)-1]
		refs := x.Referrers()
		if refs == nil {
			continue
		}
		for _, r := range *refs {
			var nv ssa.Value
			switch y := r.(type) {
			case *ssa.TypeAssert:
				nv = y
			case *ssa.ChangeInterface:
				nv = y
			case *ssa.MakeInterface:
				nv = y
			case *ssa.ChangeType:
				nv = y
			case *ssa.Phi:
				nv = y
			case *ssa.Extract:
				nv = y // commaok type assert
			}
			if nv != nil && !out[nv] {
				out[nv] = true
				work = append(work, nv)
			}
		}
	}
	return out
}

// UnpopulatedShellUses finds, in fn, uses of shell objects that read the object
// (pass it to non-client code, read its fields, return it) reachable from the
// constructor on a path on which no successful client call has filled it in.
// Paths on which a phi selects a different (non-shell) value for the used alias are not counted.
// A repository function that receives the shell is looked into (two levels): it counts as a use
// only if it reads the object before filling it in, and as the filling call when none of its
// successful returns can be reached without a successful client call on the object.
func UnpopulatedShellUses(fn *ssa.Function) (uses []ShellUse, ctors int) {
	for _, b := range fn.Blocks {
		for _, in := range b.Instrs {
			call, ok := in.(*ssa.Call)
			if !ok || !IsShellCtor(call) {
				continue
			}
			ctors++
			uses = append(uses, shellUsesFrom(fn, call, PointAfter(call), 0)...)
		}
	}
	return uses, ctors
}

type shellSummary struct{ reads, populates bool }

var shellSummaries = map[string]shellSummary{}

// shellParamSummary: how the repository function g treats an unpopulated object passed as parameter i.
func shellParamSummary(g *ssa.Function, i int, depth int) shellSummary {
	key := FuncName(g) + "#" + string(rune('0'+i))
	if s, ok := shellSummaries[key]; ok {
		return s
	}
	shellSummaries[key] = shellSummary{reads: true} // recursion guard: pessimistic
	sum := shellSummary{}
	if g.Blocks == nil || i >= len(g.Params) || depth >= 2 {
		sum.reads = true
		shellSummaries[key] = sum
		return sum
	}
	par := g.Params[i]
	sum.reads = len(shellUsesFrom(g, par, Entry(g), depth+1)) > 0
	// populated on success: no nil-able error return reachable without a successful client call on the object
	al := aliasesOf(par)
	succ := func(in ssa.Instruction) bool {
		ret, ok := in.(*ssa.Return)
		if !ok || ret.Block() == g.Recover || len(ret.Results) == 0 {
			return false
		}
		last := ret.Results[len(ret.Results)-1]
		if !strings.HasSuffix(last.Type().String(), "error") {
			return true
		}
		for _, lf := range Leaves(last, ret.Block()) {
			if k, ok := lf.V.(*ssa.Const); ok && k.IsNil() {
				return true
			}
		}
		return false
	}
	reach, _ := CanReach(Entry(g), succ, ReachOpts{CutEdge: func(bb *ssa.BasicBlock, k int) bool { return shellPopulatingEdge(bb, k, al, depth+1) }})
	sum.populates = !reach
	shellSummaries[key] = sum
	return sum
}

// shellPopulatingEdge: the edge is the success edge (err == nil) of a client call that received the
// object, or of a repository function that fills it in on success.
func shellPopulatingEdge(bb *ssa.BasicBlock, k int, al map[ssa.Value]bool, depth int) bool {
	if len(bb.Instrs) == 0 || len(bb.Succs) != 2 {
		return false
	}
	ifi, ok := bb.Instrs[len(bb.Instrs)-1].(*ssa.If)
	if !ok {
		return false
	}
	f := FactOf(ifi.Cond, k == 0)
	if !(f.Op == "==" && f.R != nil && f.R.Op == "const" && f.R.Name == "nil" && f.L != nil && f.L.Call != nil) {
		return false
	}
	if isClientCallWith(f.L.Call, al) {
		return true
	}
	g := f.L.Call.Call.StaticCallee()
	if g == nil || g.Blocks == nil || g.Pkg == nil || !strings.HasPrefix(g.Pkg.Pkg.Path(), ModPath) {
		return false
	}
	for i, a := range f.L.Call.Call.Args {
		if argIsAlias(a, al) && shellParamSummary(g, i, depth).populates {
			return true
		}
	}
	return false
}

func argIsAlias(a ssa.Value, al map[ssa.Value]bool) bool {
	if al[a] {
		return true
	}
	switch x := a.(type) {
	case *ssa.MakeInterface:
		return al[x.X]
	case *ssa.ChangeInterface:
		return al[x.X]
	}
	return false
}

// shellUsesFrom: unpopulated uses of the shell value within fn, starting at `from`.
func shellUsesFrom(fn *ssa.Function, shell ssa.Value, from Point, depth int) (uses []ShellUse) {
	al := aliasesOf(shell)
	phiClosure := map[*ssa.Phi]map[ssa.Value]bool{}
	for a := range al {
		if ph, ok := a.(*ssa.Phi); ok {
			phiClosure[ph] = aliasesOf(ph)
		}
	}
	unpopulated := func(alias ssa.Value, use ssa.Instruction) bool {
		cut := func(bb *ssa.BasicBlock, k int) bool {
			if shellPopulatingEdge(bb, k, al, depth) {
				return true
			}
			// phi selects a non-shell value for the alias that is used
			succ := bb.Succs[k]
			for _, pin := range succ.Instrs {
				ph, ok := pin.(*ssa.Phi)
				if !ok {
					break
				}
				cl, isAlias := phiClosure[ph]
				if !isAlias || !(cl[alias] || ssa.Value(ph) == alias) {
					continue
				}
				for pi, pred := range succ.Preds {
					if pred == bb && !al[ph.Edges[pi]] {
						return true
					}
				}
			}
			return false
		}
		reach, _ := CanReach(from, func(x ssa.Instruction) bool { return x == use }, ReachOpts{CutEdge: cut})
		return reach
	}
	for a := range al {
		refs := a.Referrers()
		if refs == nil {
			continue
		}
		for _, r := range *refs {
			switch u := r.(type) {
			case ssa.CallInstruction:
				cn := CalleeName(u.Common())
				if isClientCallWith(u, al) {
					continue
				}
				if u.Common().IsInvoke() && al[u.Common().Value] {
					m := u.Common().Method.Name()
					if strings.HasPrefix(m, "Set") || m == "GetName" || m == "GetNamespace" || m == "GetObjectKind" || m == "DeepCopyObject" {
						continue
					}
				}
				if strings.HasPrefix(cn, "k8s.io/klog/v2.") {
					continue
				}
				// a repository function: judged by what it does with the parameter
				if g := u.Common().StaticCallee(); g != nil && g.Blocks != nil && g.Pkg != nil && strings.HasPrefix(g.Pkg.Pkg.Path(), ModPath) && !u.Common().IsInvoke() {
					reads := false
					for i, arg := range u.Common().Args {
						if argIsAlias(arg, al) && shellParamSummary(g, i, depth).reads {
							reads = true
						}
					}
					if !reads {
						continue
					}
				}
				if unpopulated(a, r) {
					uses = append(uses, ShellUse{shell, r, "passed to " + cn})
				}
			case *ssa.FieldAddr, *ssa.Field:
				if unpopulated(a, r) {
					uses = append(uses, ShellUse{shell, r, "field read"})
				}
			case *ssa.Return:
				if _, isParam := shell.(*ssa.Parameter); isParam {
					continue // handing the caller's own object back is not a read
				}
				if unpopulated(a, r) {
					uses = append(uses, ShellUse{shell, r, "returned"})
				}
			case *ssa.Store:
				if u.Val == a && unpopulated(a, r) {
					uses = append(uses, ShellUse{shell, r, "stored"})
				}
			}
		}
	}
	return uses
}
