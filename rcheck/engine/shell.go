package engine

import (
	"strings"

	"golang.org/x/tools/go/ssa"
)

// ShellUse is a use of an object that was created as an empty "shell"
// (only its key is set) at a point where it has not provably been populated
// by a successful client call.
type ShellUse struct {
	Shell ssa.Value
	Use   ssa.Instruction
	What  string
}

// IsShellCtor reports whether call creates an empty keyed object.
func IsShellCtor(c *ssa.Call) bool {
	n := CalleeName(&c.Call)
	return NameMatch(n, "util.GetEmptyObjectWithKey") || NameMatch(n, "util.GetEmptyWorkloadObject")
}

// isClientCallWith reports whether ci is a controller-runtime client call that takes v as (out-)argument.
func isClientCallWith(ci ssa.CallInstruction, vals map[ssa.Value]bool) bool {
	n := CalleeName(ci.Common())
	if !(strings.Contains(n, "controller-runtime/pkg/client.")) {
		return false
	}
	for _, a := range ci.Common().Args {
		if vals[a] {
			return true
		}
		// MakeInterface / ChangeInterface wrappers
		switch x := a.(type) {
		case *ssa.MakeInterface:
			if vals[x.X] {
				return true
			}
		case *ssa.ChangeInterface:
			if vals[x.X] {
				return true
			}
		}
	}
	return false
}

// aliasesOf returns v and every value derived from it by interface conversion,
// type assertion or phi (forward closure within the function).
func aliasesOf(v ssa.Value) map[ssa.Value]bool {
	out := map[ssa.Value]bool{v: true}
	work := []ssa.Value{v}
	for len(work) > 0 {
		x := work[len(work)-1]
		work = work[:len(work)-1]
		refs := x.Referrers()
		if refs == nil {
			continue
		}
		for _, r := range *refs {
			var nv ssa.Value
			switch y := r.(type) {
			case *ssa.TypeAssert:
				nv = y
			case *ssa.ChangeInterface:
				nv = y
			case *ssa.MakeInterface:
				nv = y
			case *ssa.ChangeType:
				nv = y
			case *ssa.Phi:
				nv = y
			case *ssa.Extract:
				nv = y // commaok type assert
			}
			if nv != nil && !out[nv] {
				out[nv] = true
				work = append(work, nv)
			}
		}
	}
	return out
}

// UnpopulatedShellUses finds, in fn, uses of shell objects that read the object
// (pass it to non-client code, read its fields, return it) reachable from the
// constructor on a path on which no successful client call has filled it in.
// Paths on which a phi selects a different (non-shell) value for the used alias are not counted.
func UnpopulatedShellUses(fn *ssa.Function) (uses []ShellUse, ctors int) {
	for _, b := range fn.Blocks {
		for _, in := range b.Instrs {
			call, ok := in.(*ssa.Call)
			if !ok || !IsShellCtor(call) {
				continue
			}
			ctors++
			al := aliasesOf(call)
			phiClosure := map[*ssa.Phi]map[ssa.Value]bool{}
			for a := range al {
				if ph, ok := a.(*ssa.Phi); ok {
					phiClosure[ph] = aliasesOf(ph)
				}
			}
			unpopulated := func(alias ssa.Value, use ssa.Instruction) bool {
				cut := func(bb *ssa.BasicBlock, k int) bool {
					// success edge of a client call that received the shell
					if len(bb.Instrs) > 0 && len(bb.Succs) == 2 {
						if ifi, ok := bb.Instrs[len(bb.Instrs)-1].(*ssa.If); ok {
							f := FactOf(ifi.Cond, k == 0)
							if f.Op == "==" && f.R.Op == "const" && f.R.Name == "nil" && f.L.Call != nil && isClientCallWith(f.L.Call, al) {
								return true
							}
						}
					}
					// phi selects a non-shell value for the alias that is used
					succ := bb.Succs[k]
					for _, pin := range succ.Instrs {
						ph, ok := pin.(*ssa.Phi)
						if !ok {
							break
						}
						cl, isAlias := phiClosure[ph]
						if !isAlias || !(cl[alias] || ssa.Value(ph) == alias) {
							continue
						}
						for pi, pred := range succ.Preds {
							if pred == bb && !al[ph.Edges[pi]] {
								return true
							}
						}
					}
					return false
				}
				reach, _ := CanReach(PointAfter(call), func(x ssa.Instruction) bool { return x == use }, ReachOpts{CutEdge: cut})
				return reach
			}
			for a := range al {
				refs := a.Referrers()
				if refs == nil {
					continue
				}
				for _, r := range *refs {
					switch u := r.(type) {
					case ssa.CallInstruction:
						cn := CalleeName(u.Common())
						if isClientCallWith(u, al) {
							continue
						}
						if u.Common().IsInvoke() && al[u.Common().Value] {
							m := u.Common().Method.Name()
							if strings.HasPrefix(m, "Set") || m == "GetName" || m == "GetNamespace" || m == "GetObjectKind" || m == "DeepCopyObject" {
								continue
							}
						}
						if strings.HasPrefix(cn, "k8s.io/klog/v2.") {
							continue
						}
						if unpopulated(a, r) {
							uses = append(uses, ShellUse{call, r, "passed to " + cn})
						}
					case *ssa.FieldAddr, *ssa.Field:
						if unpopulated(a, r) {
							uses = append(uses, ShellUse{call, r, "field read"})
						}
					case *ssa.Return:
						if unpopulated(a, r) {
							uses = append(uses, ShellUse{call, r, "returned"})
						}
					case *ssa.Store:
						if u.Val == a && unpopulated(a, r) {
							uses = append(uses, ShellUse{call, r, "stored"})
						}
					}
				}
			}
		}
	}
	return uses, ctors
}
