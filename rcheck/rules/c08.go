package rules

import (
	"strings"

	"golang.org/x/tools/go/ssa"

	. "verif/rcheck/engine"
)

func init() {
	register(&Prop{
		ID:  "C08",
		Run: runC08,
		Explanation: "Decides the structural clauses behind 'admission pauses every relevant change': (R8.1) in every workload handler (Deployment fresh-release part, CloneSet, DaemonSet, StatefulSet-like) each `return true, nil` is preceded on every path by the store of the hold-back knob (paused=true / partition=100% / partition=MaxInt16) and by the in-progress annotation whose value derives from the matched Rollout's name; " +
			"(R8.2) those stores are reachable only when a release change was detected (rollout-id changed, or no rollout-id and the template differs ignoring the hash label), a Rollout matched, its strategy is not empty, replicas are not 0 (kinds with replicas) and — with traffic routing — the single-revision condition holds; both fetchMatchedRollout copies return only a live (no deletion timestamp), not Disabled Rollout whose group/kind/name equal the object's, and they examine every candidate before answering 'none' (no early nil return inside the loop); " +
			"(R8.3) both Handle functions produce a patch only under changed==true; (R8.4) in the in-progress branch of handleDeployment the partition and default styles leave Spec.Paused true on every exit; (R8.5) optional blocks (DaemonSet rollingUpdate) are dereferenced only under a nil check; the StatefulSet strategy predicate treats an absent type as RollingUpdate in all three representations (sibling rule).",
		NotDecided:  "the frame equality 'admitted object = submitted + exactly these fields' for all shapes; whether the webhook configuration's selectors match; EqualIgnoreHash semantics.",
		Assumptions: []string{"facts are syntactic branch conditions; the hold-back knob per kind is frozen from the workload APIs"},
	})
}

func runC08(c *Ctx) {
	p := c.Prog
	c.Rule("R8.1", "hold-back knob and in-progress marker are set on every admitting path", 5)
	c.Rule("R8.2", "only release changes of workloads with a matching live Rollout are held back", 12)
	c.Rule("R8.3", "a patch is produced only when the handler reports a change", 4)
	c.Rule("R8.4", "an in-progress Deployment is re-paused", 2)
	c.Rule("R8.5", "optional blocks are dereferenced only under a nil check; strategy predicate siblings agree", 3)

	pk := "pkg/webhook/workload/mutating."
	inProgressKey := ConstVal(p.ConstObj("pkg/util", "InRolloutProgressingAnnotation"))
	type handler struct {
		fn       string
		knob     func(in ssa.Instruction) bool
		knobDesc string
		replicas bool
		traffic  bool
	}
	isFieldStoreConst := func(field, val string) func(ssa.Instruction) bool {
		return func(in ssa.Instruction) bool {
			st, ok := in.(*ssa.Store)
			if !ok {
				return false
			}
			fa, ok := st.Addr.(*ssa.FieldAddr)
			if !ok {
				return false
			}
			n, _ := FieldOf(fa)
			if n != field {
				return false
			}
			if val == "" {
				return true
			}
			v, isC := StoredConst(st)
			return isC && v == val
		}
	}
	partitionStore := func(want func(*Term) bool) func(ssa.Instruction) bool {
		return func(in ssa.Instruction) bool {
			st, ok := in.(*ssa.Store)
			if !ok {
				return false
			}
			fa, ok := st.Addr.(*ssa.FieldAddr)
			if !ok {
				return false
			}
			n, _ := FieldOf(fa)
			return n == "Partition" && SliceHas(st.Val, want)
		}
	}
	handlers := []handler{
		{pk + "WorkloadHandler.handleDeployment", isFieldStoreConst("Paused", "true"), "Spec.Paused = true", true, true},
		{pk + "WorkloadHandler.handleCloneSet", partitionStore(func(t *Term) bool { return t.Op == "const" && t.Name == "100%" }), "UpdateStrategy.Partition = 100%", true, true},
		{pk + "WorkloadHandler.handleDaemonSet", partitionStore(func(t *Term) bool { return t.Op == "const" && t.Name == "32767" }), "RollingUpdate.Partition = MaxInt16", false, false},
		{pk + "UnifiedWorkloadHandler.handleStatefulSetLikeWorkload", func(in ssa.Instruction) bool {
			ci, ok := in.(ssa.CallInstruction)
			if !ok || !NameMatch(CalleeName(ci.Common()), "util.SetStatefulSetPartition") {
				return false
			}
			a := TermOf(ci.Common().Args[1])
			return a.Op == "const" && a.Name == "32767"
		}, "SetStatefulSetPartition(MaxInt16)", true, false},
	}
	isMarker := func(in ssa.Instruction) bool {
		mu, ok := in.(*ssa.MapUpdate)
		if !ok {
			return false
		}
		k := TermOf(mu.Key)
		if !(k.Op == "const" && k.Name == inProgressKey) {
			return false
		}
		// value derives from the rollout's name
		return SliceHas(mu.Value, func(t *Term) bool { return t.Op == "call" && strings.HasSuffix(t.Name, "json.Marshal") }) || SliceHas(mu.Value, MField("Name"))
	}
	rawMarker := isMarker
	isMarker = MustDo(rawMarker)
	for _, h := range handlers {
		h.knob = MustDo(h.knob)
		fn := p.Func(h.fn)
		if fn == nil {
			c.Unresolved("R8.1", h.fn)
			continue
		}
		short := shortName(h.fn)
		// the fresh-release returns: `return true, nil` leaves that are not in the in-progress branch
		inProgress := FCmp("!=", func(t *Term) bool {
			return t.Op == "lookup" && t.Args[1].Op == "const" && t.Args[1].Name == inProgressKey
		}, MConst(""))
		n := 0
		for _, ret := range returnsOf(fn) {
			fs := FactsFor(fn).At(ret.Block())
			if HasFact(fs, inProgress) {
				continue
			}
			for _, lf := range Leaves(ret.Results[0], ret.Block()) {
				t := TermOf(lf.V)
				if !(t.Op == "const" && t.Name == "true") {
					continue
				}
				n++
				cutIP := func(b *ssa.BasicBlock, k int) bool { return EdgeFactMatches(b, k, inProgress) }
				isRet := func(in ssa.Instruction) bool { return in == ssa.Instruction(ret) }
				r1, _ := CanReach(Entry(fn), isRet, ReachOpts{CutInstr: h.knob, CutEdge: cutIP})
				r2, _ := CanReach(Entry(fn), isRet, ReachOpts{CutInstr: isMarker, CutEdge: cutIP})
				c.Ob("R8.1", short+"#admit-holds-back", ret.Pos(), !r1, "an admitted release change carries "+h.knobDesc, ifs(r1, "`return true` reachable without "+h.knobDesc+": the native controller may start updating pods"))
				c.Ob("R8.1", short+"#admit-marks", ret.Pos(), !r2, "an admitted release change is marked in-progress for the matched Rollout", ifs(r2, "`return true` reachable without annotations["+inProgressKey+"] = {rolloutName}"))
				// R8.2 guards: the knob store is reachable only through each required edge
				var knobs []ssa.Instruction
				for _, b := range fn.Blocks {
					for _, in := range b.Instrs {
						if h.knob(in) && !HasFact(FactsAtInstr(in), inProgress) {
							knobs = append(knobs, in)
						}
					}
				}
				isKnob := func(in ssa.Instruction) bool {
					for _, k := range knobs {
						if k == in {
							return true
						}
					}
					return false
				}
				type guard struct {
					desc string
					cut  []FactM
				}
				idLookup := func(t *Term) bool {
					return t.Op == "lookup" && t.Args[1].Op == "const" && strings.HasSuffix(t.Args[1].Name, "rollout-id")
				}
				changeEdges := []FactM{
					FCmp("!=", idLookup, idLookup), // old id != new id
					FFalse(MCall("util.EqualIgnoreHash")),
					FTrue(MCall("mutating.isEffectiveDeploymentRevisionChange")),
				}
				guards := []guard{
					{"a release change was detected (rollout-id changed, or template differs ignoring the hash)", changeEdges},
					{"a Rollout matched (rollout != nil)", []FactM{FNotNil(MResult("fetchMatchedRollout", 0))}},
					{"the Rollout's strategy is not empty", []FactM{FFalse(MCall("RolloutStrategy.IsEmptyRelease"))}},
				}
				if h.replicas {
					guards = append(guards, guard{"the workload has replicas", []FactM{
						FNil(MField("Spec", "Replicas")), FCmp("!=", MField("Spec", "Replicas"), MConst("0")), FCmp("!=", MCall("util.GetReplicas"), MConst("0"))}})
				}
				if h.traffic {
					guards = append(guards, guard{"with traffic routing the workload runs a single revision", []FactM{
						FFalse(MCall("RolloutStrategy.HasTrafficRoutings")), FCmp("==", MLen(MAny()), MConst("1")), FCmp("==", MField("Status", "Replicas"), MField("Status", "UpdatedReplicas"))}})
				}
				for _, g := range guards {
					g := g
					// one disjunction, so that a predicate helper whose outcome rests on
					// several of the alternatives is recognised as the guard
					reach := CanReachFeasibleM(Entry(fn), isKnob, ReachOpts{CutEdge: cutIP}, FOr(g.cut...))
					c.Ob("R8.2", short+"#guard("+g.desc[:min(24, len(g.desc))]+")", ret.Pos(), !reach && len(knobs) > 0, "hold-back only when "+g.desc, ifs(reach || len(knobs) == 0, "the hold-back store is reachable without that condition (or no store found)"))
				}
			}
		}
		if n == 0 {
			c.Ob("R8.1", short+"#admit", fn.Pos(), false, "admitting return of the handler", "anchor not found: no `return true` outside the in-progress branch")
		}
	}

	// fetchMatchedRollout siblings
	phaseDisabled := ConstVal(p.ConstObj("api/v1beta1", "RolloutPhaseDisabled"))
	fm := p.FuncsMatching("fetchMatchedRollout")
	if len(fm) < 2 {
		c.Ob("R8.2", "fetchMatchedRollout#siblings", 0, false, "two copies of fetchMatchedRollout", "anchor not found")
	}
	for _, fn := range fm {
		short := shortName(FuncName(fn))
		for _, ret := range returnsOf(fn) {
			t0 := TermOf(ret.Results[0])
			fs := FactsFor(fn).At(ret.Block())
			switch {
			case t0.Op == "const" && t0.Name == "nil":
				// either the List error, or after the loop: no `nil, nil` while candidates remain
				t1 := TermOf(ret.Results[1])
				if t1.Op == "const" && t1.Name == "nil" {
					inLoop := HasFact(fs, FCmp("<", MAny(), MLen(MField("Items"))))
					c.Ob("R8.2", short+"#answers-none-after-all", ret.Pos(), !inLoop, "'no matching Rollout' is answered only after every Rollout was examined", ifs(inLoop, "returns (nil, nil) inside the loop: a Rollout listed earlier (e.g. a Disabled one) hides an active one listed later"))
				}
			default:
				// a result variable: judge every value that can reach the return (a nil one is "none")
				type cand struct {
					fs []Fact
				}
				var cands []cand
				allNil := true
				for _, lf := range Leaves(Forwarded(ret.Results[0]), ret.Block()) {
					if k, isC := lf.V.(*ssa.Const); isC && k.IsNil() {
						continue
					}
					allNil = false
					cands = append(cands, cand{append(append([]Fact{}, lf.Facts...), fs...)})
				}
				if allNil {
					continue
				}
				needs := []need{
					{"DeletionTimestamp.IsZero() == true", FTrue(MCall("Time.IsZero", MField("DeletionTimestamp")))},
					{"Status.Phase != Disabled", FCmp("!=", MField("Status", "Phase"), MConst(phaseDisabled))},
					{"group matches", FCmp("==", MField("Group"), MField("Group"))},
					{"kind matches", FCmp("==", MField("Kind"), MField("Kind"))},
					{"name matches", FCmp("==", MCall("GetName"), MField("Name"))},
				}
				var missing []string
				for _, cd := range cands {
					for _, n := range needs {
						if !HasFact(cd.fs, n.m) {
							missing = append(missing, n.desc)
						}
					}
				}
				c.Ob("R8.2", short+"#returns-live-match", ret.Pos(), len(missing) == 0, "the Rollout returned is live, not disabled and references this workload", ifs(len(missing) > 0, "missing: "+strings.Join(missing, "; "))).WithFacts(fs)
			}
		}
	}

	// ---- R8.3
	for _, hn := range []string{pk + "WorkloadHandler.Handle", pk + "UnifiedWorkloadHandler.Handle"} {
		fn := p.Func(hn)
		if fn == nil {
			c.Unresolved("R8.3", hn)
			continue
		}
		calls := CallsIn(fn, "admission.PatchResponseFromRaw")
		if len(calls) == 0 {
			c.Ob("R8.3", shortName(hn)+"#patch", fn.Pos(), false, "patch response", "anchor not found")
		}
		for _, call := range calls {
			fs := FactsAtInstr(call.(ssa.Instruction))
			ok := HasFact(fs, FTrue(func(t *Term) bool { return t.Op == "extract" && t.Idx == 0 && strings.Contains(t.Name, ".handle") })) &&
				HasFact(fs, FNil(func(t *Term) bool { return t.Op == "extract" && t.Idx == 1 && strings.Contains(t.Name, ".handle") }))
			c.Ob("R8.3", shortName(hn)+"#patch-only-if-changed", call.Pos(), ok, "the admitted object is patched only when the handler changed it", ifs(!ok, "patch response not dominated by changed == true and err == nil")).WithFacts(fs)
		}
	}

	// ---- R8.4
	if fn := p.Func(pk + "WorkloadHandler.handleDeployment"); fn != nil {
		inProgress := FCmp("!=", func(t *Term) bool {
			return t.Op == "lookup" && t.Args[1].Op == "const" && t.Args[1].Name == inProgressKey
		}, MConst(""))
		// the store Paused = true under !Paused, for partition style and default style
		n := 0
		var r84Blocks []*ssa.BasicBlock
		for _, hf := range samePkgClosure(p, fn) {
			r84Blocks = append(r84Blocks, hf.Blocks...)
		}
		for _, b := range r84Blocks {
			for _, in := range b.Instrs {
				if !isFieldStoreConst("Paused", "true")(in) {
					continue
				}
				fs := FactsAtInstr(in)
				if !HasFact(fs, inProgress) {
					continue
				}
				if HasFact(fs, FFalse(MField("Spec", "Paused"))) {
					n++
				}
			}
		}
		c.Ob("R8.4", "handleDeployment#re-pause(partition,default)", fn.Pos(), n >= 2, "an un-paused in-progress Deployment is paused again (partition and default style)", ifs(n < 2, "expected a `if !Paused { Paused = true }` correction in both the partition-style and the default branch"))
		// and no in-progress return leaves Paused false: from a !Paused edge in the in-progress part, the return needs the store (non blue-green)
		bad := ""
		for _, b := range fn.Blocks {
			for k := range b.Succs {
				if !EdgeFactMatches(b, k, FFalse(MField("Spec", "Paused"))) || !HasFact(FactsFor(fn).At(b), inProgress) {
					continue
				}
				if r, _ := CanReach(Point{Block: b.Succs[k]}, IsReturn, ReachOpts{CutInstr: MustDo(isFieldStoreConst("Paused", "true"))}); r {
					bad = "from the edge Spec.Paused == false a return is reachable without pausing again"
				}
			}
		}
		c.Ob("R8.4", "handleDeployment#no-unpaused-exit", fn.Pos(), bad == "", "no exit of the in-progress branch leaves the Deployment un-paused (canary / partition style)", bad)
	} else {
		c.Unresolved("R8.4", "handleDeployment")
	}

	// ---- R8.5
	for _, h := range handlers {
		fn := p.Func(h.fn)
		if fn == nil {
			continue
		}
		derefs := OptionalDerefs(fn, func(owner, field string) bool { return field == "RollingUpdate" })
		// reads of RollingUpdate that only test/copy it are not dereferences; OptionalDerefs reports FieldAddr/loads through it
		if len(derefs) == 0 {
			c.Ob("R8.5", shortName(h.fn)+"#optional-blocks", fn.Pos(), true, "optional update-strategy blocks are dereferenced only under a nil check", "")
		}
		for _, d := range derefs {
			c.Ob("R8.5", shortName(h.fn)+"#deref("+d.Field.Name()+")", d.Instr.Pos(), false, "optional block "+d.Field.Name()+" dereferenced without a nil check", "a workload that omits "+d.Field.Name()+" crashes the webhook: "+d.Ptr.String())
		}
	}
	if fn := p.Func("pkg/util.IsStatefulSetRollingUpdate"); fn == nil {
		c.Unresolved("R8.5", "util.IsStatefulSetRollingUpdate")
	} else {
		bad := ""
		for _, ret := range returnsOf(fn) {
			for _, lf := range Leaves(ret.Results[0], ret.Block()) {
				t := TermOf(lf.V)
				if t.Op == "const" && t.Name == "false" {
					// allowed only when the strategy type is known and differs, or on a decode error
					if !HasFact(lf.Facts, FNotNil(MAny())) && !HasFact(lf.Facts, FCmp("!=", MAny(), MConst(""))) {
						bad = "returns false at " + p.Pos(ret.Pos()) + " without an error and without a non-empty strategy type: an absent type (the API default RollingUpdate) is treated as not rolling, so the release is admitted unheld"
					}
				}
			}
		}
		c.Ob("R8.5", "util.IsStatefulSetRollingUpdate#absent-type-is-rolling", fn.Pos(), bad == "", "an absent update-strategy type counts as RollingUpdate in every representation", bad)
	}
}

func min(a, b int) int {
	if a < b {
		return a
	}
	return b
}
