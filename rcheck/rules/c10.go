package rules

import (
	"strings"

	"golang.org/x/tools/go/ssa"

	. "verif/rcheck/engine"
)

func init() {
	register(&Prop{
		ID:  "C10",
		Run: runC10,
		Explanation: "Decides the dispatch and ordering clauses behind 'rollback and supersession put traffic back on stable first': (R10.1) in doProgressingInRolling every handler call carries the negation of all earlier special-case predicates and its own predicate, in the documented order (rollback-directly, paused, rollback-in-batches, continuous, plan-changed, normal); " +
			"(R10.1b) the rollback predicates can be true only under workload.IsInRollback and a changed canary revision, and rollback-in-batches is refused whenever any traffic routing is configured (style-agnostic accessor); " +
			"(R10.2) the Cancelling reason is entered only from the direct-rollback handler, runs doFinalising with reason Rollback, and reports Completed / Succeeded=False only after doFinalising reported done; rollback task sequences start with RouteTrafficToStable (R4.1 K3 re-evaluated here); " +
			"(R10.3) handleContinuousRelease reaches doProgressingReset only when the release is not blue-green, the blue-green edge returns a BadRequest error that reconcileRolloutProgressing swallows without a state transition; " +
			"(R10.4) status is cleared and the rollout re-enters Initializing only after doProgressingReset reported done; doProgressingReset's stage chain (gateway before BatchRelease before canary Service) is R4.3b re-evaluated here.",
		NotDecided:  "that IsInRollback / revision comparison detect every rollback (hash semantics); that traffic has actually drained before pods go (provider behaviour).",
		Assumptions: []string{"facts are syntactic branch conditions over SSA terms"},
	})
}

func runC10(c *Ctx) {
	p := c.Prog
	c.Rule("R10.1", "special-case dispatch order: each handler runs under the negation of all earlier predicates and its own predicate", 6)
	c.Rule("R10.1b", "rollback predicates are true only for a real rollback; rollback-in-batches is refused with any traffic routing", 3)
	c.Rule("R10.2", "Cancelling: entered from direct rollback only, finalises with reason Rollback, reports not-succeeded only after done", 4)
	c.Rule("R10.3", "blue-green refuses supersession: reset unreachable for blue-green, BadRequest swallowed without transition", 3)
	c.Rule("R10.4", "restart from step one only after the reset reported done", 2)
	c.Rule("R4.1", "rollback task sequences start with RouteTrafficToStable (K3)", 2)
	c.Rule("R4.3b", "doProgressingReset (supersession): gateway restored before the BatchRelease is removed before the canary Service is removed, each after the previous stage's success", 4)
	{
		val := map[string]string{}
		okc := true
		for _, n := range []string{tResume, tRelease, tToStable, tRestore, tRemoveSvc, tToNew, tEnd, tWait} {
			k := p.ConstObj("api/v1beta1", n)
			if k == nil {
				c.Unresolved("R4.3b", "constant v1beta1."+n)
				okc = false
				continue
			}
			val[n] = ConstVal(k)
		}
		if okc {
			checkResetChain(c, "R4.3b", val)
		}
	}

	checkDispatch(c, "R10.1", false)

	// R10.1b predicates
	for _, spec := range []struct {
		fn      string
		inBatch bool
	}{{"pkg/controller/rollout.isRollingBackDirectly", false}, {"pkg/controller/rollout.isRollingBackInBatches", true}} {
		fn := p.Func(spec.fn)
		if fn == nil {
			c.Unresolved("R10.1b", spec.fn)
			continue
		}
		for _, ret := range returnsOf(fn) {
			for _, lf := range Leaves(ret.Results[0], ret.Block()) {
				t := TermOf(lf.V)
				if t.Op == "const" && t.Name == "false" {
					continue
				}
				inRollback := HasFact(lf.Facts, FTrue(MField("IsInRollback")))
				revChanged := HasFact(lf.Facts, FCmp("!=", MField("CanaryRevision"), MCall("GetCanaryRevision")))
				polarityOK := false
				if spec.inBatch {
					polarityOK = t.Op == "call" && NameMatch(t.Name, "util.IsRollbackInBatchPolicy")
				} else {
					polarityOK = t.Op == "unop" && t.Name == "!" && t.Args[0].Op == "call" && NameMatch(t.Args[0].Name, "util.IsRollbackInBatchPolicy")
				}
				ok := inRollback && revChanged && polarityOK
				c.Ob("R10.1b", shortName(spec.fn)+"#may-be-true", ret.Pos(), ok, "predicate may hold only for a real rollback with the right in-batch polarity",
					ifs(!ok, "needs IsInRollback==true, CanaryRevision != status canary revision, and result "+map[bool]string{true: "inBatch", false: "!inBatch"}[spec.inBatch]+"; got "+t.String())).WithFacts(lf.Facts)
			}
		}
	}
	if fn := p.Func("pkg/util.IsRollbackInBatchPolicy"); fn == nil {
		c.Unresolved("R10.1b", "pkg/util.IsRollbackInBatchPolicy")
	} else {
		for _, ret := range returnsOf(fn) {
			for _, lf := range Leaves(ret.Results[0], ret.Block()) {
				t := TermOf(lf.V)
				if t.Op == "const" && t.Name == "false" {
					continue
				}
				ok := t.Op == "const" && HasFact(lf.Facts, FFalse(MCall("RolloutStrategy.HasTrafficRoutings", MField("Spec", "Strategy")))) &&
					HasFact(lf.Facts, FCmp("==", MHas(MField("Annotations")), MConst("true")))
				c.Ob("R10.1b", "util.IsRollbackInBatchPolicy#return(true)", ret.Pos(), ok, "rollback-in-batches only without any traffic routing and with the annotation",
					ifs(!ok, "needs Spec.Strategy.HasTrafficRoutings()==false (the accessor that covers canary and blue-green) and annotation == \"true\"")).WithFacts(lf.Facts)
			}
		}
	}

	// R10.2
	rCancel := ConstVal(p.ConstObj("api/v1alpha1", "ProgressingReasonCancelling"))
	rFinal := ConstVal(p.ConstObj("api/v1alpha1", "ProgressingReasonFinalising"))
	rCompleted := ConstVal(p.ConstObj("api/v1alpha1", "ProgressingReasonCompleted"))
	rInit := ConstVal(p.ConstObj("api/v1alpha1", "ProgressingReasonInitializing"))
	frRollback := ConstVal(p.ConstObj("api/v1beta1", "FinaliseReasonRollback"))
	pst := p.Func("pkg/controller/rollout.progressingStateTransition")
	if pst == nil || rCancel == "" || rCompleted == "" || frRollback == "" {
		c.Unresolved("R10.2", "progressingStateTransition / reasons")
	} else {
		done := FTrue(MResult("RolloutReconciler.doFinalising", 0))
		for _, cs := range p.Callers(pst) {
			if len(cs.Args) < 3 {
				continue
			}
			reason := TermOf(cs.Args[2])
			fs := FactsAtInstr(cs.Instr)
			switch {
			case reason.Op == "const" && reason.Name == rCancel:
				ok := false
				paths := p.CallPaths(cs.Caller, func(f *ssa.Function) bool { return f.Name() == "doProgressingInRolling" }, 3)
				ok = len(paths) > 0
				for _, cp := range paths {
					if !HasFact(PathFacts(cp, cs.Instr), FTrue(MCall("rollout.isRollingBackDirectly"))) {
						ok = false
					}
				}
				c.Ob("R10.2", FuncName(cs.Caller)+"#transition(Cancelling)", cs.Instr.Pos(), ok, "Cancelling is entered only for a direct rollback", ifs(!ok, "transition not dominated by isRollingBackDirectly()==true on every call path"))
			case reason.Op == "const" && reason.Name == rCompleted:
				ok := HasFact(fs, done) && HasFact(fs, FNil(MResult("RolloutReconciler.doFinalising", 1)))
				c.Ob("R10.2", FuncName(cs.Caller)+"#transition(Completed)", cs.Instr.Pos(), ok, "progressing Completed only after doFinalising()==(true,nil)", ifs(!ok, "missing doFinalising done/err==nil")).WithFacts(fs)
			case reason.Op == "const" && reason.Name == rInit:
				ok := HasFact(fs, FTrue(MResult("RolloutReconciler.doProgressingReset", 0))) && HasFact(fs, FNil(MResult("RolloutReconciler.doProgressingReset", 1)))
				c.Ob("R10.4", FuncName(cs.Caller)+"#transition(Initializing)", cs.Instr.Pos(), ok, "restart from step one only after doProgressingReset()==(true,nil)", ifs(!ok, "missing reset done/err==nil")).WithFacts(fs)
			case reason.Op != "const":
				// progressingStateTransition called with a computed reason: not expected
				c.Ob("R10.2", FuncName(cs.Caller)+"#transition(non-constant)", cs.Instr.Pos(), false, "transition with a non-constant reason", "undecided: "+reason.String())
			}
		}
	}
	if fn := p.Func("pkg/controller/rollout.RolloutReconciler.reconcileRolloutProgressing"); fn == nil {
		c.Unresolved("R10.2", "reconcileRolloutProgressing")
	} else {
		inCancel := FCmp("==", MField("Reason"), MConst(rCancel))
		inFinal := FCmp("==", MField("Reason"), MConst(rFinal))
		// doFinalising in the Cancelling case must be preceded by FinalizeReason = Rollback
		n := 0
		for _, call := range CallsIn(fn, "RolloutReconciler.doFinalising") {
			fs := FactsAtInstr(call.(ssa.Instruction))
			var want string
			switch {
			case HasFact(fs, inCancel):
				want = frRollback
			case HasFact(fs, inFinal):
				want = ConstVal(p.ConstObj("api/v1beta1", "FinaliseReasonSuccess"))
			default:
				continue
			}
			n++
			isReasonStore := func(in ssa.Instruction) bool {
				st, ok := in.(*ssa.Store)
				if !ok {
					return false
				}
				fa, ok := st.Addr.(*ssa.FieldAddr)
				if !ok {
					return false
				}
				nm, _ := FieldOf(fa)
				v, isC := StoredConst(st)
				return nm == "FinalizeReason" && isC && v == want
			}
			reach, _ := CanReach(Entry(fn), func(in ssa.Instruction) bool { return in == call.(ssa.Instruction) }, ReachOpts{CutInstr: isReasonStore})
			c.Ob("R10.2", "reconcileRolloutProgressing#doFinalising(reason="+want+")", call.Pos(), !reach, "finalising in this case runs with FinalizeReason="+want,
				ifs(reach, "doFinalising reachable without the store FinalizeReason = "+want+" (the cancel sequence would not start with RouteTrafficToStable)"))
		}
		if n < 2 {
			c.Ob("R10.2", "reconcileRolloutProgressing#doFinalising-cases", fn.Pos(), false, "Cancelling and Finalising cases call doFinalising", "anchor not found")
		}
		// Succeeded condition
		for _, call := range CallsIn(fn, "rollout.setRolloutSucceededCondition") {
			fs := FactsAtInstr(call.(ssa.Instruction))
			a := TermOf(call.Common().Args[1])
			ok := false
			switch {
			case a.Op == "const" && a.Name == "False":
				ok = HasFact(fs, inCancel) && HasFact(fs, FTrue(MResult("RolloutReconciler.doFinalising", 0)))
			case a.Op == "const" && a.Name == "True":
				ok = HasFact(fs, inFinal) && HasFact(fs, FTrue(MResult("RolloutReconciler.doFinalising", 0)))
			}
			c.Ob("R10.2", "reconcileRolloutProgressing#Succeeded="+a.Name, call.Pos(), ok, "Succeeded="+a.Name+" reported in the matching case after done", ifs(!ok, "Succeeded condition set outside (Cancelling→False / Finalising→True) ∧ done")).WithFacts(fs)
		}
		// R10.3 second half: BadRequest swallowed without transition
		for _, ret := range returnsOf(fn) {
			fs := FactsFor(fn).At(ret.Block())
			if !HasFact(fs, FTrue(MCall("errors.IsBadRequest"))) {
				continue
			}
			// no call to progressingStateTransition reachable between the IsBadRequest test and this return
			okNoTransition := true
			for _, in := range ret.Block().Instrs {
				if ci, isCall := in.(ssa.CallInstruction); isCall && NameMatch(CalleeName(ci.Common()), "rollout.progressingStateTransition") {
					okNoTransition = false
				}
			}
			errNil := len(ret.Results) == 2 && TermOf(ret.Results[1]).Op == "const"
			c.Ob("R10.3", "reconcileRolloutProgressing#swallow(BadRequest)", ret.Pos(), okNoTransition && errNil, "a refused supersession neither transitions nor retries hot", ifs(!(okNoTransition && errNil), "BadRequest branch performs a transition or returns the error"))
		}
	}

	// R10.3 first half / R10.4
	if fn := p.Func("pkg/controller/rollout.RolloutReconciler.handleContinuousRelease"); fn == nil {
		c.Unresolved("R10.3", "handleContinuousRelease")
	} else {
		for _, call := range CallsIn(fn, "RolloutReconciler.doProgressingReset") {
			fs := FactsAtInstr(call.(ssa.Instruction))
			ok := HasFact(fs, FFalse(MCall("RolloutStrategy.IsBlueGreenRelease")))
			c.Ob("R10.3", "handleContinuousRelease#doProgressingReset", call.Pos(), ok, "reset runs only when the release is not blue-green", ifs(!ok, "missing IsBlueGreenRelease()==false")).WithFacts(fs)
		}
		bg := 0
		for _, ret := range returnsOf(fn) {
			fs := FactsFor(fn).At(ret.Block())
			if HasFact(fs, FTrue(MCall("RolloutStrategy.IsBlueGreenRelease"))) {
				bg++
				t := TermOf(ret.Results[0])
				ok := ValueIs(ret.Results[0], MCall("errors.NewBadRequestError"))
				c.Ob("R10.3", "handleContinuousRelease#blue-green-return", ret.Pos(), ok, "blue-green supersession returns a BadRequest error", ifs(!ok, "returns "+t.String()))
			}
		}
		if bg == 0 {
			c.Ob("R10.3", "handleContinuousRelease#blue-green-return", fn.Pos(), false, "blue-green refusal branch", "anchor not found: no return under IsBlueGreenRelease()==true")
		}
		for _, call := range CallsIn(fn, "RolloutStatus.Clear") {
			fs := FactsAtInstr(call.(ssa.Instruction))
			ok := HasFact(fs, FTrue(MResult("RolloutReconciler.doProgressingReset", 0)))
			c.Ob("R10.4", "handleContinuousRelease#Clear", call.Pos(), ok, "sub-status cleared only after the reset reported done", ifs(!ok, "missing doProgressingReset done")).WithFacts(fs)
		}
	}

	// rollback sequences (K3) — re-evaluated from the tables
	stepT := p.NamedType("api/v1beta1", "FinalisingStepType")
	toStable := ConstVal(p.ConstObj("api/v1beta1", tToStable))
	resume := ConstVal(p.ConstObj("api/v1beta1", tResume))
	release := ConstVal(p.ConstObj("api/v1beta1", tRelease))
	if stepT == nil || toStable == "" {
		c.Unresolved("R4.1", "FinalisingStepType")
		return
	}
	for _, tl := range p.SliceLiteralsOf(stepT) {
		if !(tl.InCase && !tl.InDefault && contains(tl.CaseVals, frRollback)) {
			continue
		}
		pos := func(v string) int {
			for i, e := range tl.Elems {
				if e == v {
					return i
				}
			}
			return -1
		}
		ok := len(tl.Elems) > 0 && tl.Elems[0] == toStable && pos(resume) > 0 && pos(release) > 0
		why := "a rollback sequence must start with RouteTrafficToStable, before ResumeWorkload and ReleaseWorkloadControl"
		// K7: un-pinning the stable Service while the new-revision pods are all still there puts
		// the service's traffic back on the new version in the middle of the rollback
		if restore := ConstVal(p.ConstObj("api/v1beta1", tRestore)); ok && restore != "" && pos(restore) >= 0 && pos(restore) < pos(resume) {
			ok = false
			why = "in a rollback the stable Service is un-pinned (RestoreStableService) before the workload is rolled back (ResumeWorkload): the un-pinned Service selects old and new pods alike, so its traffic is back on the new version while the rollback is under way"
		}
		fn := "?"
		if tl.Fn != nil {
			fn = FuncName(tl.Fn)
		}
		c.Ob("R4.1", fn+"#sequence[Rollback]", tl.Pos, ok, "rollback sequence: "+strings.Join(tl.Elems, " → "), ifs(!ok, why))
	}
}
