package rules

import (
	"go/types"
	"strings"

	"golang.org/x/tools/go/ssa"

	. "verif/rcheck/engine"
)

func init() {
	register(&Prop{
		ID:  "C11",
		Run: runC11,
		Explanation: "Decides 'BatchRelease status values are only written behind the check they assert': (R11.1) every store of batch state Ready is dominated by EnsureBatchPodsReadyAndLabeled()==nil, and from the error edge of that call in the Verifying and Ready cases every path stores Upgrading before returning; " +
			"(R11.2) IsBatchReady returns nil only under updated >= desired, tolerated(threshold over the updated pods)+ready >= desired, not(desired>0 and ready==0) and batchLabelSatisfied; every control plane's readiness result is IsBatchReady of the context computed by the same CalculateBatchContext used for UpgradeBatch (sibling rule); " +
			"(R11.3) every store to BatchReleaseCanaryStatus.CurrentBatch is a reset, +1 under (batchPartition nil or > currentBatch), or min(batchPartition, len(batches)-1); " +
			"(R11.4) phase Completed is stored only after Finalize()==nil and phase Progressing only after Initialize()==nil (whole-program store enumeration); " +
			"(R11.5) in every workload controller's Finalize the wait-for-ready predicate never reads an object that only carries its key: on every path from the shell constructor to the read a successful client call filled it in (typestate, path-sensitive through phis), and every path to a nil return under the wait policy passes the wait predicate; " +
			"(R11.6) the recalculation / restart signals store Upgrading and clear the ready time, and are invoked under the scaling / plan-changed predicates.",
		NotDecided:  "that workload status counters are truthful; the arithmetic of the failure threshold; behaviour of the workload controllers between reconciles.",
		Assumptions: []string{"an object is 'populated' after a successful controller-runtime client Get/Patch/Update/Create that received it"},
	})
}

func runC11(c *Ctx) {
	p := c.Prog
	c.Rule("R11.1", "batch state Ready only after the readiness call returned nil; on its error the state falls back to Upgrading", 3)
	c.Rule("R11.2", "IsBatchReady's nil result carries the four readiness facts", 1)
	c.Rule("R11.2b", "every control plane's readiness result is IsBatchReady() of the context from CalculateBatchContext (same source as UpgradeBatch)", 3)
	c.Rule("R11.3", "currentBatch only moves under batchPartition", 2)
	c.Rule("R11.4", "phase Completed only after Finalize()==nil; phase Progressing only after Initialize()==nil", 2)
	c.Rule("R11.5", "Finalize wait predicates read a live object on every attempt; nil result only after the wait", 4)
	c.Rule("R11.6", "scaling / plan change falls back to Upgrading and clears the ready time", 4)

	ready := ConstVal(p.ConstObj("api/v1beta1", "ReadyBatchState"))
	upgrading := ConstVal(p.ConstObj("api/v1beta1", "UpgradingBatchState"))
	phCompleted := ConstVal(p.ConstObj("api/v1beta1", "RolloutPhaseCompleted"))
	phProgressing := ConstVal(p.ConstObj("api/v1beta1", "RolloutPhaseProgressing"))
	stateFld := p.FieldVar("api/v1beta1", "BatchReleaseCanaryStatus", "CurrentBatchState")
	batchFld := p.FieldVar("api/v1beta1", "BatchReleaseCanaryStatus", "CurrentBatch")
	phaseFld := p.FieldVar("api/v1beta1", "BatchReleaseStatus", "Phase")
	if ready == "" || upgrading == "" || stateFld == nil || batchFld == nil || phaseFld == nil {
		c.Unresolved("R11.1", "BatchRelease status constants/fields")
		return
	}
	ensure := "control.Interface.EnsureBatchPodsReadyAndLabeled"

	for _, fn := range p.RepoFuncs() {
		// R11.1 stores of Ready / R11.6 stores by signals
		for _, st := range StoresToField(fn, func(fa *ssa.FieldAddr) bool { return TermOf(fa).Fld == stateFld }) {
			v, isC := StoredConst(st)
			if !isC {
				if t := TermOf(st.Val); t.Op == "field" && t.Name == "CurrentBatchState" {
					continue
				}
				c.Ob("R11.1", FuncName(fn)+"#store(CurrentBatchState=non-constant)", st.Pos(), false, "batch state written with a non-constant", "undecided: "+TermOf(st.Val).String())
				continue
			}
			if v == ready {
				fs := FactsAtInstr(st)
				ok := HasFact(fs, FNil(MResult(ensure, -1)))
				c.Ob("R11.1", FuncName(fn)+"#store(CurrentBatchState=Ready)", st.Pos(), ok, "batch reported Ready", ifs(!ok, "store not dominated by EnsureBatchPodsReadyAndLabeled() == nil")).WithFacts(fs)
			}
		}
		// R11.3
		for _, st := range StoresToField(fn, func(fa *ssa.FieldAddr) bool { return TermOf(fa).Fld == batchFld }) {
			vt := TermOf(st.Val)
			fs := FactsAtInstr(st)
			construct := FuncName(fn) + "#store(CurrentBatch="
			switch {
			case vt.Op == "field" && vt.Name == "CurrentBatch":
				continue // copy
			case vt.Op == "binop" && vt.Name == "+" && vt.Args[1].Op == "const" && vt.Args[1].Name == "1" && vt.Args[0].Op == "field" && vt.Args[0].Fld == batchFld:
				// reachable only via BatchPartition == nil or *BatchPartition > CurrentBatch
				reach, _ := CanReach(Entry(fn), func(in ssa.Instruction) bool { return in == ssa.Instruction(st) }, ReachOpts{CutEdge: func(b *ssa.BasicBlock, k int) bool {
					return EdgeFactMatches(b, k, FOr(FNil(MField("BatchPartition")), FCmp(">", MHas(MField("BatchPartition")), MField("CurrentBatch"))))
				}})
				c.Ob("R11.3", construct+"+1)", st.Pos(), !reach, "currentBatch++ only below batchPartition", ifs(reach, "increment reachable without (BatchPartition == nil) or (*BatchPartition > CurrentBatch)")).WithFacts(fs)
			case vt.Op == "const" && vt.Name == "0":
				c.Ob("R11.3", construct+"0)", st.Pos(), true, "reset to the first batch", "")
			default:
				// must be bounded by BatchPartition and len(Batches)-1, or the constant 0
				okAll := true
				var leaves []string
				for _, lf := range LeavesDeep(st.Val, st.Block()) {
					lt := TermOf(lf.V)
					leaves = append(leaves, lt.String())
					if lt.Op == "const" && lt.Name == "0" {
						continue
					}
					isMin := lt.Op == "call" && (NameMatch(lt.Name, "integer.Int32Min") || lt.Name == "min")
					if isMin && lt.Any(MField("BatchPartition")) && lt.Any(MBin("-", MHas(MLen(MField("Batches"))), MConst("1"))) {
						continue
					}
					okAll = false
				}
				c.Ob("R11.3", construct+"recalculated)", st.Pos(), okAll, "recalculated currentBatch is 0 or min(batchPartition, len(batches)-1)", ifs(!okAll, "value not bounded by batchPartition and the plan length: "+strings.Join(leaves, " | "))).WithFacts(fs)
			}
		}
		// R11.4
		for _, st := range StoresToField(fn, func(fa *ssa.FieldAddr) bool { return TermOf(fa).Fld == phaseFld }) {
			v, isC := StoredConst(st)
			if !isC {
				continue
			}
			fs := FactsAtInstr(st)
			switch v {
			case phCompleted:
				ok := HasFact(fs, FNil(MResult("control.Interface.Finalize", -1)))
				c.Ob("R11.4", FuncName(fn)+"#store(Phase=Completed)", st.Pos(), ok, "Completed reported", ifs(!ok, "store not dominated by Finalize() == nil")).WithFacts(fs)
			case phProgressing:
				ok := HasFact(fs, FNil(MResult("control.Interface.Initialize", -1)))
				c.Ob("R11.4", FuncName(fn)+"#store(Phase=Progressing)", st.Pos(), ok, "Progressing entered", ifs(!ok, "store not dominated by Initialize() == nil")).WithFacts(fs)
			}
		}
	}

	// R11.1 second half: error edge falls back to Upgrading
	if fn := p.Func("pkg/controller/batchrelease.Executor.progressBatches"); fn == nil {
		c.Unresolved("R11.1", "Executor.progressBatches")
	} else {
		isUp := func(in ssa.Instruction) bool {
			st, ok := in.(*ssa.Store)
			if !ok {
				return false
			}
			fa, ok := st.Addr.(*ssa.FieldAddr)
			if !ok || TermOf(fa).Fld != stateFld {
				return false
			}
			v, isC := StoredConst(st)
			return isC && v == upgrading
		}
		// the re-evaluation may sit in progressBatches itself or in helpers extracted from it; each
		// call is judged inside the function that contains it
		var calls []ssa.CallInstruction
		for _, f := range samePkgClosure(p, fn) {
			calls = append(calls, CallsIn(f, ensure)...)
		}
		if len(calls) < 2 {
			c.Ob("R11.1", "progressBatches#readiness-calls", fn.Pos(), false, "Verifying and Ready both re-evaluate readiness", "anchor: expected 2 calls of EnsureBatchPodsReadyAndLabeled")
		}
		for _, call := range calls {
			n := 0
			for _, b := range call.Parent().Blocks {
				for k := range b.Succs {
					if EdgeFactMatches(b, k, FNotNil(MResultOf(call, -1))) {
						n++
						reach, _ := CanReach(Point{Block: b.Succs[k]}, IsReturn, ReachOpts{CutInstr: isUp})
						c.Ob("R11.1", "progressBatches#fallback-on-not-ready", call.Pos(), !reach, "not ready ⇒ state falls back to Upgrading", ifs(reach, "a return is reachable from the error edge without storing Upgrading"))
					}
				}
			}
			if n == 0 {
				c.Ob("R11.1", "progressBatches#fallback-on-not-ready", call.Pos(), false, "error edge of the readiness call", "the result of EnsureBatchPodsReadyAndLabeled is not tested")
			}
		}
	}

	// R11.2
	if fn := p.Func("pkg/controller/batchrelease/context.BatchContext.IsBatchReady"); fn == nil {
		c.Unresolved("R11.2", "BatchContext.IsBatchReady")
	} else {
		// each readiness fact is an edge every path to a nil result has to take (the result may be a
		// literal `return nil` or a result variable that is still nil)
		needs := []need{
			{"UpdatedReplicas >= DesiredUpdatedReplicas", FCmp(">=", MField("UpdatedReplicas"), MField("DesiredUpdatedReplicas"))},
			{"allowedUnavailable(FailureThreshold, UpdatedReplicas) + UpdatedReadyReplicas >= DesiredUpdatedReplicas",
				FCmp(">=", MBin("+", MCall("context.allowedUnavailable", MField("FailureThreshold"), MField("UpdatedReplicas")), MField("UpdatedReadyReplicas")), MField("DesiredUpdatedReplicas"))},
			{"batchLabelSatisfied(Pods, RolloutID, PlannedUpdatedReplicas) == true (or no rollout id / no pods listed)",
				FOr(FTrue(MCall("context.batchLabelSatisfied", MField("Pods"), MField("RolloutID"), MField("PlannedUpdatedReplicas"))),
					FCmp("==", MField("RolloutID"), MConst("")), FCmp("==", MLen(MField("Pods")), MConst("0")))},
			{"not(DesiredUpdatedReplicas > 0 and UpdatedReadyReplicas == 0)",
				FOr(FCmp("<=", MField("DesiredUpdatedReplicas"), MConst("0")), FCmp("!=", MField("UpdatedReadyReplicas"), MConst("0")))},
		}
		nilReturns := func(cut FactM) []*ssa.Return {
			var out []*ssa.Return
			for _, r := range WalkCP(Entry(fn), nil, IsReturn, ReachOpts{CutEdge: func(b *ssa.BasicBlock, k int) bool {
				return cut != nil && EdgeFactMatches(b, k, cut)
			}}) {
				ret := r.Instr.(*ssa.Return)
				if ret.Block() == fn.Recover || len(ret.Results) == 0 {
					continue
				}
				if v, ok := ResolveConst(ret.Results[0], r.Env); ok && v == "nil" {
					out = append(out, ret)
				}
			}
			return out
		}
		all := nilReturns(nil)
		seenRet := map[*ssa.Return]bool{}
		for _, ret := range all {
			if seenRet[ret] {
				continue
			}
			seenRet[ret] = true
			var missing []string
			for _, n := range needs {
				for _, r2 := range nilReturns(n.m) {
					if r2 == ret {
						missing = append(missing, n.desc)
						break
					}
				}
			}
			c.Ob("R11.2", "BatchContext.IsBatchReady#return(nil)", ret.Pos(), len(missing) == 0, "batch is ready", ifs(len(missing) > 0, "a nil result is reachable without: "+strings.Join(missing, "; "))).WithFacts(FactsFor(fn).At(ret.Block()))
		}
		if len(all) == 0 {
			c.Ob("R11.2", "BatchContext.IsBatchReady#return(nil)", fn.Pos(), false, "a path on which the batch is reported ready", "anchor not found: no nil result")
		}
	}

	// R11.2b / R7.3 sibling rule over control planes
	checkSameContext(c, "R11.2b")

	// R11.5
	checkFinalizeWaits(c, "R11.5")

	// R11.6
	for _, sig := range []string{"pkg/controller/batchrelease.signalRestartBatch", "pkg/controller/batchrelease.signalRecalculate"} {
		fn := p.Func(sig)
		if fn == nil {
			c.Unresolved("R11.6", sig)
			continue
		}
		hasUp, hasClear := false, false
		for _, b := range fn.Blocks {
			for _, in := range b.Instrs {
				st, ok := in.(*ssa.Store)
				if !ok {
					continue
				}
				fa, ok := st.Addr.(*ssa.FieldAddr)
				if !ok {
					continue
				}
				n, _ := FieldOf(fa)
				if v, isC := StoredConst(st); isC && n == "CurrentBatchState" && v == upgrading {
					if r, _ := CanReach(Entry(fn), IsReturn, ReachOpts{CutInstr: func(x ssa.Instruction) bool { return x == in }}); !r {
						hasUp = true
					}
				}
				if v, isC := StoredConst(st); isC && n == "BatchReadyTime" && v == "nil" {
					if r, _ := CanReach(Entry(fn), IsReturn, ReachOpts{CutInstr: func(x ssa.Instruction) bool { return x == in }}); !r {
						hasClear = true
					}
				}
			}
		}
		c.Ob("R11.6", shortName(sig)+"#falls-back", fn.Pos(), hasUp && hasClear, "signal stores Upgrading and clears BatchReadyTime on every path", ifs(!(hasUp && hasClear), "missing unconditional store of Upgrading / BatchReadyTime=nil"))
	}
	if fn := p.Func("pkg/controller/batchrelease.Executor.syncStatusBeforeExecuting"); fn == nil {
		c.Unresolved("R11.6", "syncStatusBeforeExecuting")
	} else {
		for _, pair := range [][2]string{{"batchrelease.signalRestartBatch", "batchrelease.isWorkloadScaling"}, {"batchrelease.signalRecalculate", "batchrelease.isPlanChanged"}} {
			calls := CallsIn(fn, pair[0])
			if len(calls) == 0 {
				c.Ob("R11.6", "syncStatusBeforeExecuting#"+shortName(pair[0]), fn.Pos(), false, "signal invoked", "anchor: "+pair[0]+" is not called")
			}
			for _, call := range calls {
				fs := FactsAtInstr(call.(ssa.Instruction))
				ok := HasFact(fs, FTrue(MCall(pair[1])))
				c.Ob("R11.6", "syncStatusBeforeExecuting#"+shortName(pair[0]), call.Pos(), ok, shortName(pair[0])+" under "+shortName(pair[1]), ifs(!ok, "signal not under its predicate")).WithFacts(fs)
			}
			// and the predicate true edge always reaches the signal
			for _, b := range fn.Blocks {
				for k := range b.Succs {
					if EdgeFactMatches(b, k, FTrue(MCall(pair[1]))) {
						reach, _ := CanReach(Point{Block: b.Succs[k]}, IsReturn, ReachOpts{CutInstr: func(x ssa.Instruction) bool {
							ci, ok := x.(ssa.CallInstruction)
							return ok && NameMatch(CalleeName(ci.Common()), pair[0])
						}})
						c.Ob("R11.6", "syncStatusBeforeExecuting#"+shortName(pair[1])+"-handled", b.Instrs[len(b.Instrs)-1].Pos(), !reach, shortName(pair[1])+" ⇒ "+shortName(pair[0]), ifs(reach, "predicate holds but the function can return without the signal"))
					}
				}
			}
		}
	}
}

// checkSameContext: UpgradeBatch and EnsureBatchPodsReadyAndLabeled of every control plane use
// CalculateBatchContext, and readiness is that context's IsBatchReady().
func checkSameContext(c *Ctx, rule string) {
	p := c.Prog
	ci := p.NamedType("pkg/controller/batchrelease/control", "Interface")
	if ci == nil {
		c.Unresolved(rule, "control.Interface")
		return
	}
	iface := ci.Underlying().(*types.Interface)
	impls := p.Implementations(iface, "EnsureBatchPodsReadyAndLabeled")
	if len(impls) < 3 {
		c.Ob(rule, "control-planes", 0, false, "three control planes (partition, canary, blue-green)", "anchor: fewer implementations found")
	}
	for _, fn := range impls {
		name := FuncName(fn)
		bad := ""
		nReady := 0
		for _, ret := range returnsOf(fn) {
			for _, lf := range Leaves(ret.Results[0], ret.Block()) {
				t := TermOf(lf.V)
				switch {
				case t.Op == "const" && t.Name == "nil":
					if !HasFact(lf.Facts, FCmp("==", MField("Replicas"), MConst("0"))) {
						bad = "returns nil (ready) without a readiness evaluation at " + p.Pos(ret.Pos())
					}
				case t.Op == "call" && NameMatch(t.Name, "context.BatchContext.IsBatchReady"):
					nReady++
					if len(t.Args) == 0 || !(t.Args[0].Op == "extract" && strings.HasSuffix(t.Args[0].Name, "CalculateBatchContext") && t.Args[0].Idx == 0) {
						bad = "IsBatchReady evaluated on a context that does not come from CalculateBatchContext at " + p.Pos(ret.Pos())
					}
				case t.Op == "extract" || t.Op == "call":
					// propagated error of a helper: fine (not a nil result by R6 discipline)
				default:
					bad = "unrecognised readiness result " + t.String()
				}
			}
		}
		if nReady == 0 && bad == "" {
			bad = "no path returns IsBatchReady()"
		}
		c.Ob(rule, name+"#readiness-source", fn.Pos(), bad == "", "readiness = CalculateBatchContext().IsBatchReady()", bad)
		// UpgradeBatch sibling uses the same CalculateBatchContext
		recv := fn.Signature.Recv().Type()
		for _, up := range p.Implementations(iface, "UpgradeBatch") {
			if !types.Identical(up.Signature.Recv().Type(), recv) {
				continue
			}
			ok := false
			for _, call := range AllCalls(up) {
				cn := CalleeName(call.Common())
				if strings.HasSuffix(cn, ".UpgradeBatch") && len(call.Common().Args) > 0 {
					at := TermOf(call.Common().Args[len(call.Common().Args)-1])
					if at.Op == "extract" && strings.HasSuffix(at.Name, "CalculateBatchContext") {
						ok = true
					}
				}
			}
			c.Ob(rule, FuncName(up)+"#target-source", up.Pos(), ok, "the workload is upgraded with the context from CalculateBatchContext", ifs(!ok, "UpgradeBatch is not fed by CalculateBatchContext"))
		}
	}
}

// checkFinalizeWaits decides R11.5.
func checkFinalizeWaits(c *Ctx, rule string) {
	p := c.Prog
	type spec struct {
		fn       string
		waitCall string // callee pattern of the wait predicate, "" when the wait is an inline comparison
		policy   bool   // wait only under ShouldWaitResume
	}
	specs := []spec{
		{"pkg/controller/batchrelease/control/bluegreenstyle/deployment.realController.Finalize", "deployment.waitAllUpdatedAndReady", false},
		{"pkg/controller/batchrelease/control/canarystyle/deployment.realStableController.Finalize", "deployment.waitAllUpdatedAndReady", true},
		{"pkg/controller/batchrelease/control/bluegreenstyle/cloneset.realController.Finalize", "", false},
	}
	for _, s := range specs {
		fn := p.Func(s.fn)
		if fn == nil {
			c.Unresolved(rule, s.fn)
			continue
		}
		name := FuncName(fn)
		// (a) typestate: no shell read
		uses, _ := UnpopulatedShellUses(fn)
		if len(uses) == 0 {
			c.Ob(rule, name+"#wait-reads-live-object", fn.Pos(), true, "the wait predicate reads a populated object on every path", "")
		}
		for _, u := range uses {
			c.Ob(rule, name+"#wait-reads-live-object", u.Use.Pos(), false, "the wait predicate reads an object that only carries its key",
				"created at "+p.Pos(u.Shell.Pos())+"; "+u.What+" is reachable without a successful client call on it (on a retry nothing is patched, the empty object trivially satisfies the wait)")
		}
		// (b) a success return must lie behind the success edge of the wait predicate
		var waitOK []FactM
		if s.waitCall != "" {
			for _, w := range CallsIn(fn, s.waitCall) {
				waitOK = append(waitOK, FNil(MResultOf(w, -1)))
			}
			// the wait may sit in a same-package helper that hands its verdict on: the helper's nil
			// result then stands for the wait, provided the helper itself answers nil only behind the
			// wait's success (or, where the policy allows it, when no wait was asked for)
			for _, hc := range AllCalls(fn) {
				g := hc.Common().StaticCallee()
				if g == nil || g.Blocks == nil || g.Pkg != fn.Pkg || len(CallsIn(g, s.waitCall)) == 0 {
					continue
				}
				var inner []FactM
				for _, w := range CallsIn(g, s.waitCall) {
					inner = append(inner, FNil(MResultOf(w, -1)))
				}
				succG := successReturn(g)
				leak, _ := CanReach(Entry(g), succG, ReachOpts{CutEdge: func(b *ssa.BasicBlock, k int) bool {
					if EdgeFactMatches(b, k, FOr(inner...)) {
						return true
					}
					return s.policy && EdgeFactMatches(b, k, FFalse(MCall("control.ShouldWaitResume")))
				}})
				// a helper that returns the wait's own result has no nil-edge of its own: accept when
				// every nil-able return is the wait call's value
				if leak {
					leak = false
					for _, ret := range returnsOf(g) {
						if !succG(ret) {
							continue
						}
						if fs := FactsFor(g).At(ret.Block()); s.policy && HasFact(fs, FFalse(MCall("control.ShouldWaitResume"))) {
							continue
						}
						direct := false
						for _, lf := range Leaves(Forwarded(ret.Results[len(ret.Results)-1]), ret.Block()) {
							if call, ok := lf.V.(*ssa.Call); ok && NameMatch(CalleeName(&call.Call), s.waitCall) {
								direct = true
							} else {
								direct = false
								break
							}
						}
						if !direct {
							leak = true
						}
					}
				}
				if !leak {
					waitOK = append(waitOK, FNil(MResultOf(hc, -1)))
				}
			}
		} else {
			waitOK = append(waitOK, FCmp("==", MField("Status", "ReadyReplicas"), MField("Status", "UpdatedReadyReplicas")))
		}
		if len(waitOK) == 0 {
			c.Ob(rule, name+"#wait-predicate", fn.Pos(), false, "wait predicate of this Finalize", "anchor not found: "+s.waitCall+" is not called")
			continue
		}
		waitEdge := func(b *ssa.BasicBlock, k int) bool {
			return EdgeFactMatches(b, k, FOr(waitOK...))
		}
		for _, ret := range returnsOf(fn) {
			fs := FactsFor(fn).At(ret.Block())
			// early exits that are not promotions
			if HasFact(fs, FNotNil(MField("BatchPartition"))) || HasFact(fs, FNil(MOr(MField("stableObject"), MField("object")))) {
				continue
			}
			leavesNil := false
			for _, lf := range Leaves(ret.Results[0], ret.Block()) {
				t := TermOf(lf.V)
				if t.Op == "const" && t.Name == "nil" {
					leavesNil = true
				}
				if t.Op == "call" && NameMatch(t.Name, "hpa.RestoreHPA") {
					leavesNil = true // success continuation
				}
			}
			if !leavesNil {
				continue
			}
			baseCut := func(b *ssa.BasicBlock, k int) bool {
				return EdgeFactMatches(b, k, FNotNil(MField("BatchPartition"))) || (s.policy && EdgeFactMatches(b, k, FFalse(MCall("control.ShouldWaitResume"))))
			}
			isRet := func(in ssa.Instruction) bool { return in == ssa.Instruction(ret) }
			reach, _ := CanReach(Entry(fn), isRet, ReachOpts{CutEdge: func(b *ssa.BasicBlock, k int) bool { return baseCut(b, k) || waitEdge(b, k) }})
			detail := ""
			if reach {
				// the wait may be skipped only on the 'already restored' edge, and then the restored marker
				// must itself be removed only after the wait succeeded in an earlier attempt
				reach2, _ := CanReach(Entry(fn), isRet, ReachOpts{CutEdge: func(b *ssa.BasicBlock, k int) bool {
					return baseCut(b, k) || waitEdge(b, k) || EdgeFactMatches(b, k, FTrue(MCall("realController.restored")))
				}})
				if reach2 {
					detail = "a success return is reachable without evaluating the wait predicate"
				} else {
					marker := ConstVal(p.ConstObj("api/v1beta1", "OriginalDeploymentStrategyAnnotation"))
					n := 0
					var delCalls []ssa.CallInstruction
					for _, ff := range samePkgClosure(p, fn) {
						delCalls = append(delCalls, AllCalls(ff)...)
					}
					for _, call := range delCalls {
						if !strings.HasSuffix(CalleeName(call.Common()), ".DeleteAnnotation") {
							continue
						}
						args := call.Common().Args
						if len(args) == 0 || TermOf(args[len(args)-1]).Name != marker {
							continue
						}
						n++
						holder := call.Parent()
						var r3 bool
						if holder == fn {
							r3, _ = CanReach(Entry(fn), func(in ssa.Instruction) bool { return in == call.(ssa.Instruction) }, ReachOpts{CutEdge: waitEdge})
						} else {
							// the removal sits in a helper: inside the helper it must follow the helper's own wait,
							// or every call of the helper in Finalize must follow Finalize's wait
							var inner []FactM
							for _, w := range CallsIn(holder, s.waitCall) {
								inner = append(inner, FNil(MResultOf(w, -1)))
							}
							r3 = true
							if len(inner) > 0 {
								r3, _ = CanReach(Entry(holder), func(in ssa.Instruction) bool { return in == call.(ssa.Instruction) }, ReachOpts{CutEdge: func(b *ssa.BasicBlock, k int) bool { return EdgeFactMatches(b, k, FOr(inner...)) }})
							}
							if r3 {
								sites := 0
								allAfter := true
								for _, hc := range AllCalls(fn) {
									if hc.Common().StaticCallee() != holder {
										continue
									}
									sites++
									if rr, _ := CanReach(Entry(fn), func(in ssa.Instruction) bool { return in == hc.(ssa.Instruction) }, ReachOpts{CutEdge: waitEdge}); rr {
										allAfter = false
									}
								}
								if sites > 0 && allAfter {
									r3 = false
								}
							}
						}
						okWait := !r3
						if !okWait {
							detail = "the wait is skipped once the deployment is 'restored', but the restored marker (" + marker + ") is removed at " + p.Pos(call.Pos()) + " before the wait has succeeded"
						}
					}
					if n == 0 {
						detail = "the wait is skipped on the restored edge and no removal of the restored marker was found"
					}
				}
			}
			c.Ob(rule, name+"#success-only-after-wait", ret.Pos(), detail == "", "a successful Finalize passed the wait predicate (in this or — marker-protected — an earlier attempt)", detail)
		}
	}
}
