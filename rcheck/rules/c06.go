package rules

import (
	"strings"

	"golang.org/x/tools/go/ssa"

	. "verif/rcheck/engine"
)

func init() {
	register(&Prop{
		ID:  "C06",
		Run: runC06,
		Explanation: "Decides the error-discipline and persist-before-act clauses behind 'crashes and API errors never corrupt a rollout': (R6.1) for every call in the controller and traffic-routing packages whose callee returns an error and can have an effect (client writes and reads, finalizer updates, provider / manager / control-plane methods, repository helpers), no path on which the error may be non-nil reaches a return that does not return it, unless it was handed to a non-logging function, stored, or is an accepted NotFound/AlreadyExists outcome (path-sensitive through phis, so an error overwritten by a later loop iteration counts as lost); " +
			"(R6.2) the BatchRelease executor acts only when syncStatusBeforeExecuting did not ask to stop, and it asks to stop whenever the recomputed status differs from the persisted one; (R6.3) every closure run under the grace wrapper, and the grace wrapper itself, reports 'modified/retry' exactly when a write happened, returns errors before any fast path, and every Manager method with retry semantics returns (true, nil) only from the grace wrapper; " +
			"(R6.4) the canary Deployment is created only when none was discovered and creation expectations are satisfied; (R6.5) objects that only carry their key are never read before a successful client call filled them in (whole-program typestate).",
		NotDecided:  "that the final cluster state equals that of an undisturbed run; absence of leaked resources under arbitrary fault sequences; API-server semantics.",
		Assumptions: []string{"logging an error is not handling it; passing it to any other function, storing it, or returning it (possibly wrapped) is"},
	})
}

// anchoredPkg reports whether a function belongs to the packages the properties anchor in.
func anchoredPkg(fn *ssa.Function) bool {
	n := FuncName(fn)
	for _, p := range []string{"pkg/controller/rollout.", "pkg/controller/batchrelease", "pkg/controller/trafficrouting.", "pkg/trafficrouting", "pkg/util/grace."} {
		if strings.HasPrefix(n, p) {
			return true
		}
	}
	return false
}

func runC06(c *Ctx) {
	c.Rule("R6.1", "no error of an effectful call is lost on any path (logging is not handling)", 150)
	c.Rule("R6.2", "phase/state change is persisted before acting on it", 2)
	c.Rule("R6.3", "grace closures and retry-style manager methods report exactly what they did", 10)
	c.Rule("R6.4", "canary Deployment created once", 2)
	c.Rule("R6.5", "empty keyed objects are never read before a successful client call filled them in", 8)

	checkErrorDiscipline(c, "R6.1", func(fn *ssa.Function) bool { return anchoredPkg(fn) })
	checkPersistBeforeAct(c, "R6.2")
	checkGraceClosures(c, "R6.3")
	checkRetryStyleReturns(c, "R6.3")
	checkCanaryCreateOnce(c, "R6.4")
	checkShellUses(c, "R6.5", func(name string) bool {
		for _, pfx := range []string{"pkg/controller/rollout.", "pkg/controller/batchrelease", "pkg/controller/trafficrouting.", "pkg/trafficrouting"} {
			if strings.HasPrefix(name, pfx) {
				return true
			}
		}
		return false
	})
}

// checkPersistBeforeAct decides R6.2.
func checkPersistBeforeAct(c *Ctx, rule string) {
	p := c.Prog
	do := p.Func("pkg/controller/batchrelease.Executor.Do")
	sync := p.Func("pkg/controller/batchrelease.Executor.syncStatusBeforeExecuting")
	if do == nil || sync == nil {
		c.Unresolved(rule, "Executor.Do / syncStatusBeforeExecuting")
		return
	}
	for _, call := range CallsIn(do, "batchrelease.Executor.executeBatchReleasePlan") {
		fs := FactsAtInstr(call.(ssa.Instruction))
		ok := HasFact(fs, FFalse(MResult("batchrelease.Executor.syncStatusBeforeExecuting", 0))) && HasFact(fs, FNil(MResult("batchrelease.Executor.syncStatusBeforeExecuting", 2)))
		c.Ob(rule, "Executor.Do#executeBatchReleasePlan", call.Pos(), ok, "the plan is executed only when the status sync did not ask to stop", ifs(!ok, "missing stop == false / err == nil of syncStatusBeforeExecuting")).WithFacts(fs)
	}
	changed := FFalse(MCall("reflect.DeepEqual", MField("Status"), MAny()))
	n := 0
	for _, b := range sync.Blocks {
		for k := range b.Succs {
			if !EdgeFactMatches(b, k, changed) {
				continue
			}
			n++
			bad := ""
			// paths on which an error is returned instead are retried with the error: cut them
			for _, r := range WalkCP(Point{Block: b.Succs[k]}, nil, IsReturn, ReachOpts{CutEdge: func(bb *ssa.BasicBlock, kk int) bool {
				return EdgeFactMatches(bb, kk, FNotNil(MCall("client.IgnoreNotFound")))
			}}) {
				ret := r.Instr.(*ssa.Return)
				v, ok := ResolveConst(ret.Results[0], r.Env)
				if ok && v == "true" {
					continue
				}
				bad = "status differs from the persisted one but the round is not stopped (return at " + p.Pos(ret.Pos()) + ")"
			}
			c.Ob(rule, "syncStatusBeforeExecuting#stop-when-status-changed", b.Instrs[len(b.Instrs)-1].Pos(), bad == "", "any difference between the recomputed and the persisted status stops the round so that it is persisted first", bad)
		}
	}
	if n == 0 {
		c.Ob(rule, "syncStatusBeforeExecuting#stop-when-status-changed", sync.Pos(), false, "comparison of the whole status (reflect.DeepEqual(&release.Status, newStatus))", "anchor not found: the whole-status comparison is gone, a partial comparison lets the executor act on un-persisted fields such as CurrentBatch")
	}
}

func isConstNil(v ssa.Value) bool {
	k, ok := v.(*ssa.Const)
	return ok && k.Value == nil
}

// graceClosures returns the closures passed to grace.RunWithGraceSeconds.
func graceClosures(p *Program) []*ssa.Function {
	var out []*ssa.Function
	for _, fn := range p.RepoFuncs() {
		for _, call := range CallsIn(fn, "grace.RunWithGraceSeconds") {
			for _, cal := range p.Callees(call) {
				if NameMatch(FuncName(cal), "grace.RunWithGraceSeconds") || NameMatch(FuncName(cal), "grace.runWithGraceSeconds") {
					continue
				}
				out = append(out, forwardedBody(cal))
			}
		}
	}
	return out
}

// forwardedBody: a function whose body only hands on the results of one repository function
// (`func() (bool, error) { return m.doIt(c) }`) is judged by that function.
func forwardedBody(f *ssa.Function) *ssa.Function {
	for i := 0; i < 2; i++ {
		var only *ssa.Call
		n := 0
		for _, ci := range AllCalls(f) {
			g := ci.Common().StaticCallee()
			if g == nil || g.Blocks == nil || g.Pkg == nil || !strings.HasPrefix(g.Pkg.Pkg.Path(), ModPath) {
				continue
			}
			n++
			if c, ok := ci.(*ssa.Call); ok {
				only = c
			}
		}
		if n != 1 || only == nil {
			return f
		}
		for _, ret := range returnsOf(f) {
			if ret.Block() == f.Recover {
				continue
			}
			for _, r := range ret.Results {
				v := Forwarded(r)
				if ex, ok := v.(*ssa.Extract); ok {
					v = ex.Tuple
				}
				if v != ssa.Value(only) {
					return f
				}
			}
		}
		// nothing else of effect in the forwarding function
		for _, ci := range AllCalls(f) {
			if ci != ssa.CallInstruction(only) {
				if _, isBuiltin := ci.Common().Value.(*ssa.Builtin); !isBuiltin {
					return f
				}
			}
		}
		f = only.Call.StaticCallee()
	}
	return f
}

// checkGraceClosures decides the closure half of R6.3 and the wrapper itself.
func checkGraceClosures(c *Ctx, rule string) {
	p := c.Prog
	cls := graceClosures(p)
	if len(cls) < 5 {
		c.Ob(rule, "grace-closures", 0, false, "closures run under the grace wrapper", "anchor: expected >= 5")
	}
	for _, fn := range cls {
		name := FuncName(fn)
		writes := writeSitesIn(fn, nil)
		// (a) every path through a successful direct write reports modified
		for _, w := range writes {
			w := w
			bad := ""
			for _, r := range WalkCP(PointAfter(w.(ssa.Instruction)), nil, IsReturn, ReachOpts{CutEdge: func(b *ssa.BasicBlock, k int) bool {
				return EdgeFactMatches(b, k, FNotNil(MResultOf(w, -1))) || EdgeFactMatches(b, k, FTrue(MCall("errors.IsNotFound", MResultOf(w, -1))))
			}}) {
				ret := r.Instr.(*ssa.Return)
				if v, ok := ResolveConst(ret.Results[0], r.Env); !ok || v != "true" {
					bad = "after the successful write a return at " + p.Pos(ret.Pos()) + " does not report modified=true (the grace wait would be skipped)"
				}
			}
			c.Ob(rule, name+"#after("+shortCallee(w)+")", w.Pos(), bad == "", "a successful write is reported as modified", bad)
		}
		// (b) without a successful write the closure reports false, or relays its callee's report
		succ := func(b *ssa.BasicBlock, k int) bool {
			for _, w := range writes {
				if EdgeFactMatches(b, k, FNil(MResultOf(w, -1))) {
					return true
				}
			}
			return false
		}
		bad := ""
		for _, r := range WalkCP(Entry(fn), nil, IsReturn, ReachOpts{CutEdge: succ}) {
			ret := r.Instr.(*ssa.Return)
			rv := Resolve(ret.Results[0], r.Env)
			if v, ok := ResolveConst(ret.Results[0], r.Env); ok {
				if v == "true" && len(writes) > 0 {
					// a write call that is not followed by an error test: its success edge does not exist, so this return is after the write
					tested := true
					for _, w := range writes {
						if !testedByNil(fn, w) {
							tested = false
						}
					}
					if tested {
						bad = "modified=true reported on a path without a successful write (return at " + p.Pos(ret.Pos()) + ")"
					}
				}
				if v == "true" && len(writes) == 0 {
					bad = "modified=true reported by a closure that writes nothing itself (return at " + p.Pos(ret.Pos()) + ")"
				}
				continue
			}
			t := TermOf(rv)
			relays := t.Any(MResult("network.NetworkProvider.Finalise", 0)) || t.Any(MResult("network.NetworkProvider.EnsureRoutes", 0))
			if !relays {
				bad = "unrecognised result " + t.String() + " (return at " + p.Pos(ret.Pos()) + ")"
			}
			if t.Any(MResult("network.NetworkProvider.EnsureRoutes", 0)) && !(t.Op == "unop" && t.Name == "!") {
				bad = "EnsureRoutes reports 'verified', the closure must report its negation (return at " + p.Pos(ret.Pos()) + ")"
			}
		}
		c.Ob(rule, name+"#report", fn.Pos(), bad == "", "nothing to do ⇒ (false,nil); otherwise the callee's modified / !verified report", bad)
	}
	// the wrapper
	w := p.Func("pkg/util/grace.runWithGraceSeconds")
	if w == nil {
		c.Unresolved(rule, "grace.runWithGraceSeconds")
		return
	}
	for _, ret := range returnsOf(w) {
		for _, lf := range BoolLeaves(ret.Results[0], ret.Block()) {
			t := TermOf(lf.V)
			if t.Op != "const" {
				c.Ob(rule, "grace.runWithGraceSeconds#return(non-constant)", ret.Pos(), false, "retry result is not a constant", "undecided: "+t.String())
				continue
			}
			if t.Name == "false" {
				errNil := false
				for _, call := range AllCalls(w) {
					if CalleeName(call.Common()) == "dyn" && HasFact(lf.Facts, FNil(MResultOf(call, 1))) {
						errNil = true
					}
				}
				ok := errNil && (HasFact(lf.Facts, FCmp("==", func(x *Term) bool { return x.Op == "param" && x.Name == "graceSeconds" }, MConst("0"))) ||
					(HasFact(lf.Facts, FFalse(func(x *Term) bool { return x.Op == "extract" && x.Idx == 0 && x.Name == "dyn" })) && HasFact(lf.Facts, FTrue(MResult("grace.realGraceExpectations.SatisfiedExpectations", 0)))))
				c.Ob(rule, "grace.runWithGraceSeconds#return(no-retry)", ret.Pos(), ok, "no retry only when f succeeded and (grace is 0, or nothing was modified and the earlier wait is over)",
					ifs(!ok, "retry=false without f's err == nil and (graceSeconds == 0 or (modified == false and expectations satisfied))")).WithFacts(lf.Facts)
			}
		}
	}
}

// testedByNil reports whether the error of write call w is compared with nil in fn.
func testedByNil(fn *ssa.Function, w ssa.CallInstruction) bool {
	for _, b := range fn.Blocks {
		for k := range b.Succs {
			if EdgeFactMatches(b, k, FNil(MResultOf(w, -1))) {
				return true
			}
		}
	}
	return false
}

// checkRetryStyleReturns: Manager methods whose bool means "retry" return (true, nil) only from the grace wrapper.
func checkRetryStyleReturns(c *Ctx, rule string) {
	p := c.Prog
	for _, m := range []string{"RouteAllTrafficToNewVersion", "RestoreGateway", "RemoveCanaryService", "PatchStableService", "RestoreStableService"} {
		fn := p.Func("pkg/trafficrouting.Manager." + m)
		if fn == nil {
			c.Unresolved(rule, "Manager."+m)
			continue
		}
		for _, ret := range returnsOf(fn) {
			for _, lf := range Leaves(ret.Results[0], ret.Block()) {
				t := TermOf(lf.V)
				ok := true
				why := ""
				switch {
				case t.Op == "const" && t.Name == "false":
				case t.Op == "extract" && NameMatch(t.Name, "grace.RunWithGraceSeconds") && t.Idx == 0:
				case t.Op == "const" && t.Name == "true":
					// only together with a non-nil error
					if isConstNil(ret.Results[1]) {
						ok = false
						why = "returns (retry=true, nil) without having done anything and without a recheck duration: the caller requeues with a zero delay forever"
					}
				default:
					ok = false
					why = "undecided: " + t.String()
				}
				c.Ob(rule, "Manager."+m+"#return(retry)", ret.Pos(), ok, "retry is requested only by the grace wrapper (which also sets the recheck duration) or together with an error", why).WithFacts(lf.Facts)
			}
		}
	}
}

// checkCanaryCreateOnce decides R6.4.
func checkCanaryCreateOnce(c *Ctx, rule string) {
	p := c.Prog
	fn := p.Func("pkg/controller/batchrelease/control/canarystyle/deployment.realCanaryController.Create")
	if fn == nil {
		c.Unresolved(rule, "realCanaryController.Create")
		return
	}
	calls := CallsIn(fn, "deployment.realCanaryController.create")
	if len(calls) == 0 {
		c.Ob(rule, "realCanaryController.Create#create", fn.Pos(), false, "creation call", "anchor not found")
	}
	for _, call := range calls {
		fs := FactsAtInstr(call.(ssa.Instruction))
		okNil := HasFact(fs, FNil(MField("canaryObject")))
		reach, _ := CanReach(Entry(fn), func(in ssa.Instruction) bool { return in == call.(ssa.Instruction) }, ReachOpts{CutEdge: func(b *ssa.BasicBlock, k int) bool {
			return EdgeFactMatches(b, k, FTrue(MResult("expectation.Expectations.SatisfiedExpectations", 0))) ||
				EdgeFactMatches(b, k, FCmp(">=", MResult("expectation.Expectations.SatisfiedExpectations", 1), MAny()))
		}})
		ok := okNil && !reach
		c.Ob(rule, "realCanaryController.Create#create", call.Pos(), ok, "a canary Deployment is created only when none was discovered and the creation expectation is satisfied (or timed out)",
			ifs(!ok, "create reachable with canaryObject != nil or with an unsatisfied, not yet timed-out expectation")).WithFacts(fs)
	}
	// the created object records the expectation before the function reports
	if cr := p.Func("pkg/controller/batchrelease/control/canarystyle/deployment.realCanaryController.create"); cr != nil {
		for _, w := range writeSitesIn(cr, nil) {
			reach, _ := CanReach(PointAfter(w.(ssa.Instruction)), IsReturn, ReachOpts{
				CutEdge: func(b *ssa.BasicBlock, k int) bool { return EdgeFactMatches(b, k, FNotNil(MResultOf(w, -1))) },
				CutInstr: func(in ssa.Instruction) bool {
					ci, ok := in.(ssa.CallInstruction)
					return ok && strings.HasSuffix(CalleeName(ci.Common()), ".Expect")
				},
			})
			c.Ob(rule, "realCanaryController.create#expect-after-create", w.Pos(), !reach, "a successful Create records a creation expectation before returning", ifs(reach, "return reachable after the successful Create without Expect()"))
		}
	} else {
		c.Unresolved(rule, "realCanaryController.create")
	}
}

// checkErrorDiscipline applies the error-fate analysis to every effectful call in the selected functions.
func checkErrorDiscipline(c *Ctx, rule string, sel func(*ssa.Function) bool) {
	checkErrorDisciplineF(c, rule, sel, nil)
}

// checkErrorDisciplineF additionally restricts the calls looked at (calleeSel == nil: all effectful calls).
func checkErrorDisciplineF(c *Ctx, rule string, sel func(*ssa.Function) bool, calleeSel func(ssa.CallInstruction) bool) {
	p := c.Prog
	exempt := map[string]string{
		// best-effort label patches: labels are re-derived on the next reconcile and readiness re-checks them
		"pkg/controller/batchrelease/control/canarystyle.realCanaryController.EnsureBatchPodsReadyAndLabeled#PatchPodBatchLabel": "best effort: readiness (IsBatchReady → batchLabelSatisfied) re-checks the labels and the next reconcile patches again",
		"pkg/controller/batchrelease/control/bluegreenstyle.realBatchControlPlane.EnsureBatchPodsReadyAndLabeled#patchPodLabels": "best effort: readiness (IsBatchReady → batchLabelSatisfied) re-checks the labels and the next reconcile patches again",
	}
	exempt["pkg/controller/trafficrouting.TrafficRoutingReconciler.Reconcile#FinalisingTrafficRouting"] = "done==true implies err==nil by the manager's contract (R4.3c: FinalisingTrafficRouting returns true only together with a nil error), so the overwrite under `if done` cannot lose an error"
	exempt["pkg/controller/rollout.RolloutReconciler.reconcileRolloutProgressing#doProgressingInRolling"] = "BadRequest errors are swallowed on purpose (blue-green supersession refusal, decided by C10 R10.3); every other error is returned"
	exempt["pkg/controller/batchrelease.Executor.Do#getReleaseController"] = "unsupported workload kind: reported as an event, deliberately not retried"
	for _, fn := range p.RepoFuncs() {
		if !sel(fn) {
			continue
		}
		for _, call := range AllCalls(fn) {
			if ErrResultIndex(call.Common()) < 0 {
				continue
			}
			name := CalleeName(call.Common())
			if !effectful(name) {
				continue
			}
			if calleeSel != nil && !calleeSel(call) {
				continue
			}
			root := fn
			for root.Parent() != nil {
				root = root.Parent()
			}
			construct := FuncName(fn) + "#" + shortCalleeName(name)
			if why, ok := exempt[FuncName(root)+"#"+lastName(name)]; ok {
				c.Ob(rule, construct+"[exempt]", call.Pos(), true, "error deliberately not propagated: "+why, "")
				continue
			}
			lost := ErrorFate(p, call)
			c.Ob(rule, construct, call.Pos(), lost == "", "error of "+shortCalleeName(name)+" is propagated, converted or aggregated on every path", lost)
		}
	}
}

func lastName(n string) string {
	if i := strings.LastIndex(n, "."); i >= 0 {
		return n[i+1:]
	}
	return n
}

func shortCalleeName(n string) string {
	if i := strings.LastIndex(n, "/"); i >= 0 {
		return n[i+1:]
	}
	return n
}

// effectful selects the callees whose errors matter for R6.1: everything that returns an error except
// pure formatting / encoding helpers whose errors the code base conventionally ignores.
func effectful(name string) bool {
	for _, pfx := range []string{"encoding/json.", "fmt.", "strconv.", "k8s.io/klog", "k8s.io/apimachinery/pkg/util/intstr.", "k8s.io/apimachinery/pkg/util/json.", "sigs.k8s.io/yaml."} {
		if strings.HasPrefix(name, pfx) {
			return false
		}
	}
	if name == "dyn" {
		return true // closures handed to the grace wrapper / retry helpers
	}
	if strings.HasPrefix(name, "pkg/") || strings.HasPrefix(name, "api/") {
		return true // repository functions and interface methods
	}
	for _, m := range []string{"client.Writer.", "client.StatusWriter.", "client.SubResourceWriter.", "client.Reader.", "client.Client."} {
		if strings.Contains(name, "controller-runtime/pkg/"+m) {
			return true
		}
	}
	if strings.Contains(name, "k8s.io/client-go/") && !strings.Contains(name, "/tools/record") {
		return true // typed clientsets, retry helpers
	}
	return false
}
