package rules

import (
	"fmt"
	"go/types"
	"strings"

	"golang.org/x/tools/go/ssa"

	. "verif/rcheck/engine"
)

func init() {
	register(&Prop{
		ID:  "C01",
		Run: runC01,
		Explanation: "Decides the structural clauses behind 'pod exposure never exceeds the current step': (R1.1) every UpgradeBatch(*BatchContext) implementation (discovered by signature; 7 siblings) performs its workload write only on the false edge of a no-op guard that compares the workload's present knob, taken from the batch context (CurrentPartition / CurrentSurge / canary replicas / decoded strategy partition), with the context's desired value, in the direction fixed by the knob's meaning — the knob never moves back toward the old revision; " +
			"(R1.2) currentBatch moves only under batchPartition (= C11 R11.3); (R1.3) the batchPartition the Rollout controller writes is exactly currentStepIndex-1 (argument provenance through runBatchRelease into every createBatchRelease implementation); " +
			"(R1.4) CalculateBatchReplicas and its twin clamp their result to [0, replicas] on every return, and every CalculateBatchContext derives the desired knob from a clamped source; (R1.5) step / batch replica percentages are scaled with roundUp=true at every call site (only maxUnavailable rounds down); " +
			"(R1.6) the executor never acts on a recomputed-but-unpersisted currentBatch (= C06 R6.2).",
		NotDecided:  "the numeric clauses: that ParseIntegerAsPercentageIfPossible restores to within 1%, that percentage steps track a scaled workload, any closed-loop statement about what the workload controller then does.",
		Assumptions: []string{"the direction table of the knobs (stable-count vs updated-count) is frozen in the rule and taken from the API meaning of partition / replicas / maxSurge"},
	})
}

func runC01(c *Ctx) {
	c.Rule("R1.1", "UpgradeBatch writes only when the present knob is behind the desired one (monotone knob, sibling rule)", 7)
	c.Rule("R1.2", "currentBatch only moves under batchPartition", 2)
	c.Rule("R1.3", "batchPartition written by the Rollout controller is currentStepIndex-1", 4)
	c.Rule("R1.4", "planned replica count is clamped to [0, replicas] and is what reaches the knob", 9)
	c.Rule("R1.5", "replica percentages are scaled with roundUp=true", 16)
	c.Rule("R1.6", "the executor acts only on a persisted status", 2)

	checkMonotoneKnob(c, "R1.1")
	checkCurrentBatchWriters(c, "R1.2")
	checkBatchPartitionProvenance(c, "R1.3")
	checkClamp(c, "R1.4")
	checkRoundUp(c, "R1.5")
	checkPersistBeforeAct(c, "R1.6")
}

// upgradeBatchImpls finds methods UpgradeBatch(ctx *BatchContext) error.
func upgradeBatchImpls(p *Program) []*ssa.Function {
	var out []*ssa.Function
	for _, fn := range p.RepoFuncs() {
		if fn.Name() != "UpgradeBatch" || fn.Signature.Recv() == nil || fn.Signature.Params().Len() != 1 {
			continue
		}
		if strings.HasSuffix(fn.Signature.Params().At(0).Type().String(), "context.BatchContext") {
			out = append(out, fn)
		}
	}
	return out
}

func checkMonotoneKnob(c *Ctx, rule string) {
	p := c.Prog
	impls := upgradeBatchImpls(p)
	if len(impls) < 7 {
		c.Ob(rule, "UpgradeBatch#implementations", 0, false, "UpgradeBatch(*BatchContext) implementations", fmt.Sprintf("anchor: expected >= 7, found %d", len(impls)))
	}
	ctxField := func(names ...string) M {
		return func(t *Term) bool {
			for _, n := range names {
				if t.Any(func(x *Term) bool {
					if x.Op != "field" || x.Name != n {
						return false
					}
					root, _ := x.FieldPath()
					return root.Op == "param" && root.V != nil && strings.HasSuffix(root.V.Type().String(), "context.BatchContext")
				}) {
					return true
				}
			}
			return false
		}
	}
	for _, fn := range impls {
		name := FuncName(fn)
		var need FactM
		var needDesc string
		switch {
		case strings.Contains(name, "partitionstyle/deployment."):
			need = func(f Fact) bool {
				if !(f.Op == "==" && f.R.Op == "const" && f.R.Name == "false" && f.L.Op == "call" && NameMatch(f.L.Name, "control.IsCurrentMoreThanOrEqualToDesired")) {
					return false
				}
				var args []ssa.Value
				if f.L.Call != nil {
					args = f.L.Call.Call.Args
				}
				if len(args) == 2 && SliceHas(args[0], MCall("util.GetDeploymentStrategy")) && SliceHas(args[0], func(t *Term) bool { return t.Op == "field" && t.Name == "Partition" }) && ctxField("DesiredPartition")(TermOf(args[1])) {
					return true
				}
				// the same on the terms of the fact (the comparison may sit in a predicate helper: the
				// engine then hands over the fact with the helper's parameters replaced by the arguments)
				if len(f.L.Args) == 2 {
					a0, a1 := f.L.Args[0], f.L.Args[1]
					decoded := a0.Any(MCall("util.GetDeploymentStrategy"))
					if !decoded {
						// an address-taken local that holds the decoded strategy
						a0.Any(func(x *Term) bool {
							if al, ok := x.V.(*ssa.Alloc); ok {
								for _, st := range AllocStoresOf(al) {
									if st.Addr == ssa.Value(al) {
										if call, isCall := Forwarded(st.Val).(*ssa.Call); isCall && strings.Contains(CalleeName(&call.Call), "GetDeploymentStrategy") {
											decoded = true
										}
									}
								}
							}
							return false
						})
					}
					return decoded && (MField("Partition")(a0) || a0.Any(MField("Partition"))) && ctxField("DesiredPartition")(a1)
				}
				return false
			}
			needDesc = "IsCurrentMoreThanOrEqualToDesired(decoded strategy partition, ctx.DesiredPartition) == false"
		case strings.Contains(name, "partitionstyle/"):
			need = FCmp(">", ctxField("CurrentPartition"), ctxField("DesiredPartition"))
			needDesc = "ctx.CurrentPartition > ctx.DesiredPartition (stable-count knob: only ever lowered)"
		case strings.Contains(name, "bluegreenstyle/"):
			need = FCmp("<", ctxField("CurrentSurge"), ctxField("DesiredSurge"))
			needDesc = "ctx.CurrentSurge < ctx.DesiredSurge (updated-count knob: only ever raised)"
		case strings.Contains(name, "canarystyle/"):
			need = FCmp("<", MField("canaryInfo", "Replicas"), ctxField("DesiredUpdatedReplicas"))
			needDesc = "canary replicas < ctx.DesiredUpdatedReplicas (updated-count knob: only ever raised)"
		default:
			c.Ob(rule, name+"#guard", fn.Pos(), false, "no-op guard of an UpgradeBatch implementation the direction table does not know", "undecided: new implementation; add its knob to the table")
			continue
		}
		writes := writeSitesIn(fn, nil)
		if len(writes) == 0 {
			c.Ob(rule, name+"#write", fn.Pos(), false, "workload write of UpgradeBatch", "anchor not found: no client write")
		}
		for _, w := range writes {
			reach, _ := CanReach(Entry(fn), func(in ssa.Instruction) bool { return in == w.(ssa.Instruction) }, ReachOpts{CutEdge: func(b *ssa.BasicBlock, k int) bool {
				return EdgeFactMatches(b, k, need)
			}})
			var have []string
			for _, f := range FactsAtInstr(w.(ssa.Instruction)) {
				have = append(have, f.String())
			}
			c.Ob(rule, name+"#write-behind-guard", w.Pos(), !reach, "the workload is patched only when its present knob is behind the desired one", ifs(reach, "write reachable without the edge "+needDesc)).Req(needDesc).WithFacts(FactsAtInstr(w.(ssa.Instruction)))
		}
	}
}

// checkCurrentBatchWriters re-evaluates R11.3 under another rule id.
func checkCurrentBatchWriters(c *Ctx, rule string) {
	p := c.Prog
	batchFld := p.FieldVar("api/v1beta1", "BatchReleaseCanaryStatus", "CurrentBatch")
	if batchFld == nil {
		c.Unresolved(rule, "BatchReleaseCanaryStatus.CurrentBatch")
		return
	}
	for _, fn := range p.RepoFuncs() {
		for _, st := range StoresToField(fn, func(fa *ssa.FieldAddr) bool { return TermOf(fa).Fld == batchFld }) {
			vt := TermOf(st.Val)
			construct := FuncName(fn) + "#store(CurrentBatch="
			switch {
			case vt.Op == "field" && vt.Name == "CurrentBatch":
				continue
			case vt.Op == "binop" && vt.Name == "+" && vt.Args[1].Op == "const" && vt.Args[1].Name == "1" && vt.Args[0].Op == "field" && vt.Args[0].Fld == batchFld:
				reach, _ := CanReach(Entry(fn), func(in ssa.Instruction) bool { return in == ssa.Instruction(st) }, ReachOpts{CutEdge: func(b *ssa.BasicBlock, k int) bool {
					return EdgeFactMatches(b, k, FOr(FNil(MField("BatchPartition")), FCmp(">", MHas(MField("BatchPartition")), MField("CurrentBatch"))))
				}})
				c.Ob(rule, construct+"+1)", st.Pos(), !reach, "currentBatch++ only below batchPartition", ifs(reach, "increment reachable without (BatchPartition == nil) or (*BatchPartition > CurrentBatch)"))
			case vt.Op == "const" && vt.Name == "0":
				c.Ob(rule, construct+"0)", st.Pos(), true, "reset to the first batch", "")
			default:
				okAll := true
				var leaves []string
				for _, lf := range LeavesDeep(st.Val, st.Block()) {
					lt := TermOf(lf.V)
					leaves = append(leaves, lt.String())
					if lt.Op == "const" && lt.Name == "0" {
						continue
					}
					isMin := lt.Op == "call" && (NameMatch(lt.Name, "integer.Int32Min") || lt.Name == "min")
					if isMin && lt.Any(MField("BatchPartition")) && lt.Any(MBin("-", MHas(MLen(MField("Batches"))), MConst("1"))) {
						continue
					}
					okAll = false
				}
				c.Ob(rule, construct+"recalculated)", st.Pos(), okAll, "recalculated currentBatch is 0 or min(batchPartition, len(batches)-1)", ifs(!okAll, "value not bounded by batchPartition and the plan length: "+strings.Join(leaves, " | ")))
			}
		}
	}
}

func checkBatchPartitionProvenance(c *Ctx, rule string) {
	p := c.Prog
	rm := p.NamedType("pkg/controller/rollout", "ReleaseManager")
	run := p.Func("pkg/controller/rollout.runBatchRelease")
	if rm == nil || run == nil {
		c.Unresolved(rule, "ReleaseManager / runBatchRelease")
		return
	}
	isParam := func(fn *ssa.Function, name string) M {
		return func(t *Term) bool { return t.Op == "param" && t.Name == name }
	}
	// (a) every createBatchRelease stores BatchPartition = &batch
	for _, fn := range p.Implementations(rm.Underlying().(*types.Interface), "createBatchRelease") {
		n := 0
		for _, st := range FieldStores([]*ssa.Function{fn}, "", "BatchPartition") {
			n++
			vt := TermOf(st.Val)
			ok := vt.Op == "call" && (NameMatch(vt.Name, "pointer.Int32") || NameMatch(vt.Name, "pointer.Int32Ptr")) && len(vt.Args) == 1 && isParam(fn, "batch")(vt.Args[0])
			c.Ob(rule, FuncName(fn)+"#BatchPartition", st.Pos(), ok, "BatchPartition = &batch (the argument, unmodified)", ifs(!ok, "BatchPartition is "+vt.String()))
		}
		if n == 0 {
			c.Ob(rule, FuncName(fn)+"#BatchPartition", fn.Pos(), false, "BatchPartition written by createBatchRelease", "anchor not found")
		}
	}
	// (b) runBatchRelease passes batch-1
	var creates []ssa.CallInstruction
	for _, fn := range p.RepoFuncs() {
		if fn.Pkg == run.Pkg {
			creates = append(creates, CallsIn(fn, "rollout.ReleaseManager.createBatchRelease")...)
		}
	}
	for _, call := range creates {
		args := call.Common().Args
		at := TermUp(args[len(args)-2], call.Parent())
		ok := at.Op == "binop" && at.Name == "-" && isParam(run, "batch")(at.Args[0]) && at.Args[1].Op == "const" && at.Args[1].Name == "1"
		c.Ob(rule, "runBatchRelease#createBatchRelease(batch-1)", call.Pos(), ok, "the BatchRelease is built for batch index step-1", ifs(!ok, "argument is "+at.String()))
	}
	// (c) callers pass the current step index
	for _, cs := range p.Callers(run) {
		if len(cs.Args) < 4 {
			continue
		}
		at := TermOf(cs.Args[3])
		ok := at.Op == "field" && at.Name == "CurrentStepIndex"
		c.Ob(rule, FuncName(cs.Caller)+"#runBatchRelease(step)", cs.Instr.Pos(), ok, "the step passed to runBatchRelease is the persisted CurrentStepIndex", ifs(!ok, "argument is "+at.String()))
	}
}

func checkClamp(c *Ctx, rule string) {
	p := c.Prog
	for _, name := range []string{"pkg/controller/batchrelease/control.CalculateBatchReplicas", "pkg/controller/batchrelease/labelpatch.calculateBatchReplicas"} {
		fn := p.Func(name)
		if fn == nil {
			c.Unresolved(rule, name)
			continue
		}
		isBound := func(t *Term) bool { return t.Op == "param" && t.Name == "workloadReplicas" }
		for _, ret := range returnsOf(fn) {
			for _, lf := range Leaves(ret.Results[0], ret.Block()) {
				t := TermOf(lf.V)
				ok := false
				switch {
				case isBound(t):
					ok = true
				case t.Op == "const" && t.Name == "0":
					ok = true
				default:
					same := func(x *Term) bool { return x.String() == t.String() }
					ok = HasFact(lf.Facts, FCmp("<=", same, isBound)) && HasFact(lf.Facts, FCmp(">=", same, MConst("0")))
				}
				c.Ob(rule, shortName(name)+"#return", ret.Pos(), ok, "returned batch size lies in [0, workloadReplicas]", ifs(!ok, "value "+t.String()+" returned without both bounds")).WithFacts(lf.Facts)
			}
		}
	}
	// desired knob derives from a clamped source
	for _, fn := range p.RepoFuncs() {
		if fn.Name() != "CalculateBatchContext" || fn.Signature.Recv() == nil || !strings.Contains(FuncName(fn), "pkg/controller/batchrelease/control/") {
			continue
		}
		name := FuncName(fn)
		var fields []string
		var source M
		var srcDesc string
		switch {
		case strings.Contains(name, "bluegreenstyle/deployment."):
			fields, source, srcDesc = []string{"DesiredUpdatedReplicas", "PlannedUpdatedReplicas"}, MCall("util.NewRSReplicasLimit"), "NewRSReplicasLimit"
		case strings.Contains(name, "bluegreenstyle/cloneset."):
			fields, source, srcDesc = []string{"DesiredUpdatedReplicas", "PlannedUpdatedReplicas"}, MCall("intstr.GetScaledValueFromIntOrPercent"), "GetScaledValueFromIntOrPercent(desiredSurge, replicas, true)"
		case strings.Contains(name, "partitionstyle/deployment."):
			// the partition itself is handed to the advanced deployment controller, which clamps it (NewRSReplicasLimit, C17)
			fields, source, srcDesc = []string{"DesiredUpdatedReplicas", "PlannedUpdatedReplicas"}, MCall("util.NewRSReplicasLimit"), "NewRSReplicasLimit"
			for _, st := range FieldStores([]*ssa.Function{fn}, "context.BatchContext", "DesiredPartition") {
				ok := SliceHas(st.Val, func(t *Term) bool { return t.Op == "field" && t.Name == "CanaryReplicas" }) && SliceHas(st.Val, MField("CanaryStatus", "CurrentBatch"))
				c.Ob(rule, name+"#DesiredPartition", st.Pos(), ok, "DesiredPartition is the plan's replicas of the current batch", ifs(!ok, "DesiredPartition does not come from Batches[CurrentBatch].CanaryReplicas"))
			}
		case strings.Contains(name, "canarystyle/"):
			fields, source, srcDesc = []string{"DesiredUpdatedReplicas"}, MCall("control.CalculateBatchReplicas"), "CalculateBatchReplicas"
		default:
			fields, source, srcDesc = []string{"DesiredPartition", "DesiredUpdatedReplicas", "PlannedUpdatedReplicas"}, MCall("control.CalculateBatchReplicas"), "CalculateBatchReplicas"
		}
		for _, f := range fields {
			sts := FieldStores([]*ssa.Function{fn}, "context.BatchContext", f)
			if len(sts) == 0 {
				c.Ob(rule, name+"#"+f, fn.Pos(), false, "context field "+f, "anchor not found: field is not set")
			}
			for _, st := range sts {
				ok := SliceHasDeep(st.Val, source)
				c.Ob(rule, name+"#"+f, st.Pos(), ok, f+" derives from "+srcDesc, ifs(!ok, "the value stored does not depend on "+srcDesc+": it bypasses the clamp"))
			}
		}
	}
}

func checkRoundUp(c *Ctx, rule string) {
	p := c.Prog
	for _, fn := range p.RepoFuncs() {
		for _, call := range CallsIn(fn, "intstr.GetScaledValueFromIntOrPercent") {
			args := call.Common().Args
			if len(args) != 3 {
				continue
			}
			ru := TermOf(args[2])
			ok := ru.Op == "const" && ru.Name == "true"
			if !ok && ru.Op == "const" && ru.Name == "false" {
				// only maxUnavailable rounds down (Kubernetes convention)
				ok = SliceHas(args[0], func(t *Term) bool {
					return (t.Op == "field" && t.Name == "MaxUnavailable") || (t.Op == "param" && strings.EqualFold(t.Name, "maxUnavailable"))
				})
			}
			c.Ob(rule, FuncName(fn)+"#scale", call.Pos(), ok, "percentage scaled with roundUp=true (only maxUnavailable rounds down)", ifs(!ok, "roundUp is "+ru.String()+": a fractional step is rounded differently from every sibling that computes the same quantity"))
		}
	}
}
