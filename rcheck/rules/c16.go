package rules

import (
	"fmt"
	"go/constant"
	"go/types"
	"sort"
	"strings"

	"golang.org/x/tools/go/ssa"

	. "verif/rcheck/engine"
)

func init() {
	register(&Prop{
		ID:    "C16",
		Whole: true,
		Run:   runC16,
		Explanation: "Decides the sandbox-surface and guard-placement clauses behind 'a Lua plugin cannot hang, crash or escape the controller' on the whole program including the gopher-lua library source: (R16.1) the set of library openers is read from RunLuaScript, the Go functions each opener registers are enumerated from the opener body and the package-level registration maps (exhaustive), and for every registered function the static call closure through non-standard-library code must not reach a file / process / network / environment entry point of the standard library — unless the function's global is set to nil before the script runs on every path; " +
			"(R16.2) the VM is created inside the call with SkipOpenLibs=true, no *LState is stored in a package variable or field, openers run protected; (R16.3) SetContext with a context from context.WithTimeout(_, d), d a constant <= 5s, precedes DoString on every path and the script is entered only through the protected DoString; " +
			"(R16.4) the JSON encoder descends into a table only after marking it visited, never un-marks, and rejects visited tables; (R16.5) both script callers turn a non-table result into an error.",
		NotDecided:  "that the VM honours the context inside Go-implemented library functions; memory / nesting bombs (outside the property); value round-trips through the conversion.",
		Assumptions: []string{"dynamic calls of LGFunction values are not followed: the VM can only call what is registered, which is the set being enumerated", "the closure follows static callees only; interface calls inside library functions are not followed"},
	})
}

var forbiddenStd = []string{
	"os.Open", "os.OpenFile", "os.Create", "os.ReadFile", "os.WriteFile", "os.Remove", "os.RemoveAll", "os.Rename", "os.Mkdir", "os.MkdirAll", "os.MkdirTemp",
	"os.ReadDir", "os.Stat", "os.Lstat", "os.Getenv", "os.LookupEnv", "os.Setenv", "os.Unsetenv", "os.Environ", "os.Exit", "os.StartProcess", "os.Chdir", "os.Getwd", "os.Hostname",
	"os.CreateTemp", "os.Chmod", "os.Chown", "os.Symlink", "os.Link", "os.Truncate", "os.Pipe",
	"io/ioutil.ReadFile", "io/ioutil.WriteFile", "io/ioutil.ReadDir", "io/ioutil.TempFile", "io/ioutil.TempDir",
	"plugin.Open",
}
var forbiddenStdPrefix = []string{"os/exec.", "net.Dial", "net.Listen", "net.Lookup", "net/http.", "syscall.", "os/signal."}

func isForbiddenStd(name string) bool {
	for _, f := range forbiddenStd {
		if name == f {
			return true
		}
	}
	for _, f := range forbiddenStdPrefix {
		if strings.HasPrefix(name, f) {
			return true
		}
	}
	return false
}

func isStdPkg(path string) bool {
	first := path
	if i := strings.Index(path, "/"); i >= 0 {
		first = path[:i]
	}
	return !strings.Contains(first, ".")
}

// forbiddenReach returns a call chain from fn to a forbidden standard-library entry point, if any.
func forbiddenReach(fn *ssa.Function, seen map[*ssa.Function]bool, depth int) []string {
	if fn == nil || seen[fn] || depth > 12 {
		return nil
	}
	seen[fn] = true
	for _, b := range fn.Blocks {
		for _, in := range b.Instrs {
			ci, ok := in.(ssa.CallInstruction)
			if !ok {
				continue
			}
			callee := ci.Common().StaticCallee()
			if callee == nil {
				continue
			}
			var pkgPath string
			if callee.Pkg != nil {
				pkgPath = callee.Pkg.Pkg.Path()
			} else if callee.Object() != nil && callee.Object().Pkg() != nil {
				pkgPath = callee.Object().Pkg().Path()
			}
			name := FuncName(callee)
			if isStdPkg(pkgPath) {
				if isForbiddenStd(name) {
					return []string{FuncName(fn), name}
				}
				continue
			}
			if chain := forbiddenReach(callee, seen, depth+1); chain != nil {
				return append([]string{FuncName(fn)}, chain...)
			}
		}
	}
	for _, an := range fn.AnonFuncs {
		if chain := forbiddenReach(an, seen, depth+1); chain != nil {
			return append([]string{FuncName(fn)}, chain...)
		}
	}
	return nil
}

func isLGFunction(t types.Type) bool {
	return strings.HasSuffix(t.String(), "gopher-lua.LGFunction")
}

// registeredBy enumerates (name, function) pairs an opener registers.
func registeredBy(p *Program, opener *ssa.Function) map[string]*ssa.Function {
	out := map[string]*ssa.Function{}
	add := func(name string, f *ssa.Function) {
		if f != nil {
			if name == "" {
				name = "?" + f.Name()
			}
			out[name] = f
		}
	}
	var globals []*ssa.Global
	for _, b := range opener.Blocks {
		for _, in := range b.Instrs {
			for _, op := range in.Operands(nil) {
				if *op == nil {
					continue
				}
				switch v := (*op).(type) {
				case *ssa.Global:
					globals = append(globals, v)
				case *ssa.Function:
					if sigIsLG(v) {
						// name: best effort from a neighbouring constant argument of the same call
						name := ""
						if ci, ok := in.(ssa.CallInstruction); ok {
							for _, a := range ci.Common().Args {
								if k, ok := a.(*ssa.Const); ok && k.Value != nil && k.Value.Kind() == constant.String {
									name = constant.StringVal(k.Value)
								}
							}
						}
						add(name, v)
					}
				}
			}
		}
	}
	// registration maps initialised in the package init
	for _, g := range globals {
		if g.Pkg == nil {
			continue
		}
		initFn := g.Pkg.Func("init")
		if initFn == nil {
			continue
		}
		// find the map stored into g
		var maps []ssa.Value
		for _, b := range initFn.Blocks {
			for _, in := range b.Instrs {
				if st, ok := in.(*ssa.Store); ok && st.Addr == ssa.Value(g) {
					maps = append(maps, st.Val)
				}
			}
		}
		// slices / arrays of functions (e.g. the package loaders): every LGFunction the stored value is built from
		for _, m := range maps {
			for x := range BackwardSlice(m) {
				switch f := x.(type) {
				case *ssa.Function:
					if sigIsLG(f) {
						add("?"+f.Name(), f)
					}
				case *ssa.ChangeType:
					if ff, ok := f.X.(*ssa.Function); ok && sigIsLG(ff) {
						add("?"+ff.Name(), ff)
					}
				}
			}
		}
		for _, m := range maps {
			if m.Referrers() == nil {
				continue
			}
			for _, r := range *m.Referrers() {
				if mu, ok := r.(*ssa.MapUpdate); ok && mu.Map == m {
					name := ""
					if k, ok := mu.Key.(*ssa.Const); ok && k.Value != nil && k.Value.Kind() == constant.String {
						name = constant.StringVal(k.Value)
					}
					switch f := mu.Value.(type) {
					case *ssa.Function:
						add(name, f)
					case *ssa.MakeClosure:
						if ff, ok := f.Fn.(*ssa.Function); ok {
							add(name, ff)
						}
					case *ssa.ChangeType:
						if ff, ok := f.X.(*ssa.Function); ok {
							add(name, ff)
						}
					}
				}
			}
		}
	}
	return out
}

// globalInitElems: the string constants and functions the package initialiser puts into the
// composite value of a package-level variable, and whether anything outside the initialiser
// writes the variable or its elements.
func globalInitElems(p *Program, g *ssa.Global) (consts []string, fns []*ssa.Function, mutated bool) {
	if g.Pkg == nil {
		return nil, nil, true
	}
	initFn := g.Pkg.Func("init")
	if initFn == nil {
		return nil, nil, true
	}
	rootOf := func(addr ssa.Value) ssa.Value {
		for i := 0; i < 32; i++ {
			switch y := addr.(type) {
			case *ssa.IndexAddr:
				addr = y.X
				continue
			case *ssa.FieldAddr:
				addr = y.X
				continue
			case *ssa.Slice:
				addr = y.X
				continue
			}
			break
		}
		return addr
	}
	backing := map[ssa.Value]bool{g: true}
	for _, b := range initFn.Blocks {
		for _, in := range b.Instrs {
			if st, ok := in.(*ssa.Store); ok && st.Addr == ssa.Value(g) {
				for x := range BackwardSlice(st.Val) {
					if al, ok := x.(*ssa.Alloc); ok {
						backing[al] = true
					}
				}
			}
		}
	}
	for _, b := range initFn.Blocks {
		for _, in := range b.Instrs {
			st, ok := in.(*ssa.Store)
			if !ok || !backing[rootOf(st.Addr)] {
				continue
			}
			switch v := st.Val.(type) {
			case *ssa.Const:
				if v.Value != nil && v.Value.Kind() == constant.String {
					consts = append(consts, constant.StringVal(v.Value))
				}
			case *ssa.Function:
				fns = append(fns, v)
			case *ssa.ChangeType:
				if f, ok := v.X.(*ssa.Function); ok {
					fns = append(fns, f)
				}
			case *ssa.MakeClosure:
				if f, ok := v.Fn.(*ssa.Function); ok {
					fns = append(fns, f)
				}
			}
		}
	}
	for _, fn := range p.RepoFuncs() {
		if fn == initFn {
			continue
		}
		for _, b := range fn.Blocks {
			for _, in := range b.Instrs {
				if st, ok := in.(*ssa.Store); ok {
					r := rootOf(st.Addr)
					if r == ssa.Value(g) {
						mutated = true
					}
					if u, ok := r.(*ssa.UnOp); ok && u.X == ssa.Value(g) {
						mutated = true
					}
				}
			}
		}
	}
	sort.Strings(consts)
	return consts, fns, mutated
}

func sigIsLG(f *ssa.Function) bool {
	s := f.Signature
	return s.Params().Len() == 1 && strings.HasSuffix(s.Params().At(0).Type().String(), "gopher-lua.LState") && s.Results().Len() == 1 && s.Results().At(0).Type().String() == "int"
}

func runC16(c *Ctx) {
	p := c.Prog
	c.Rule("R16.1", "no registered library function reaches file/process/network/env entry points unless its global is removed before the script runs (exhaustive over registered functions)", 50)
	c.Rule("R16.2", "fresh VM per call, SkipOpenLibs=true, openers protected, no shared *LState", 3)
	c.Rule("R16.3", "a constant deadline <= 5s is installed before the script is entered through DoString", 3)
	c.Rule("R16.4", "JSON encoder marks tables before descending and never un-marks", 3)
	c.Rule("R16.5", "non-table script results become errors", 2)

	run := p.Func("pkg/util/luamanager.LuaManager.RunLuaScript")
	if run == nil {
		c.Unresolved("R16.1", "LuaManager.RunLuaScript")
		return
	}
	// ---- openers: functions of LGFunction signature referenced in RunLuaScript
	var openers []*ssa.Function
	seenOp := map[*ssa.Function]bool{}
	// RunLuaScript and the same-package helpers it calls (the opening of libraries may be extracted)
	scope := samePkgClosure(p, run)
	var scopeBlocks []*ssa.BasicBlock
	for _, f := range scope {
		scopeBlocks = append(scopeBlocks, f.Blocks...)
	}
	for _, b := range scopeBlocks {
		for _, in := range b.Instrs {
			for _, op := range in.Operands(nil) {
				if f, ok := (*op).(*ssa.Function); ok && sigIsLG(f) && !seenOp[f] {
					seenOp[f] = true
					openers = append(openers, f)
				}
				if ct, ok := (*op).(*ssa.ChangeType); ok {
					if f, ok := ct.X.(*ssa.Function); ok && sigIsLG(f) && !seenOp[f] {
						seenOp[f] = true
						openers = append(openers, f)
					}
				}
			}
		}
	}
	// ... or listed in a package-level table that RunLuaScript (or a helper) reads
	scopeGlobals := map[*ssa.Global]bool{}
	for _, b := range scopeBlocks {
		for _, in := range b.Instrs {
			for _, op := range in.Operands(nil) {
				if g, ok := (*op).(*ssa.Global); ok && g.Pkg == run.Pkg {
					scopeGlobals[g] = true
				}
			}
		}
	}
	for g := range scopeGlobals {
		_, fns, _ := globalInitElems(p, g)
		for _, f := range fns {
			if sigIsLG(f) && !seenOp[f] {
				seenOp[f] = true
				openers = append(openers, f)
			}
		}
	}
	sort.Slice(openers, func(i, j int) bool { return FuncName(openers[i]) < FuncName(openers[j]) })
	if len(openers) < 5 {
		c.Ob("R16.1", "RunLuaScript#openers", run.Pos(), false, "library openers (math, base, table, string, json)", fmt.Sprintf("anchor: expected >= 5, found %d", len(openers)))
	}
	// globals removed before DoString on every path
	dos := CallsIn(run, "gopher-lua.LState.DoString")
	removed := map[string]bool{}
	for _, sg := range CallsIn(run, "gopher-lua.LState.SetGlobal") {
		args := sg.Common().Args
		if len(args) != 3 {
			continue
		}
		name := TermOf(args[1])
		val := TermOf(args[2])
		if !(val.Op == "global" && strings.HasSuffix(val.Name, ".LNil")) {
			continue
		}
		if name.Op != "const" {
			// `for _, n := range forbidden { l.SetGlobal(n, lua.LNil) }` over a package-level list of
			// constants that nothing else writes: every listed name is removed, provided the loop
			// itself lies on every path to DoString
			var names []string
			okList := false
			for x := range BackwardSlice(args[1]) {
				g, isG := x.(*ssa.Global)
				if !isG || g.Pkg != run.Pkg {
					continue
				}
				cs, _, mutated := globalInitElems(p, g)
				if len(cs) > 0 && !mutated {
					names, okList = cs, true
				}
			}
			if !okList {
				continue
			}
			loop := loopBlocks(sg.Block())
			all := len(dos) > 0 && loop[sg.Block()]
			for _, d := range dos {
				if r, _ := CanReach(Entry(run), func(in ssa.Instruction) bool { return in == d.(ssa.Instruction) }, ReachOpts{CutInstr: func(in ssa.Instruction) bool { return loop[in.Block()] }}); r {
					all = false
				}
			}
			// inside the loop nothing skips the call: from the loop's entry block the header cannot be
			// reached again (next iteration / exit test) without passing the call
			if all {
				for hb := range loop {
					isHeader := false
					for _, pr := range hb.Preds {
						if !loop[pr] {
							isHeader = true
						}
					}
					if !isHeader {
						continue
					}
					for _, sb := range hb.Succs {
						if !loop[sb] {
							continue
						}
						if r, _ := CanReach(Point{Block: sb}, func(in ssa.Instruction) bool { return in.Block() == hb }, ReachOpts{CutInstr: func(in ssa.Instruction) bool { return in == sg.(ssa.Instruction) }}); r && sb != hb {
							all = false
						}
					}
				}
			}
			if all {
				for _, n := range names {
					removed[n] = true
				}
			}
			continue
		}
		all := len(dos) > 0
		for _, d := range dos {
			if r, _ := CanReach(Entry(run), func(in ssa.Instruction) bool { return in == d.(ssa.Instruction) }, ReachOpts{CutInstr: func(in ssa.Instruction) bool { return in == sg.(ssa.Instruction) }}); r {
				all = false
			}
		}
		if all {
			removed[name.Name] = true
		}
	}
	// the removal may have been extracted into a helper that RunLuaScript calls on every path to DoString
	helperNames := map[string]bool{}
	for _, f := range scope {
		if f == run {
			continue
		}
		for _, sg := range CallsIn(f, "gopher-lua.LState.SetGlobal") {
			args := sg.Common().Args
			if len(args) != 3 {
				continue
			}
			name, val := TermOf(args[1]), TermOf(args[2])
			if name.Op == "const" && val.Op == "global" && strings.HasSuffix(val.Name, ".LNil") {
				helperNames[name.Name] = true
			}
		}
	}
	for nm := range helperNames {
		nm := nm
		removes := MustDo(func(in ssa.Instruction) bool {
			ci, ok := in.(ssa.CallInstruction)
			if !ok || !NameMatch(CalleeName(ci.Common()), "gopher-lua.LState.SetGlobal") || len(ci.Common().Args) != 3 {
				return false
			}
			name, val := TermOf(ci.Common().Args[1]), TermOf(ci.Common().Args[2])
			return name.Op == "const" && name.Name == nm && val.Op == "global" && strings.HasSuffix(val.Name, ".LNil")
		})
		all := len(dos) > 0
		for _, d := range dos {
			if r, _ := CanReach(Entry(run), func(in ssa.Instruction) bool { return in == d.(ssa.Instruction) }, ReachOpts{CutInstr: removes}); r {
				all = false
			}
		}
		if all {
			removed[nm] = true
		}
	}
	var opened []string
	total := 0
	for _, op := range openers {
		opened = append(opened, FuncName(op))
		reg := registeredBy(p, op)
		var names []string
		for n := range reg {
			names = append(names, n)
		}
		sort.Strings(names)
		if len(names) == 0 {
			c.Ob("R16.1", shortName(FuncName(op))+"#registered", op.Pos(), false, "functions registered by "+FuncName(op), "anchor not found: no registered function recognised")
		}
		for _, n := range names {
			f := reg[n]
			total++
			chain := forbiddenReach(f, map[*ssa.Function]bool{}, 0)
			ok := chain == nil || removed[n]
			det := ""
			if !ok {
				det = "script-callable `" + n + "` reaches " + strings.Join(chain, " → ") + " and is not removed (SetGlobal(\"" + n + "\", LNil)) before DoString"
			}
			what := "registered function " + n + " (" + shortName(FuncName(f)) + ")"
			if chain != nil && removed[n] {
				what += " — reaches " + chain[len(chain)-1] + ", removed before the script runs"
			}
			c.Ob("R16.1", shortName(FuncName(op))+"#fn("+n+")", f.Pos(), ok, what, det)
		}
	}
	// ---- R16.13: a registered function that calls back into the state from an uncounted Go loop
	// (its exit depends on what the callee returns) never passes the VM loop where the deadline is
	// checked when the callee is itself a Go function: such a function must be removed, too
	c.Rule("R16.13", "no script-callable Go function loops on a callback without a counted bound, unless its global is removed", 1)
	nLoop := 0
	for _, op := range openers {
		reg := registeredBy(p, op)
		var names []string
		for n := range reg {
			names = append(names, n)
		}
		sort.Strings(names)
		for _, n := range names {
			f := reg[n]
			where := uncountedCallbackLoop(f)
			if where == nil {
				continue
			}
			nLoop++
			c.Ob("R16.13", shortName(FuncName(op))+"#loop("+n+")", f.Pos(), removed[n], "script-callable `"+n+"` ("+shortName(FuncName(f))+") drives a callback from a Go loop that only the callback's result ends — removed before the script runs",
				ifs(!removed[n], "`"+n+"` is left in the sandbox: with a reader / callback that is itself a Go function (e.g. math.random) the loop at "+p.Pos(where.Pos())+" never re-enters the interpreter loop, the 1s deadline is never checked, and RunLuaScript does not return — the reconcile worker is blocked for good"))
		}
	}
	if nLoop == 0 {
		c.Ob("R16.13", "registered#uncounted-callback-loops", run.Pos(), false, "library functions with an uncounted callback loop (base.load)", "anchor not found: the detector no longer recognises base.load")
	}
	c.Extra["openers"] = opened
	c.Extra["registered_functions"] = total
	c.Extra["exhaustive_registered_functions"] = true

	// ---- R16.2
	ns := CallsIn(run, "gopher-lua.NewState")
	if len(ns) != 1 {
		c.Ob("R16.2", "RunLuaScript#NewState", run.Pos(), false, "one VM created per call", fmt.Sprintf("found %d NewState calls", len(ns)))
	} else {
		ok := false
		// the Options literal has SkipOpenLibs = true
		for _, st := range FieldStores([]*ssa.Function{run}, "", "SkipOpenLibs") {
			if v, isC := StoredConst(st); isC && v == "true" {
				ok = true
			}
		}
		c.Ob("R16.2", "RunLuaScript#SkipOpenLibs", ns[0].Pos(), ok, "the VM is created without the default libraries (os, io, package, debug, ...)", ifs(!ok, "Options.SkipOpenLibs is not the constant true"))
	}
	shared := ""
	for _, fn := range p.RepoFuncs() {
		for _, b := range fn.Blocks {
			for _, in := range b.Instrs {
				st, ok := in.(*ssa.Store)
				if !ok || !strings.HasSuffix(st.Val.Type().String(), "gopher-lua.LState") {
					continue
				}
				switch st.Addr.(type) {
				case *ssa.Global, *ssa.FieldAddr:
					shared = "an *LState is stored in shared memory at " + p.Pos(st.Pos())
				}
			}
		}
	}
	c.Ob("R16.2", "LState#not-shared", run.Pos(), shared == "", "no VM state is kept in a package variable or struct field", shared)
	prot := false
	for _, st := range FieldStores(scope, "", "Protect") {
		if v, isC := StoredConst(st); isC && v == "true" {
			prot = true
		}
	}
	c.Ob("R16.2", "RunLuaScript#openers-protected", run.Pos(), prot, "openers are called with Protect: true", ifs(!prot, "P.Protect is not the constant true"))

	// ---- R16.3
	if len(dos) == 0 {
		c.Ob("R16.3", "RunLuaScript#DoString", run.Pos(), false, "script entry", "anchor not found: DoString is not called")
	}
	for _, d := range dos {
		okCtx := false
		var why string
		for _, sc := range CallsIn(run, "gopher-lua.LState.SetContext") {
			ctxArg := sc.Common().Args[1]
			t := TermOf(ctxArg)
			if !(t.Op == "extract" && NameMatch(t.Name, "context.WithTimeout") && t.Idx == 0) {
				why = "SetContext argument is not the context returned by context.WithTimeout"
				continue
			}
			wt := t.Args[0]
			dur := wt.Args[1]
			k, isK := dur.V.(*ssa.Const)
			if !isK || k.Value == nil {
				why = "the timeout is not a constant"
				continue
			}
			ns64, exact := constant.Int64Val(k.Value)
			if !exact || ns64 <= 0 || ns64 > 5_000_000_000 {
				why = fmt.Sprintf("the timeout constant is %d ns (allowed: 0 < d <= 5s)", ns64)
				continue
			}
			if r, _ := CanReach(Entry(run), func(in ssa.Instruction) bool { return in == d.(ssa.Instruction) }, ReachOpts{CutInstr: func(in ssa.Instruction) bool { return in == sc.(ssa.Instruction) }}); r {
				why = "DoString is reachable without SetContext"
				continue
			}
			okCtx = true
		}
		c.Ob("R16.3", "RunLuaScript#deadline-before-run", d.Pos(), okCtx, "a deadline of at most 5s is installed before the script runs", ifs(!okCtx, why))
	}
	unprot := ""
	for _, fn := range p.RepoFuncs() {
		if !strings.HasPrefix(FuncName(fn), "pkg/") {
			continue
		}
		for _, call := range AllCalls(fn) {
			n := CalleeName(call.Common())
			if NameMatch(n, "gopher-lua.LState.Call") || NameMatch(n, "gopher-lua.LState.DoFile") {
				unprot = FuncName(fn) + " enters the VM through " + n + " at " + p.Pos(call.Pos())
			}
			if NameMatch(n, "gopher-lua.LState.DoString") && fn != run {
				unprot = FuncName(fn) + " runs a script outside RunLuaScript at " + p.Pos(call.Pos())
			}
		}
	}
	c.Ob("R16.3", "repo#script-entry", run.Pos(), unprot == "", "scripts are entered only through RunLuaScript's protected DoString", unprot)
	defClose := false
	for _, b := range run.Blocks {
		for _, in := range b.Instrs {
			if df, ok := in.(*ssa.Defer); ok && strings.HasSuffix(CalleeName(df.Common()), "context.CancelFunc") || func() bool {
				df, ok := in.(*ssa.Defer)
				return ok && CalleeName(df.Common()) == "dyn"
			}() {
				defClose = true
			}
		}
	}
	c.Ob("R16.3", "RunLuaScript#cancel", run.Pos(), defClose, "the timeout context is cancelled when the call returns", ifs(!defClose, "no deferred cancel"))

	// ---- R16.4
	if fn := p.Func("pkg/util/luamanager.jsonValue.MarshalJSON"); fn == nil {
		c.Unresolved("R16.4", "jsonValue.MarshalJSON")
	} else {
		var marks []*ssa.MapUpdate
		unmark := ""
		// the encoder may be split into helpers (table / array / object): the rule covers MarshalJSON
		// and everything of the package it reaches
		encFns := samePkgClosure(p, fn)
		for _, ef := range encFns {
			for _, b := range ef.Blocks {
				for _, in := range b.Instrs {
					switch x := in.(type) {
					case *ssa.MapUpdate:
						if TermOf(x.Map).Any(MField("visited")) {
							if v := TermOf(x.Value); v.Op == "const" && v.Name == "true" {
								marks = append(marks, x)
							} else {
								unmark = "visited[...] is reset at " + p.Pos(x.Pos())
							}
						}
					case ssa.CallInstruction:
						if CalleeName(x.Common()) == "delete" && len(x.Common().Args) > 0 && TermOf(x.Common().Args[0]).Any(MField("visited")) {
							unmark = "a table is removed from visited at " + p.Pos(x.Pos()) + ": the children are encoded later (inside json.Marshal), so a cyclic table recurses without bound"
						}
					}
				}
			}
		}
		c.Ob("R16.4", "MarshalJSON#never-unmark", fn.Pos(), unmark == "", "a visited table stays marked", unmark)
		isMark := func(in ssa.Instruction) bool {
			for _, mk := range marks {
				if in == ssa.Instruction(mk) {
					return true
				}
			}
			return false
		}
		// markedBefore: on every path to `at` (through the chain of same-package callers, when the
		// function holding `at` is a helper) a mark has been executed
		var markedBefore func(at ssa.Instruction, depth int) bool
		markedBefore = func(at ssa.Instruction, depth int) bool {
			f := at.Parent()
			if r, _ := CanReach(Entry(f), func(in ssa.Instruction) bool { return in == at }, ReachOpts{CutInstr: isMark}); !r {
				return true
			}
			if f == fn || depth >= 3 {
				return false
			}
			cs := p.Callers(f)
			if len(cs) == 0 {
				return false
			}
			for _, site := range cs {
				if site.Kind != "static" || site.Instr == nil || !markedBefore(site.Instr, depth+1) {
					return false
				}
			}
			return true
		}
		// every nested json.Marshal of children happens after the mark and under visited == false
		n := 0
		for _, ef := range encFns {
			for _, call := range CallsIn(ef, "encoding/json.Marshal") {
				fs := FactsAtInstr(call.(ssa.Instruction))
				// children: the argument is a slice or map of jsonValue built here
				isChildren := false
				for x := range BackwardSlice(call.Common().Args[0]) {
					ts := x.Type().String()
					if (strings.HasPrefix(ts, "[]") || strings.HasPrefix(ts, "map[")) && strings.Contains(ts, "jsonValue") {
						isChildren = true
					}
				}
				if !isChildren {
					continue
				}
				n++
				marked := len(marks) > 0 && markedBefore(call.(ssa.Instruction), 0)
				guard := HasFact(fs, FFalse(func(t *Term) bool { return t.Op == "lookup" && t.Args[0].Any(MField("visited")) }))
				c.Ob("R16.4", "MarshalJSON#descend", call.Pos(), marked && guard, "children are encoded only for a table that was not visited and has been marked", ifs(!(marked && guard), "descent without visited[t]==false check or before visited[t]=true")).WithFacts(fs)
			}
		}
		if n == 0 {
			c.Ob("R16.4", "MarshalJSON#descend", fn.Pos(), false, "recursive descent sites", "anchor not found")
		}
	}

	// ---- R16.5
	for _, fn := range p.FuncsMatching("executeLuaForCanary") {
		bad := ""
		nOK := 0
		// success returns of fn, or of a same-package helper whose error result fn hands on
		var scan func(f *ssa.Function, depth int)
		scan = func(f *ssa.Function, depth int) {
			for _, ret := range returnsOf(f) {
				errRes := ret.Results[len(ret.Results)-1]
				for _, lf := range Leaves(Forwarded(errRes), ret.Block()) {
					v := Forwarded(lf.V)
					if t := TermOf(v); t.Op == "const" && t.Name == "nil" {
						nOK++
						fs := append(append([]Fact{}, lf.Facts...), FactsAtInstr(ret)...)
						if !HasFact(fs, isLuaTableFact) && reachedWithoutTableTest(f, ret) {
							bad = "a nil error is returned without the result having been checked to be a table (" + p.Pos(ret.Pos()) + ")"
						}
						continue
					}
					{
						// handed on under `err != nil`: not a success of this function, whatever the callee does
						fs0 := append(append([]Fact{}, lf.Facts...), FactsAtInstr(ret)...)
						vt0 := TermOf(v).String()
						if HasFact(fs0, FNotNil(func(t *Term) bool { return t.String() == vt0 })) {
							continue
						}
					}
					if ex, ok := v.(*ssa.Extract); ok && depth < 2 {
						if call, ok := ex.Tuple.(*ssa.Call); ok {
							if h := call.Call.StaticCallee(); h != nil && h.Pkg == fn.Pkg && h.Blocks != nil && ex.Index == h.Signature.Results().Len()-1 {
								scan(h, depth+1)
								continue
							}
						}
					}
					// a single-exit form hands back the error variable itself: the error result of a
					// call (decode, unmarshal) that is not known to be non-nil here can be nil — a success
					var callee *ssa.Function
					switch x := v.(type) {
					case *ssa.Extract:
						if call, ok := x.Tuple.(*ssa.Call); ok {
							callee = call.Call.StaticCallee()
						}
					case *ssa.Call:
						callee = x.Call.StaticCallee()
					}
					if callee == nil || (callee.Pkg != nil && (callee.Pkg.Pkg.Path() == "fmt" || callee.Pkg.Pkg.Path() == "errors")) {
						continue
					}
					fs := append(append([]Fact{}, lf.Facts...), FactsAtInstr(ret)...)
					vt := TermOf(v).String()
					if HasFact(fs, FNotNil(func(t *Term) bool { return t.String() == vt })) {
						continue
					}
					nOK++
					if !HasFact(fs, isLuaTableFact) {
						bad = "an error that may be nil is returned without the result having been checked to be a table (" + p.Pos(ret.Pos()) + ")"
					}
				}
			}
		}
		scan(fn, 0)
		if nOK == 0 {
			bad = "no success return recognised"
		}
		c.Ob("R16.5", FuncName(fn)+"#table-or-error", fn.Pos(), bad == "", "success only for a table result", bad)
	}
}

// uncountedCallbackLoop returns a call instruction inside a cycle of f that calls back into the
// Lua state ((*LState).Call / PCall / CallByParam) when no block of that cycle tests a loop
// counter or a range iterator — i.e. only what the callee returns can end the loop.
func uncountedCallbackLoop(f *ssa.Function) ssa.Instruction {
	if f == nil || f.Blocks == nil {
		return nil
	}
	for _, b := range f.Blocks {
		for _, in := range b.Instrs {
			ci, ok := in.(ssa.CallInstruction)
			if !ok {
				continue
			}
			cn := CalleeName(ci.Common())
			if !(NameMatch(cn, "gopher-lua.LState.Call") || NameMatch(cn, "gopher-lua.LState.PCall") || NameMatch(cn, "gopher-lua.LState.CallByParam")) {
				continue
			}
			cyc := loopBlocks(b)
			if !cyc[b] {
				continue
			}
			counted := false
			for x := range cyc {
				if len(x.Instrs) == 0 {
					continue
				}
				iff, ok := x.Instrs[len(x.Instrs)-1].(*ssa.If)
				if !ok {
					continue
				}
				// an exit test that depends on a loop counter (directly, or through what is fetched at
				// that index) or on a range iterator bounds the loop
				for v := range BackwardSlice(iff.Cond) {
					switch y := v.(type) {
					case *ssa.Phi:
						if isInductionVar(y) && cyc[y.Block()] {
							counted = true
						}
					case *ssa.Next:
						counted = true
					}
				}
			}
			if !counted {
				return in
			}
		}
	}
	return nil
}

// isLuaTableFact: the script result was tested to be a table — by its Type(), or by a checked
// assertion / type switch to *lua.LTable that succeeded.
var isLuaTableFact = FOr(FCmp("==", MCall("gopher-lua.LValue.Type"), MAny()), FTrue(func(t *Term) bool {
	ex, ok := t.V.(*ssa.Extract)
	if !ok || ex.Index != 1 {
		return false
	}
	ta, ok := ex.Tuple.(*ssa.TypeAssert)
	return ok && strings.HasSuffix(ta.AssertedType.String(), "gopher-lua.LTable")
}))

// reachedWithoutTableTest: the single-exit form — the table test does not dominate the success
// return, but every feasible path to it (branches on the error variable folded with the value it
// has on the path) crosses the edge on which the result was found to be a table.
func reachedWithoutTableTest(g *ssa.Function, ret *ssa.Return) bool {
	hit := WalkCP(Entry(g), nil, func(in ssa.Instruction) bool { return in == ssa.Instruction(ret) }, ReachOpts{CutEdge: func(b *ssa.BasicBlock, k int) bool {
		return EdgeFactMatches(b, k, isLuaTableFact)
	}})
	return len(hit) > 0
}
