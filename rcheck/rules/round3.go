package rules

// Rules added after the third round of seeded changes.

import (
	"fmt"
	"go/constant"
	"go/types"
	"strings"

	"golang.org/x/tools/go/ssa"

	. "verif/rcheck/engine"
)

func init() {
	extend := func(id string, expl string, extra func(c *Ctx)) {
		pr := Registry[id]
		old := pr.Run
		pr.Run = func(c *Ctx) { old(c); extra(c) }
		pr.Explanation += " " + expl
	}
	imp := func(id, from string, mapping map[string]string, expl string) {
		extend(id, expl, func(c *Ctx) {
			importFrom(c, from, mapping)
		})
	}
	extend("C08", "(R8.7) while a partition-style Deployment release is in progress, every admitted update passes the revision-change test, and a revision change freezes the advanced-deployment strategy (strategy.paused = true in the annotation that is written back) before the annotation is written.", r3C08)
	imp("C01", "C08", map[string]string{"R8.7": "R1.9"}, "(R1.9 = C08 R8.7) a new revision pushed during a partition-style Deployment release is frozen by the webhook: otherwise the advanced controller rolls it to the old partition before the Rollout restarts at step one.")
	imp("C10", "C08", map[string]string{"R8.7": "R10.6"}, "(R10.6 = C08 R8.7) rollback / supersession of a partition-style Deployment freezes the workload at admission, so no pod is replaced before traffic was put back.")
	extend("C04", "(R4.5b) IsRealPartition answers 'not partition' only for blue-green, empty strategies, and canary style on a workload whose kind was compared (the native Deployment): every other kind is released in place and needs the un-pin / skip-routing treatment of the full-replica step.", r3C04)
	extend("C06", "(R6.7) in every Initialize the write that sets the re-entry marker (the control-info annotation that makes Initialize return early) is the last API write: a crash after it cannot leave an earlier preparation step undone for good.", r3C06)
	extend("C09", "(R9.2c) both update validators consult the stored object's phase before any return (no short-cut around the immutability checks); (R9.4) results of finder functions that can be (nil, nil) are dereferenced only under a nil check.", r3C09)
	extend("C11", "(R11.7) both waitAllUpdatedAndReady siblings compare observed status counters (all existing pods updated / ready, available within maxUnavailable of the existing pods), not the desired size: during a surge the desired size is reached while old pods still run.", r3C11)
	extend("C12", "(R12.7) a pod matches a revision only through a non-empty revision label (an empty label value is a suffix of every revision).", r3C12)
	extend("C13", "(R13.7) the canary rule generated for a match step carries exactly one backend, the canary Service: Finalise recognises generated rules by 'nothing left once the canary backend is removed'.", r3C13)
	imp("C05", "C13", map[string]string{"R13.7": "R5.7"}, "(R5.7 = C13 R13.7) generated HTTPRoute rules stay recognisable for Finalise, so none survives the rollout.")
	extend("C17", "(R17.6) a scale event is consumed: in the proportional-scaling loop every active ReplicaSet reaches the refresh of its desired-replicas annotation even when its size does not change (no size-equality short-cut on the way), otherwise isScalingEvent stays true and the rolling limits are never applied again.", r3C17)
}

// ---------------------------------------------------------------- C08 R8.7

func r3C08(c *Ctx) {
	p := c.Prog
	c.Rule("R8.7", "a revision change during a partition-style Deployment release freezes the strategy before it is written back", 2)
	fn := p.Func("pkg/webhook/workload/mutating.WorkloadHandler.handleDeployment")
	if fn == nil {
		c.Unresolved("R8.7", "handleDeployment")
		return
	}
	// the write-back may sit in handleDeployment or in a helper the in-progress branch was extracted into
	var writes []ssa.CallInstruction
	for _, hf := range samePkgClosure(p, fn) {
		if strings.HasSuffix(FuncName(hf), "setDeploymentStrategyAnnotation") {
			continue
		}
		writes = append(writes, CallsIn(hf, "mutating.setDeploymentStrategyAnnotation")...)
	}
	if len(writes) == 0 {
		c.Ob("R8.7", "handleDeployment#strategy-write", fn.Pos(), false, "strategy annotation written back", "anchor not found")
		return
	}
	isRevTest := func(in ssa.Instruction) bool {
		ci, ok := in.(ssa.CallInstruction)
		return ok && NameMatch(CalleeName(ci.Common()), "mutating.isEffectiveDeploymentRevisionChange")
	}
	isFreeze := func(in ssa.Instruction) bool {
		st, ok := in.(*ssa.Store)
		if !ok {
			return false
		}
		fa, ok := st.Addr.(*ssa.FieldAddr)
		if !ok {
			return false
		}
		n, owner := FieldOf(fa)
		if n != "Paused" || !strings.HasSuffix(owner, "DeploymentStrategy") || strings.HasSuffix(owner, "apps/v1.DeploymentStrategy") {
			return false
		}
		v, isC := StoredConst(st)
		return isC && v == "true"
	}
	outer := fn
	for _, w := range writes {
		wi := w.(ssa.Instruction)
		fn := wi.Parent()
		_ = outer
		only := func(in ssa.Instruction) bool { return in == wi }
		skip, _ := CanReach(Entry(fn), only, ReachOpts{CutInstr: isRevTest})
		c.Ob("R8.7", "handleDeployment#revision-tested", w.Pos(), !skip, "the strategy is written back only after the update was tested for a revision change", ifs(skip, "the write is reachable without isEffectiveDeploymentRevisionChange: an update that also carries rollingUpdate (a full-manifest apply) skips the freeze"))
		bad := false
		for _, b := range fn.Blocks {
			for k := range b.Succs {
				if !EdgeFactMatches(b, k, FTrue(MCall("mutating.isEffectiveDeploymentRevisionChange"))) {
					continue
				}
				if r, _ := CanReach(Point{Block: b.Succs[k]}, only, ReachOpts{CutInstr: isFreeze}); r {
					bad = true
				}
			}
		}
		c.Ob("R8.7", "handleDeployment#freeze-on-change", w.Pos(), !bad, "on a revision change strategy.paused = true is stored before the annotation is written", ifs(bad, "from the revision-change edge the write is reachable without strategy.Paused = true (pausing the Deployment spec does not stop the advanced controller)"))
	}
}

// ---------------------------------------------------------------- C04 R4.5b

func r3C04(c *Ctx) {
	p := c.Prog
	c.Rule("R4.5b", "IsRealPartition is false only for blue-green, empty strategies and canary style on a kind-checked workload", 3)
	fn := p.Func("api/v1beta1.IsRealPartition")
	if fn == nil {
		c.Unresolved("R4.5b", "IsRealPartition")
		return
	}
	n := 0
	for _, ret := range returnsOf(fn) {
		for _, lf := range BoolLeaves(ret.Results[0], ret.Block()) {
			k, ok := lf.V.(*ssa.Const)
			if !ok || constText(k) != "false" {
				continue
			}
			n++
			fs := append(FactsAtInstr(ret), lf.Facts...)
			empty := HasFact(fs, FTrue(MCall("RolloutStrategy.IsEmptyRelease")))
			bg := HasFact(fs, func(f Fact) bool {
				return f.Op == "==" && (f.L.Any(MCall("RolloutStrategy.GetRollingStyle")) || f.R.Any(MCall("RolloutStrategy.GetRollingStyle"))) && (strings.Contains(f.L.String()+f.R.String(), "BlueGreen") || strings.Contains(f.L.String()+f.R.String(), "bluegreen"))
			})
			kind := HasFact(fs, FCmp("==", MField("Kind"), MAny()))
			canary := HasFact(fs, func(f Fact) bool {
				return f.Op == "==" && (f.L.Any(MCall("RolloutStrategy.GetRollingStyle")) || f.R.Any(MCall("RolloutStrategy.GetRollingStyle"))) && strings.Contains(strings.ToLower(f.L.String()+f.R.String()), "`canary`")
			})
			ok2 := empty || bg || (kind && canary)
			if kind && !canary {
				c.Ob("R4.5b", "IsRealPartition#return(false)", ret.Pos(), false, "not-partition for a kind-checked workload only in canary style", "this `return false` depends on the workload kind but not on the rolling style being canary: a native Deployment released in partition style (in place, by the advanced-deployment controller) is then treated like one with an extra canary workload — the stable Service stays pinned while all of its pods are replaced").WithFacts(fs)
				continue
			}
			c.Ob("R4.5b", "IsRealPartition#return(false)", ret.Pos(), ok2, "not-partition is answered for an empty strategy, blue-green, or a workload whose kind was compared", ifs(!ok2, "this `return false` does not depend on the workload kind: StatefulSet / CloneSet / DaemonSet rollouts converted from v1alpha1 (enableExtraWorkloadForCanary=true) are then treated like a canary Deployment, the stable Service stays pinned while every pod is replaced")).WithFacts(fs)
		}
	}
	if n < 2 {
		c.Ob("R4.5b", "IsRealPartition#returns", fn.Pos(), false, "false returns", fmt.Sprintf("found %d, expected at least 2", n))
	}
}

// ---------------------------------------------------------------- C06 R6.7

func r3C06(c *Ctx) {
	p := c.Prog
	c.Rule("R6.7", "the re-entry marker is written by the last API write of Initialize", 7)
	ctrlAnno := ""
	if k := p.ConstObj("github.com/openkruise/rollouts/pkg/util", "BatchReleaseControlAnnotation"); k != nil {
		ctrlAnno = ConstVal(k)
	} else {
		c.Unresolved("R6.7", "BatchReleaseControlAnnotation")
		return
	}
	_, apiCall := apiReaching(p)
	cp := "pkg/controller/batchrelease/control/"
	for _, name := range []string{
		cp + "partitionstyle/cloneset.realController.Initialize", cp + "partitionstyle/daemonset.realController.Initialize",
		cp + "partitionstyle/statefulset.realController.Initialize", cp + "partitionstyle/deployment.realController.Initialize",
		cp + "bluegreenstyle/deployment.realController.Initialize", cp + "bluegreenstyle/cloneset.realController.Initialize",
		cp + "canarystyle/deployment.realStableController.Initialize",
	} {
		fn := p.Func(name)
		if fn == nil {
			c.Unresolved("R6.7", name)
			continue
		}
		own := constStringsIn([]*ssa.Function{fn})[ctrlAnno]
		var marker ssa.CallInstruction
		for _, ci := range AllCalls(fn) {
			if !apiCall(ci) {
				continue
			}
			isMarker := false
			if strings.Contains(CalleeName(ci.Common()), "controller-runtime/pkg/client.") && own {
				isMarker = true
			}
			for _, callee := range p.Callees(ci) {
				if callee.Pkg == fn.Pkg && constStringsIn(samePkgClosure(p, callee))[ctrlAnno] {
					isMarker = true
				}
				// the patch body is built here and sent by a helper of the package
				if callee.Pkg == fn.Pkg && own {
					for _, a := range ci.Common().Args {
						for x := range BackwardSlice(a) {
							if k, ok := x.(*ssa.Const); ok && k.Value != nil && k.Value.Kind() == constant.String && constant.StringVal(k.Value) == ctrlAnno {
								isMarker = true
							}
						}
					}
				}
			}
			if isMarker {
				marker = ci
			}
		}
		if marker == nil {
			c.Ob("R6.7", shortName(name)+"#marker-last", fn.Pos(), false, "write that sets the control-info annotation", "anchor not found")
			continue
		}
		after, at := CanReach(PointAfter(marker.(ssa.Instruction)), func(in ssa.Instruction) bool {
			ci, ok := in.(ssa.CallInstruction)
			return ok && apiCall(ci)
		}, ReachOpts{})
		detail := ""
		if after {
			detail = "another API call (" + shortName(CalleeName(at.(ssa.CallInstruction).Common())) + " at " + p.Pos(at.Pos()) + ") follows the write that sets the marker: if it fails or the process dies in between, the next Initialize returns early and that step is never done"
		}
		c.Ob("R6.7", shortName(name)+"#marker-last", marker.Pos(), !after, "nothing is written after the marker", detail)
	}
}

// ---------------------------------------------------------------- C09 R9.2c, R9.4

func r3C09(c *Ctx) {
	p := c.Prog
	c.Rule("R9.2c", "update validators read the stored phase before any return", 2)
	c.Rule("R9.4", "possibly-nil finder results are dereferenced only under a nil check", 3)
	for _, name := range []string{
		"pkg/webhook/rollout/validating.RolloutCreateUpdateHandler.validateRolloutUpdate",
		"pkg/webhook/rollout/validating.RolloutCreateUpdateHandler.validateV1alpha1RolloutUpdate",
	} {
		fn := p.Func(name)
		if fn == nil {
			c.Unresolved("R9.2c", name)
			continue
		}
		isGet := func(in ssa.Instruction) bool {
			ci, ok := in.(ssa.CallInstruction)
			return ok && ci.Common().IsInvoke() && ci.Common().Method.Name() == "Get"
		}
		reach, at := CanReach(Entry(fn), IsReturn, ReachOpts{CutInstr: isGet})
		detail := ""
		if reach {
			detail = "the return at " + p.Pos(at.Pos()) + " is reachable before the stored object was read: the checks that apply while Progressing / Terminating are bypassed on that path"
		}
		c.Ob("R9.2c", shortName(name)+"#phase-consulted", fn.Pos(), !reach, "no return before the stored object (its phase) was fetched", detail)
	}

	// R9.4: functions of pkg/util's finder that can return (nil, nil)
	nilable := map[*ssa.Function]bool{}
	for _, fn := range p.RepoFuncs() {
		if !strings.HasPrefix(FuncName(fn), "pkg/util.") || fn.Signature.Results().Len() != 2 {
			continue
		}
		if _, isPtr := fn.Signature.Results().At(0).Type().Underlying().(*types.Pointer); !isPtr {
			continue
		}
		if !types.Identical(fn.Signature.Results().At(1).Type(), types.Universe.Lookup("error").Type()) {
			continue
		}
		// path by path: a single-exit form returns result variables
		for _, r := range WalkCP(Entry(fn), nil, IsReturn, ReachOpts{}) {
			ret := r.Instr.(*ssa.Return)
			if len(ret.Results) != 2 {
				continue
			}
			v0, ok0 := ResolveConst(ret.Results[0], r.Env)
			v1, ok1 := ResolveConst(ret.Results[1], r.Env)
			if ok0 && ok1 && v0 == "nil" && v1 == "nil" {
				nilable[fn] = true
			}
		}
	}
	c.Extra["nil_nil_returners"] = len(nilable)
	for _, fn := range p.RepoFuncs() {
		name := FuncName(fn)
		if !(strings.HasPrefix(name, "pkg/controller/") || strings.HasPrefix(name, "pkg/webhook/") || strings.HasPrefix(name, "pkg/trafficrouting")) {
			continue
		}
		for _, ci := range AllCalls(fn) {
			call, ok := ci.(*ssa.Call)
			if !ok {
				continue
			}
			callee := call.Call.StaticCallee()
			if callee == nil || !nilable[callee] {
				continue
			}
			var res ssa.Value
			for _, r := range *refsOf(call) {
				if ex, ok := r.(*ssa.Extract); ok && ex.Index == 0 {
					res = ex
				}
			}
			if res == nil {
				continue
			}
			bad := ""
			for _, r := range *refsOf(res) {
				var deref bool
				switch x := r.(type) {
				case *ssa.FieldAddr:
					deref = x.X == res
				case *ssa.UnOp:
					deref = x.X == res && x.Op.String() == "*"
				}
				if !deref {
					continue
				}
				fs := FactsAtInstr(r)
				if !HasFact(fs, FNotNil(MResultOf(ci, 0))) {
					bad = "dereferenced at " + p.Pos(r.Pos()) + " without a nil check"
				}
			}
			c.Ob("R9.4", name+"#nilable("+shortName(FuncName(callee))+")", ci.Pos(), bad == "", "the result of "+shortName(FuncName(callee))+" may be nil without an error", ifs(bad != "", bad+": the workload may be gone (deleted) while the Rollout still exists, and the controller panics on every reconcile"))
		}
	}
}

func refsOf(v ssa.Value) *[]ssa.Instruction {
	if r := v.Referrers(); r != nil {
		return r
	}
	return &[]ssa.Instruction{}
}

// ---------------------------------------------------------------- C11 R11.7

func r3C11(c *Ctx) {
	p := c.Prog
	c.Rule("R11.7", "the finalize wait compares observed status counters", 4)
	statusCounter := func(t *Term) bool {
		if t.Op != "field" {
			return false
		}
		_, path := t.FieldPath()
		return len(path) >= 2 && path[len(path)-2] == "Status" && strings.Contains(path[len(path)-1], "Replicas")
	}
	for _, name := range []string{
		"pkg/controller/batchrelease/control/canarystyle/deployment.waitAllUpdatedAndReady",
		"pkg/controller/batchrelease/control/bluegreenstyle/deployment.waitAllUpdatedAndReady",
	} {
		fn := p.Func(name)
		if fn == nil {
			c.Unresolved("R11.7", name)
			continue
		}
		allUpdated, withinBudget := false, false
		specUsed := ""
		for _, b := range fn.Blocks {
			for k := range b.Succs {
				ifi, ok := b.Instrs[len(b.Instrs)-1].(*ssa.If)
				if !ok {
					continue
				}
				f := FactOf(ifi.Cond, k == 0)
				// does this edge lead only to error returns?
				onlyErr := true
				for _, r := range WalkCP(Point{Block: b.Succs[k]}, nil, IsReturn, ReachOpts{}) {
					ret := r.Instr.(*ssa.Return)
					if kk, isC := Resolve(ret.Results[0], r.Env).(*ssa.Const); isC && kk.IsNil() {
						onlyErr = false
					}
				}
				if !onlyErr {
					continue
				}
				f.L.Walk(func(t *Term) bool {
					if t.Op == "field" {
						if _, path := t.FieldPath(); len(path) >= 2 && path[len(path)-2] == "Spec" && path[len(path)-1] == "Replicas" {
							specUsed = f.String()
						}
					}
					return true
				})
				f.R.Walk(func(t *Term) bool {
					if t.Op == "field" {
						if _, path := t.FieldPath(); len(path) >= 2 && path[len(path)-2] == "Spec" && path[len(path)-1] == "Replicas" {
							specUsed = f.String()
						}
					}
					return true
				})
				if f.Op == "!=" && statusCounter(f.L) && statusCounter(f.R) && (strings.Contains(f.L.String()+f.R.String(), "UpdatedReplicas")) {
					allUpdated = true
				}
				if (f.Op == "<" || f.Op == ">") && (f.L.Any(statusCounter) && f.R.Any(statusCounter)) {
					withinBudget = true
				}
			}
		}
		c.Ob("R11.7", shortName(name)+"#all-updated", fn.Pos(), allUpdated && specUsed == "", "refuses while some existing pod is not updated (status counters compared)", ifs(!allUpdated, "no error edge compares status.updatedReplicas with another status counter; ")+ifs(specUsed != "", "an error edge compares with spec.replicas ("+specUsed+"): during a surge the desired size is reached while old pods still run"))
		c.Ob("R11.7", shortName(name)+"#within-budget", fn.Pos(), withinBudget && specUsed == "", "refuses while available pods fall short of the existing pods minus maxUnavailable", ifs(!withinBudget, "no error edge relates status.availableReplicas to status.replicas"))
	}
}

// ---------------------------------------------------------------- C12 R12.7

func r3C12(c *Ctx) {
	p := c.Prog
	c.Rule("R12.7", "a revision matches only through a non-empty revision label", 1)
	fn := p.Func("pkg/util.IsConsistentWithRevision")
	if fn == nil {
		c.Unresolved("R12.7", "IsConsistentWithRevision")
		return
	}
	n := 0
	for _, ret := range returnsOf(fn) {
		for _, lf := range BoolLeaves(ret.Results[0], ret.Block()) {
			k, ok := lf.V.(*ssa.Const)
			if !ok || constText(k) != "true" {
				continue
			}
			n++
			fs := append(FactsAtInstr(ret), lf.Facts...)
			nonEmpty := HasFact(fs, func(f Fact) bool {
				isLabel := func(t *Term) bool {
					return t.Any(func(x *Term) bool { return x.Op == "lookup" })
				}
				isEmpty := func(t *Term) bool { return t.Op == "const" && t.Name == "" }
				if f.Op == "!=" && ((isLabel(f.L) && isEmpty(f.R)) || (isLabel(f.R) && isEmpty(f.L))) {
					return true
				}
				// len(label) != 0  /  len(label) > 0
				isLen := func(t *Term) bool { return MLen(isLabel)(t) }
				isZero := func(t *Term) bool { return t.Op == "const" && t.Name == "0" }
				return (f.Op == "!=" || f.Op == ">") && isLen(f.L) && isZero(f.R) || (f.Op == "!=" || f.Op == "<") && isLen(f.R) && isZero(f.L)
			})
			c.Ob("R12.7", "IsConsistentWithRevision#return(true)", ret.Pos(), nonEmpty, "a match requires the revision label to be non-empty", ifs(!nonEmpty, "`true` is returned without the label value having been compared with \"\": an empty label is a suffix of every revision, so pods of the old revision are counted and labelled as updated")).WithFacts(fs)
		}
	}
	if n == 0 {
		c.Ob("R12.7", "IsConsistentWithRevision#return(true)", fn.Pos(), false, "true returns", "anchor not found")
	}
}

// ---------------------------------------------------------------- C13 R13.7

func r3C13(c *Ctx) {
	p := c.Prog
	c.Rule("R13.7", "a generated canary rule carries exactly the canary backend", 1)
	fn := p.Func("pkg/trafficrouting/network/gateway.gatewayController.buildCanaryHeaderHttpRoutes")
	if fn == nil {
		c.Unresolved("R13.7", "buildCanaryHeaderHttpRoutes")
		return
	}
	// the generated rule = result of HTTPRouteRule.DeepCopy
	var gen ssa.Value
	for _, ci := range AllCalls(fn) {
		if strings.HasSuffix(CalleeName(ci.Common()), "HTTPRouteRule.DeepCopy") {
			gen = ci.(*ssa.Call)
		}
	}
	if gen == nil {
		c.Ob("R13.7", "buildCanaryHeaderHttpRoutes#generated-rule", fn.Pos(), false, "generated canary rule (DeepCopy of the stable rule)", "anchor not found")
		return
	}
	whole, elem := false, ""
	for _, b := range fn.Blocks {
		for _, in := range b.Instrs {
			st, ok := in.(*ssa.Store)
			if !ok {
				continue
			}
			switch a := st.Addr.(type) {
			case *ssa.FieldAddr:
				if n, _ := FieldOf(a); n == "BackendRefs" && a.X == gen {
					// a fresh one-element slice
					if sl, ok := st.Val.(*ssa.Slice); ok {
						if al, ok := sl.X.(*ssa.Alloc); ok {
							if arr, ok := al.Type().(*types.Pointer).Elem().Underlying().(*types.Array); ok && arr.Len() == 1 {
								whole = true
							}
						}
					}
				}
			case *ssa.IndexAddr:
				// canaryRule.BackendRefs[i] = ...
				if u, ok := a.X.(*ssa.UnOp); ok {
					if fa, ok := u.X.(*ssa.FieldAddr); ok {
						if n, _ := FieldOf(fa); n == "BackendRefs" && fa.X == gen {
							elem = p.Pos(st.Pos())
						}
					}
				}
			}
		}
	}
	ok := whole && elem == ""
	c.Ob("R13.7", "buildCanaryHeaderHttpRoutes#generated-rule", gen.Pos(), ok, "the generated rule's backendRefs are replaced by a one-element list (the canary Service)", ifs(!whole, "backendRefs of the generated rule are not replaced by a fresh one-element list; ")+ifs(elem != "", "an element of the copied list is overwritten in place at "+elem+": other backends of the user's rule stay on the generated rule, Finalise no longer recognises it and it survives the rollout"))
}

// ---------------------------------------------------------------- C17 R17.6

func r3C17(c *Ctx) {
	p := c.Prog
	c.Rule("R17.6", "proportional scaling refreshes every active ReplicaSet's annotations even when its size is unchanged", 1)
	fn := p.Func("pkg/controller/deployment.DeploymentController.scale")
	if fn == nil {
		c.Unresolved("R17.6", "DeploymentController.scale")
		return
	}
	// refreshReachable: SetReplicasAnnotations reachable from fn's entry along paths consistent with "size unchanged"
	var refreshReachable func(f *ssa.Function, depth int) bool
	refreshReachable = func(f *ssa.Function, depth int) bool {
		if f == nil || f.Blocks == nil || depth > 2 || len(f.Params) < 3 {
			return false
		}
		sizeDiffers := func(b *ssa.BasicBlock, k int) bool {
			return EdgeFactMatches(b, k, func(ft Fact) bool {
				if ft.Op != "!=" {
					return false
				}
				isScale := func(t *Term) bool { return t.Op == "param" && t.Name == "newScale" }
				isSize := func(t *Term) bool { return t.Any(MField("Spec", "Replicas")) }
				return (isScale(ft.L) && isSize(ft.R)) || (isScale(ft.R) && isSize(ft.L))
			})
		}
		ok, _ := CanReach(Entry(f), func(in ssa.Instruction) bool {
			ci, isCall := in.(ssa.CallInstruction)
			if !isCall {
				return false
			}
			if NameMatch(CalleeName(ci.Common()), "util.SetReplicasAnnotations") {
				return true
			}
			if callee := ci.Common().StaticCallee(); callee != nil && callee != f && strings.HasPrefix(FuncName(callee), "pkg/controller/deployment.") {
				return refreshReachable(callee, depth+1)
			}
			return false
		}, ReachOpts{CutEdge: sizeDiffers})
		return ok
	}
	n := 0
	for _, ci := range AllCalls(fn) {
		callee := ci.Common().StaticCallee()
		if callee == nil || !(callee.Name() == "scaleReplicaSet" || callee.Name() == "scaleReplicaSetAndRecordEvent") {
			continue
		}
		// only the proportional loop: the new size comes from the nameToSize table
		if len(ci.Common().Args) < 4 || !TermOf(ci.Common().Args[3]).Any(func(t *Term) bool { return t.Op == "lookup" }) {
			continue
		}
		n++
		ok := refreshReachable(callee, 0)
		c.Ob("R17.6", "scale#proportional-loop", ci.Pos(), ok, "the annotation refresh is reachable when the size does not change", ifs(!ok, "in "+shortName(FuncName(callee))+" the refresh is reachable only when the size differs: a ReplicaSet whose share of the scale event is 0 keeps its old desired-replicas annotation, every later sync is a 'scaling event', and partition raises are ignored"))
	}
	if n == 0 {
		c.Ob("R17.6", "scale#proportional-loop", fn.Pos(), false, "update call of the proportional-scaling loop", "anchor not found")
	}
}

var _ = constant.MakeBool
