package rules

import (
	"go/ast"
	"fmt"
	"go/types"
	"sort"
	"strings"

	"golang.org/x/tools/go/ssa"

	. "verif/rcheck/engine"
)

func init() {
	register(&Prop{
		ID:  "C19",
		Run: runC19,
		Explanation: "Equality of solo and concurrent final states and silence of the race detector are runtime statements and are not decided. Decided is the lock, ownership and keying discipline the shared helpers rely on: " +
			"(R19.1) guarded-by: every function that touches the cache of the grace or resource expectation singletons takes the embedded mutex first (dominating call), releases it on every exit, takes it exclusively when it writes, and hands out only fresh maps; " +
			"(R19.2) shared memory: no function reachable from a worker entry point (Reconcile, webhook Handle, event handlers, goroutines) writes a package variable or a map/slice/field rooted in one, and no such function writes a field of its own receiver when that receiver type is constructed at start-up (i.e. is shared by all workers) — both enumerated over the call graph; " +
			"(R19.3) keys are per object: the key of every grace timer and of every creation expectation derives from an object UID or from namespace and name together; " +
			"(R19.4) every Lua run builds its own VM and none is kept in a variable or field; (R19.6) the dynamic watch registry records a kind only after the watch was really added.",
		NotDecided:  "schedules, the race detector's verdict, equality of final states, races inside client-go / controller-runtime, objects shared through the informer cache (DisableDeepCopy lists).",
		Assumptions: []string{"worker entry points are methods named Reconcile / Handle / Create / Update / Delete / Generic and functions started with go; start-up code is what main and package initialisers reach statically", "sync.Map and the two mutex-guarded singletons are the only intended shared containers"},
	})
}

func runC19(c *Ctx) {
	p := c.Prog
	c.Rule("R19.1", "the expectation caches are touched only under their mutex, exclusively for writes, and never leak internal maps", 12)
	c.Rule("R19.2", "no worker-reachable function writes package state or a field of a start-up-constructed (shared) receiver", 3)
	c.Rule("R19.3", "grace-timer and expectation keys derive from an object UID or from namespace and name together", 6)
	c.Rule("R19.4", "every Lua run builds its own VM; none is stored", 2)
	c.Rule("R19.6", "the dynamic watch registry records a kind only after the watch was added", 2)

	// ---------------- R19.1
	type guarded struct{ pkg, typ, field string }
	for _, g := range []guarded{
		{"pkg/util/grace", "realGraceExpectations", "controllerCache"},
		{"pkg/util/expectation", "realResourceExpectations", "controllerCache"},
	} {
		fv := p.FieldVar("github.com/openkruise/rollouts/"+g.pkg, g.typ, g.field)
		if fv == nil {
			c.Unresolved("R19.1", g.pkg+"."+g.typ+"."+g.field)
			continue
		}
		for _, fn := range p.RepoFuncs() {
			var accesses []*ssa.FieldAddr
			for _, b := range fn.Blocks {
				for _, in := range b.Instrs {
					if fa, ok := in.(*ssa.FieldAddr); ok && fieldVarOf(fa) == fv {
						if _, fresh := fa.X.(*ssa.Alloc); fresh {
							continue // constructor: object not yet published
						}
						accesses = append(accesses, fa)
					}
				}
			}
			if len(accesses) == 0 {
				continue
			}
			name := FuncName(fn)
			// lock calls on the same object
			var locks []ssa.CallInstruction
			for _, ci := range AllCalls(fn) {
				cn := CalleeName(ci.Common())
				if NameMatch(cn, "sync.RWMutex.Lock") || NameMatch(cn, "sync.RWMutex.RLock") || NameMatch(cn, "sync.Mutex.Lock") {
					if _, isDefer := ci.(*ssa.Defer); !isDefer {
						locks = append(locks, ci)
					}
				}
			}
			writes := cacheWrites(fn, fv)
			detail := ""
			var lock ssa.CallInstruction
			for _, l := range locks {
				all := true
				for _, a := range accesses {
					if !instrDominates(l.(ssa.Instruction), a) {
						all = false
					}
				}
				if all {
					lock = l
					break
				}
			}
			// a helper that works under its callers' lock: unexported, called only from this package, and
			// every call site is dominated by a Lock (exclusive if the helper writes) that has not been
			// released before the call
			heldByCallers := false
			if lock == nil && !ast.IsExported(fn.Name()) {
				sites := p.Callers(fn)
				heldByCallers = len(sites) > 0
				for _, cs := range sites {
					if cs.Caller == nil || cs.Caller.Pkg != fn.Pkg || cs.Kind != "static" {
						heldByCallers = false
						break
					}
					held := false
					for _, ci := range AllCalls(cs.Caller) {
						cn := CalleeName(ci.Common())
						if _, isDefer := ci.(*ssa.Defer); isDefer {
							continue
						}
						excl := NameMatch(cn, "sync.RWMutex.Lock") || NameMatch(cn, "sync.Mutex.Lock")
						shared := NameMatch(cn, "sync.RWMutex.RLock")
						if !(excl || (shared && len(writes) == 0)) || !instrDominates(ci.(ssa.Instruction), cs.Instr) {
							continue
						}
						released, _ := CanReach(PointAfter(ci.(ssa.Instruction)), func(in ssa.Instruction) bool { return in == cs.Instr }, ReachOpts{CutInstr: func(in ssa.Instruction) bool {
							u, ok := in.(*ssa.Call)
							return ok && strings.HasSuffix(CalleeName(&u.Call), "nlock")
						}})
						if released { // "released" here means: the call is reachable from the lock without passing an Unlock
							held = true
						}
					}
					if !held {
						heldByCallers = false
						break
					}
				}
			}
			switch {
			case lock == nil && heldByCallers:
				detail = ""
			case lock == nil:
				detail = "the cache is touched without first taking the mutex"
			default:
				ln := CalleeName(lock.Common())
				shared := strings.HasSuffix(ln, "RLock")
				if shared && len(writes) > 0 {
					detail = "the cache is written at " + p.Pos(writes[0].Pos()) + " under the read lock only"
				}
				want := "Unlock"
				if shared {
					want = "RUnlock"
				}
				released := false
				for _, ci := range AllCalls(fn) {
					if d, isDefer := ci.(*ssa.Defer); isDefer && strings.HasSuffix(CalleeName(d.Common()), "."+want) && instrDominates(lock.(ssa.Instruction), d) {
						released = true
					}
				}
				if !released {
					// explicit form: no return reachable from the lock without passing the unlock
					leak, _ := CanReach(PointAfter(lock.(ssa.Instruction)), IsReturn, ReachOpts{CutInstr: func(in ssa.Instruction) bool {
						ci, ok := in.(ssa.CallInstruction)
						return ok && strings.HasSuffix(CalleeName(ci.Common()), "."+want)
					}})
					released = !leak
				}
				if !released && detail == "" {
					detail = "the mutex is not released (" + want + ") on every exit"
				}
			}
			c.Ob("R19.1", name+"#guarded("+g.typ+"."+g.field+")", fn.Pos(), detail == "", fmt.Sprintf("%d accesses, %d writes under the mutex", len(accesses), len(writes)), detail)
			// escape: returned maps are fresh
			for _, ret := range returnsOf(fn) {
				if ret.Block() == fn.Recover {
					continue
				}
				for i, r := range ret.Results {
					if _, isMap := r.Type().Underlying().(*types.Map); !isMap {
						continue
					}
					r = Forwarded(r)
					ok := !cacheDerived(fv, r)
					c.Ob("R19.1", fmt.Sprintf("%s#result%d-fresh", name, i), ret.Pos(), ok, "a returned map is a copy", ifs(!ok, "returns "+TermOf(r).String()+", which aliases the guarded cache: callers would read it without the mutex"))
				}
			}
		}
	}

	// ---------------- R19.2
	var workerRoots, startRoots []*ssa.Function
	for _, fn := range p.RepoFuncs() {
		n := fn.Name()
		if fn.Signature.Recv() != nil {
			switch n {
			case "Reconcile", "Handle", "Create", "Update", "Delete", "Generic":
				workerRoots = append(workerRoots, fn)
			}
		}
		if fn.Signature.Recv() == nil && (n == "main" || n == "init" || strings.HasPrefix(n, "init#")) && fn.Parent() == nil {
			startRoots = append(startRoots, fn)
		}
		for _, b := range fn.Blocks {
			for _, in := range b.Instrs {
				if g, ok := in.(*ssa.Go); ok {
					workerRoots = append(workerRoots, p.Callees(g)...)
				}
			}
		}
	}
	for _, pk := range p.Roots {
		if sp := p.SSAPkg(pk.PkgPath); sp != nil {
			if f := sp.Func("init"); f != nil {
				startRoots = append(startRoots, f) // package-level variable initialisers
			}
		}
	}
	worker := p.ReachableFrom(workerRoots...)
	start := p.ReachableFrom(startRoots...)
	c.Extra["worker_entry_points"] = len(workerRoots)
	c.Extra["worker_reachable_functions"] = len(worker)
	c.Extra["startup_reachable_functions"] = len(start)
	if len(workerRoots) < 20 || len(startRoots) < 5 {
		c.Ob("R19.2", "roots", 0, false, "worker and start-up entry points", fmt.Sprintf("found only %d worker and %d start-up roots", len(workerRoots), len(startRoots)))
	}
	// named struct types constructed at start-up
	sharedType := map[*types.Named]string{}
	for fn := range start {
		if worker[fn] {
			continue // constructors used per call as well are judged by their per-call use
		}
		for _, b := range fn.Blocks {
			for _, in := range b.Instrs {
				if a, ok := in.(*ssa.Alloc); ok && a.Heap {
					if nt, ok := a.Type().(*types.Pointer).Elem().(*types.Named); ok {
						if _, isStruct := nt.Underlying().(*types.Struct); isStruct && nt.Obj().Pkg() != nil && strings.HasPrefix(nt.Obj().Pkg().Path(), "github.com/openkruise/rollouts") {
							if _, seen := sharedType[nt]; !seen {
								sharedType[nt] = FuncName(fn)
							}
						}
					}
				}
			}
		}
	}
	var stNames []string
	for nt := range sharedType {
		stNames = append(stNames, ShortPath(nt.Obj().Pkg().Path())+"."+nt.Obj().Name())
	}
	sort.Strings(stNames)
	c.Extra["startup_constructed_types"] = stNames
	var wfns []*ssa.Function
	for fn := range worker {
		wfns = append(wfns, fn)
	}
	sort.Slice(wfns, func(i, j int) bool { return FuncName(wfns[i]) < FuncName(wfns[j]) })
	nGlobal, nRecv := 0, 0
	for _, fn := range wfns {
		name := FuncName(fn)
		for _, b := range fn.Blocks {
			for _, in := range b.Instrs {
				var addr ssa.Value
				kind := ""
				switch x := in.(type) {
				case *ssa.Store:
					addr, kind = x.Addr, "store"
				case *ssa.MapUpdate:
					addr, kind = x.Map, "map update"
				case *ssa.Call:
					if bi, ok := x.Call.Value.(*ssa.Builtin); ok && bi.Name() == "delete" {
						addr, kind = x.Call.Args[0], "map delete"
					}
				}
				if addr == nil {
					continue
				}
				if g := rootGlobal(addr); g != nil && g.Pkg != nil && strings.HasPrefix(g.Pkg.Pkg.Path(), "github.com/openkruise/rollouts") {
					nGlobal++
					c.Ob("R19.2", name+"#"+kind+"(global "+g.Name()+")", in.Pos(), false, "package state written from worker-reachable code",
						"package variable "+ShortPath(g.Pkg.Pkg.Path())+"."+g.Name()+" is written ("+kind+") in a function reachable from a worker entry point, without a lock")
					continue
				}
				// receiver field of a shared type
				if kind != "store" || len(fn.Params) == 0 || fn.Signature.Recv() == nil {
					continue
				}
				fa, ok := addr.(*ssa.FieldAddr)
				if !ok || rootValue(fa) != ssa.Value(fn.Params[0]) {
					continue
				}
				pt, ok := fn.Params[0].Type().(*types.Pointer)
				if !ok {
					continue
				}
				nt, ok := pt.Elem().(*types.Named)
				if !ok {
					continue
				}
				if where, shared := sharedType[nt]; shared {
					nRecv++
					fname, _ := FieldOf(fa)
					c.Ob("R19.2", name+"#store(recv."+fname+")", in.Pos(), false, "shared object written from worker-reachable code",
						"field "+fname+" of "+nt.Obj().Name()+" (constructed at start-up in "+where+", hence shared by all workers) is written in a function reachable from a worker entry point")
				}
			}
		}
	}
	c.Ob("R19.2", "worker-closure#package-state", 0, nGlobal == 0, fmt.Sprintf("%d worker-reachable functions scanned for writes rooted in package variables", len(worker)), ifs(nGlobal > 0, fmt.Sprintf("%d writes", nGlobal)))
	c.Ob("R19.2", "worker-closure#shared-receivers", 0, nRecv == 0, fmt.Sprintf("%d worker-reachable functions scanned for receiver-field writes on %d start-up-constructed types", len(worker), len(sharedType)), ifs(nRecv > 0, fmt.Sprintf("%d writes", nRecv)))
	// positive control: start-up code does write package state (the scan sees such writes)
	ctl := 0
	for fn := range start {
		for _, b := range fn.Blocks {
			for _, in := range b.Instrs {
				if st, ok := in.(*ssa.Store); ok {
					if g := rootGlobal(st.Addr); g != nil && g.Pkg != nil && strings.HasPrefix(g.Pkg.Pkg.Path(), "github.com/openkruise/rollouts") {
						ctl++
					}
				}
			}
		}
	}
	c.Ob("R19.2", "positive-control#startup-writes", 0, ctl >= 5, fmt.Sprintf("the same scan finds %d package-state writes in start-up code", ctl), ifs(ctl < 5, "the scan no longer recognises package-state writes"))

	// ---------------- R19.3
	keyOK := func(v ssa.Value) (bool, string) { return perObjectKey(p, v, 0) }
	for _, fn := range p.RepoFuncs() {
		for _, ci := range AllCalls(fn) {
			cn := CalleeName(ci.Common())
			var key ssa.Value
			switch {
			case NameMatch(cn, "grace.RunWithGraceSeconds"):
				key = ci.Common().Args[0]
			case ci.Common().IsInvoke() && strings.HasSuffix(ci.Common().Value.Type().String(), "expectation.Expectations") && len(ci.Common().Args) > 0:
				key = ci.Common().Args[0]
			default:
				continue
			}
			if strings.Contains(FuncName(fn), "pkg/util/grace") || strings.Contains(FuncName(fn), "pkg/util/expectation") {
				continue
			}
			ok, why := keyOK(key)
			c.Ob("R19.3", FuncName(fn)+"#key("+shortName(cn)+")", ci.Pos(), ok, "shared-cache key "+TermOf(key).String(), ifs(!ok, "the key "+why+": two objects with the same name (other namespace, or deleted and re-created) would share one timer / expectation"))
		}
	}

	// ---------------- R19.4
	if run := p.Func("pkg/util/luamanager.LuaManager.RunLuaScript"); run == nil {
		c.Unresolved("R19.4", "LuaManager.RunLuaScript")
	} else {
		ns := CallsIn(run, "gopher-lua.NewState")
		c.Ob("R19.4", "RunLuaScript#NewState", run.Pos(), len(ns) == 1, "one VM is created inside each call", ifs(len(ns) != 1, fmt.Sprintf("found %d NewState calls", len(ns))))
		shared := ""
		for _, fn := range p.RepoFuncs() {
			for _, b := range fn.Blocks {
				for _, in := range b.Instrs {
					st, ok := in.(*ssa.Store)
					if !ok || !strings.HasSuffix(st.Val.Type().String(), "gopher-lua.LState") {
						continue
					}
					switch st.Addr.(type) {
					case *ssa.Global, *ssa.FieldAddr:
						shared = "an *LState is stored in shared memory at " + p.Pos(st.Pos())
					}
				}
			}
		}
		c.Ob("R19.4", "LState#not-shared", run.Pos(), shared == "", "no VM is kept in a package variable or struct field", shared)
	}

	// ---------------- R19.6
	for _, fn := range p.RepoFuncs() {
		if fn.Name() == "init" || strings.HasPrefix(fn.Name(), "init#") {
			continue
		}
		for _, ci := range AllCalls(fn) {
			cn := CalleeName(ci.Common())
			if !(NameMatch(cn, "sync.Map.Store") || NameMatch(cn, "sync.Map.LoadOrStore") || NameMatch(cn, "sync.Map.Swap")) {
				continue
			}
			g := rootGlobal(ci.Common().Args[0])
			if g == nil || g.Name() != "watchedWorkload" {
				continue
			}
			fs := FactsAtInstr(ci.(ssa.Instruction))
			okS := HasFact(fs, FTrue(MResult("util.AddWatcherDynamically", 0)))
			okE := HasFact(fs, FNil(MResult("util.AddWatcherDynamically", 1)))
			c.Ob("R19.6", FuncName(fn)+"#registry-insert", ci.Pos(), okS && okE, "a kind is recorded as watched only after AddWatcherDynamically succeeded",
				ifs(!(okS && okE), "the registry entry is written without knowing that the watch exists; every later reconcile of any rollout of that kind then skips adding the watch")).WithFacts(fs)
		}
	}
}

// fieldVarOf returns the struct field a FieldAddr selects.
func fieldVarOf(fa *ssa.FieldAddr) *types.Var {
	pt, ok := fa.X.Type().Underlying().(*types.Pointer)
	if !ok {
		return nil
	}
	st, ok := pt.Elem().Underlying().(*types.Struct)
	if !ok {
		return nil
	}
	return st.Field(fa.Field)
}

// instrDominates reports whether a is executed before b on every path to b.
func instrDominates(a, b ssa.Instruction) bool {
	if a.Block() == b.Block() {
		for _, in := range a.Block().Instrs {
			if in == a {
				return true
			}
			if in == b {
				return false
			}
		}
	}
	return a.Block().Dominates(b.Block())
}

// cacheWrites lists the instructions in fn that modify memory reachable from field fv.
func cacheWrites(fn *ssa.Function, fv *types.Var) []ssa.Instruction {
	var out []ssa.Instruction
	fromCache := func(v ssa.Value) bool { return cacheDerived(fv, v) }
	for _, b := range fn.Blocks {
		for _, in := range b.Instrs {
			switch x := in.(type) {
			case *ssa.MapUpdate:
				if fromCache(x.Map) {
					out = append(out, in)
				}
			case *ssa.Store:
				if _, isAlloc := x.Addr.(*ssa.Alloc); !isAlloc && fromCache(x.Addr) {
					out = append(out, in)
				}
			case *ssa.Call:
				if bi, ok := x.Call.Value.(*ssa.Builtin); ok && bi.Name() == "delete" && fromCache(x.Call.Args[0]) {
					out = append(out, in)
				}
				cn := CalleeName(&x.Call)
				if (strings.HasSuffix(cn, "String.Insert") || strings.HasSuffix(cn, "String.Delete")) && len(x.Call.Args) > 0 && fromCache(x.Call.Args[0]) {
					out = append(out, in)
				}
			}
		}
	}
	return out
}

// rootValue strips field/index addressing and loads.
func rootValue(v ssa.Value) ssa.Value {
	for i := 0; i < 32; i++ {
		switch x := v.(type) {
		case *ssa.FieldAddr:
			v = x.X
		case *ssa.IndexAddr:
			v = x.X
		case *ssa.UnOp:
			v = x.X
		case *ssa.Field:
			v = x.X
		case *ssa.Slice:
			v = x.X
		case *ssa.ChangeType:
			v = x.X
		default:
			return v
		}
	}
	return v
}

func rootGlobal(v ssa.Value) *ssa.Global {
	g, _ := rootValue(v).(*ssa.Global)
	return g
}

// perObjectKey decides whether a cache key identifies one object: it derives from a UID,
// or from a namespace and a name together.
func perObjectKey(p *Program, v ssa.Value, depth int) (bool, string) {
	sl := BackwardSlice(v)
	hasUID, hasNS, hasName, hasNSN := false, false, false, false
	var repoCalls []*ssa.Function
	hasNSNType := false
	for x := range sl {
		if strings.HasSuffix(strings.TrimPrefix(x.Type().String(), "*"), "k8s.io/apimachinery/pkg/types.NamespacedName") {
			hasNSNType = true
		}
		switch y := x.(type) {
		case *ssa.FieldAddr:
			n, _ := FieldOf(y)
			switch n {
			case "UID":
				hasUID = true
			case "Namespace":
				hasNS = true
			case "Name":
				hasName = true
			}
		case *ssa.Field:
			if st, ok := y.X.Type().Underlying().(*types.Struct); ok {
				switch st.Field(y.Field).Name() {
				case "UID":
					hasUID = true
				case "Namespace":
					hasNS = true
				case "Name":
					hasName = true
				}
			}
		case *ssa.Call:
			cn := CalleeName(&y.Call)
			switch {
			case strings.HasSuffix(cn, ".GetUID"):
				hasUID = true
			case strings.HasSuffix(cn, ".GetNamespace"):
				hasNS = true
			case strings.HasSuffix(cn, ".GetName"):
				hasName = true
			case NameMatch(cn, "client.ObjectKeyFromObject"):
				hasNSN = true
			}
			if f := y.Call.StaticCallee(); f != nil && f.Blocks != nil && strings.HasPrefix(FuncName(f), "pkg/") {
				repoCalls = append(repoCalls, f)
			}
		}
	}
	if hasUID || hasNSN || (hasNS && hasName) || (hasNS && hasNSNType) {
		return true, ""
	}
	if depth < 2 {
		for _, f := range repoCalls {
			all := true
			n := 0
			for _, ret := range returnsOf(f) {
				for _, r := range ret.Results {
					if c, isC := r.(*ssa.Const); isC && c.IsNil() {
						continue
					}
					if bt, ok := r.Type().Underlying().(*types.Basic); ok && bt.Kind() != types.String {
						continue
					}
					n++
					if ok, _ := perObjectKey(p, r, depth+1); !ok {
						all = false
					}
				}
			}
			if n > 0 && all {
				return true, ""
			}
		}
	}
	switch {
	case hasName && !hasNS:
		return false, "derives from a name without its namespace"
	default:
		return false, "derives neither from a UID nor from namespace and name together"
	}
}

// memory reachable from the field: loads, lookups, iteration and addressing, not
// values merely computed from it (len, copies)
func derivedFrom(fv *types.Var, v ssa.Value, seen map[ssa.Value]bool) bool {
	if v == nil || seen[v] {
		return false
	}
	seen[v] = true
	switch x := v.(type) {
	case *ssa.FieldAddr:
		return fieldVarOf(x) == fv || derivedFrom(fv, x.X, seen)
	case *ssa.UnOp:
		return derivedFrom(fv, x.X, seen)
	case *ssa.Lookup:
		return derivedFrom(fv, x.X, seen)
	case *ssa.Field:
		return derivedFrom(fv, x.X, seen)
	case *ssa.IndexAddr:
		return derivedFrom(fv, x.X, seen)
	case *ssa.Extract:
		return derivedFrom(fv, x.Tuple, seen)
	case *ssa.Next:
		return derivedFrom(fv, x.Iter, seen)
	case *ssa.Range:
		return derivedFrom(fv, x.X, seen)
	case *ssa.ChangeType:
		return derivedFrom(fv, x.X, seen)
	case *ssa.Phi:
		for _, e := range x.Edges {
			if derivedFrom(fv, e, seen) {
				return true
			}
		}
	case *ssa.Alloc:
		for _, st := range AllocStoresOf(x) {
			if derivedFrom(fv, st.Val, seen) {
				return true
			}
		}
	}
	return false
}

func cacheDerived(fv *types.Var, v ssa.Value) bool { return derivedFrom(fv, v, map[ssa.Value]bool{}) }
