package rules

import (
	"go/constant"
	"go/types"
	"sort"
	"strings"

	"golang.org/x/tools/go/ssa"

	. "verif/rcheck/engine"
)

func init() {
	register(&Prop{
		ID:  "C20",
		Run: runC20,
		Explanation: "Decides the field-coverage and nil-safety clauses behind 'API versions convert without losing what the user wrote': (R20.1) for each of the four hub/spoke converters (Rollout and BatchRelease, To and From) every field reachable from the source type's Spec and Status (go/types enumeration through structs, pointers and slices of the repository's API packages; exhaustive) is read somewhere in the converter's static call closure, and every field of the destination tree is written, except for a frozen, reasoned list of fields the other version cannot express; " +
			"(R20.2) the rolling-style annotation is written by ConvertFrom and read case-insensitively by ConvertTo for both kinds; (R20.3) optional pointers of the source (omitempty) are dereferenced only under a nil check — conversion runs on whatever is stored, no validator guarantee applies; " +
			"(R20.4) sibling agreement of the two TrafficRoutingRef converters: each of Ingress, Gateway and CustomNetworkRefs is converted under its own independent guard in both directions.",
		NotDecided:  "value-level round-trip equality (e.g. weight -> \"20%\" -> 20); semantics of defaults applied by the API server.",
		Assumptions: []string{"a field counts as read/written if some FieldAddr/Field of it occurs in the converter or its static callees inside api/"},
	})
}

// fieldTree enumerates fields reachable from root type through repository API structs.
func fieldTree(t types.Type, prefix string, seen map[string]bool, out map[*types.Var]string) {
	switch x := t.(type) {
	case *types.Pointer:
		fieldTree(x.Elem(), prefix, seen, out)
	case *types.Slice:
		fieldTree(x.Elem(), prefix+"[]", seen, out)
	case *types.Named:
		obj := x.Obj()
		if obj.Pkg() == nil || !strings.HasPrefix(obj.Pkg().Path(), ModPath+"/api/") {
			return
		}
		key := obj.Pkg().Path() + "." + obj.Name()
		if seen[key] {
			return
		}
		seen[key] = true
		defer delete(seen, key)
		st, ok := x.Underlying().(*types.Struct)
		if !ok {
			return
		}
		for i := 0; i < st.NumFields(); i++ {
			f := st.Field(i)
			if !f.Exported() {
				continue
			}
			p := prefix + "." + f.Name()
			if f.Embedded() {
				p = prefix
			}
			if _, dup := out[f]; !dup && !f.Embedded() {
				out[f] = p
			}
			fieldTree(f.Type(), p, seen, out)
		}
	}
}

func apiClosure(p *Program, root *ssa.Function) []*ssa.Function {
	seen := map[*ssa.Function]bool{root: true}
	work := []*ssa.Function{root}
	var out []*ssa.Function
	for len(work) > 0 {
		f := work[len(work)-1]
		work = work[:len(work)-1]
		out = append(out, f)
		for _, ci := range AllCalls(f) {
			callee := ci.Common().StaticCallee()
			if callee == nil || callee.Blocks == nil || seen[callee] || callee.Pkg == nil {
				continue
			}
			if !strings.HasPrefix(callee.Pkg.Pkg.Path(), ModPath+"/api/") {
				continue
			}
			seen[callee] = true
			work = append(work, callee)
		}
	}
	return out
}

func runC20(c *Ctx) {
	p := c.Prog
	c.Rule("R20.1", "field coverage of the converters, both ways (exhaustive over struct fields)", 150)
	c.Rule("R20.2", "rolling-style annotation written by ConvertFrom, read case-insensitively by ConvertTo", 4)
	c.Rule("R20.3", "optional source pointers are dereferenced only under a nil check", 4)
	c.Rule("R20.4", "TrafficRoutingRef converters agree: independent guards for Ingress / Gateway / CustomNetworkRefs", 2)

	type conv struct {
		fn        string
		srcPkg    string
		dstPkg    string
		kind      string
		direction string
	}
	convs := []conv{
		{"api/v1alpha1.Rollout.ConvertTo", "api/v1alpha1", "api/v1beta1", "Rollout", "to"},
		{"api/v1alpha1.Rollout.ConvertFrom", "api/v1beta1", "api/v1alpha1", "Rollout", "from"},
		{"api/v1alpha1.BatchRelease.ConvertTo", "api/v1alpha1", "api/v1beta1", "BatchRelease", "to"},
		{"api/v1alpha1.BatchRelease.ConvertFrom", "api/v1beta1", "api/v1alpha1", "BatchRelease", "from"},
	}
	// frozen exceptions: "<pkg-short>.<Type>.<Field>" -> reason
	unreadOK := map[string]string{}
	unwrittenOK := map[string]string{}
	for k, v := range c20ReadExceptions {
		unreadOK[k] = v
	}
	for k, v := range c20WriteExceptions {
		unwrittenOK[k] = v
	}
	for _, cv := range convs {
		fn := p.Func(cv.fn)
		if fn == nil {
			c.Unresolved("R20.1", cv.fn)
			continue
		}
		srcT := p.NamedType(cv.srcPkg, cv.kind)
		dstT := p.NamedType(cv.dstPkg, cv.kind)
		if srcT == nil || dstT == nil {
			c.Unresolved("R20.1", cv.kind+" types")
			continue
		}
		read := map[*types.Var]bool{}
		written := map[*types.Var]bool{}
		for _, f := range apiClosure(p, fn) {
			for _, b := range f.Blocks {
				for _, in := range b.Instrs {
					switch x := in.(type) {
					case *ssa.FieldAddr:
						fv := derefStructOf(x.X.Type()).Field(x.Field)
						r, w := addrUse(x, map[ssa.Value]bool{})
						if r {
							read[fv] = true
						}
						if w {
							written[fv] = true
						}
					case *ssa.Field:
						read[derefStructOf(x.X.Type()).Field(x.Field)] = true
					}
				}
			}
		}
		for _, side := range []struct {
			root  *types.Named
			set   map[*types.Var]bool
			what  string
			excpt map[string]string
		}{{srcT, read, "read", unreadOK}, {dstT, written, "written", unwrittenOK}} {
			tree := map[*types.Var]string{}
			st := side.root.Underlying().(*types.Struct)
			for i := 0; i < st.NumFields(); i++ {
				f := st.Field(i)
				if f.Name() == "Spec" || f.Name() == "Status" {
					tree[f] = "." + f.Name()
					fieldTree(f.Type(), "."+f.Name(), map[string]bool{}, tree)
				}
			}
			var vars []*types.Var
			for v := range tree {
				vars = append(vars, v)
			}
			sort.Slice(vars, func(i, j int) bool { return tree[vars[i]] < tree[vars[j]] })
			for _, v := range vars {
				id := fieldID(v, p)
				reason, exempt := side.excpt[cv.fn+"|"+id]
				if !exempt {
					reason, exempt = side.excpt[id]
				}
				if !exempt && !hasCounterpart(p, v, id) {
					reason, exempt = "the other API version has no field of this name in the corresponding type", true
				}
				ok := side.set[v]
				what := shortName(cv.fn) + ": " + side.root.Obj().Pkg().Name() + "." + cv.kind + tree[v] + " is " + side.what
				switch {
				case ok:
					c.Ob("R20.1", cv.fn+"#"+side.what+"("+id+")", fn.Pos(), true, what, "")
				case exempt:
					c.Ob("R20.1", cv.fn+"#"+side.what+"("+id+")[exempt]", fn.Pos(), true, what+" — not converted on purpose: "+reason, "")
				default:
					det := "the converter never reads this source field: what the user wrote there is silently dropped"
					if side.what == "written" {
						det = "the converter never sets this destination field: it reads back empty"
					}
					c.Ob("R20.1", cv.fn+"#"+side.what+"("+id+")", fn.Pos(), false, what, det)
				}
			}
		}
	}

	// ---- R20.2 style annotation
	styleKey := ConstVal(p.ConstObj("api/v1alpha1", "RolloutStyleAnnotation"))
	if styleKey == "" {
		c.Unresolved("R20.2", "RolloutStyleAnnotation")
	} else {
		for _, cv := range convs {
			fn := p.Func(cv.fn)
			if fn == nil {
				continue
			}
			if cv.direction == "from" {
				// every return after the annotations map exists passes a MapUpdate of the key
				n := 0
				for _, b := range fn.Blocks {
					for _, in := range b.Instrs {
						if mu, ok := in.(*ssa.MapUpdate); ok {
							if k := TermOf(mu.Key); k.Op == "const" && k.Name == styleKey {
								n++
							}
						}
					}
				}
				isSet := func(in ssa.Instruction) bool {
					mu, ok := in.(*ssa.MapUpdate)
					if !ok {
						return false
					}
					k := TermOf(mu.Key)
					return k.Op == "const" && k.Name == styleKey
				}
				// success returns (nil) after the spec was converted must have set it: cut at the set, cut the early non-canary return
				reach := false
				for _, ret := range returnsOf(fn) {
					if t := TermOf(ret.Results[0]); !(t.Op == "const" && t.Name == "nil") {
						continue
					}
					// the early return for strategies v1alpha1 cannot express lies behind one of these edges
					// (possibly inside a predicate helper), so it is cut away with them
					if r, _ := CanReach(Entry(fn), func(in ssa.Instruction) bool { return in == ssa.Instruction(ret) }, ReachOpts{CutInstr: isSet, CutEdge: func(b *ssa.BasicBlock, k int) bool {
						return EdgeFactMatches(b, k, FOr(FTrue(MCall("RolloutStrategy.IsEmptyRelease")), FFalse(MCall("RolloutStrategy.IsCanaryStragegy"))))
					}}); r {
						reach = true
					}
				}
				c.Ob("R20.2", cv.fn+"#style-annotation-written", fn.Pos(), n > 0 && !reach, "the rolling style is recorded in the annotation on every converted object", ifs(!(n > 0 && !reach), "a converted object can be returned without annotations["+styleKey+"] being set"))
			} else {
				bad := ""
				n := 0
				for _, b := range fn.Blocks {
					for _, in := range b.Instrs {
						lk, ok := in.(*ssa.Lookup)
						if !ok {
							continue
						}
						if k := TermOf(lk.Index); !(k.Op == "const" && k.Name == styleKey) {
							continue
						}
						n++
						if lk.Referrers() == nil {
							continue
						}
						if at := caseSensitiveUse(lk, 0, map[ssa.Value]bool{}); at != nil {
							bad = "the annotation value is compared other than with strings.EqualFold at " + p.Pos(at.Pos()) + ": ConvertFrom writes it lower-case, users and older objects write Partition/Canary"
						}
					}
				}
				c.Ob("R20.2", cv.fn+"#style-annotation-read", fn.Pos(), n > 0 && bad == "", "the rolling-style annotation is read case-insensitively", ifs(!(n > 0 && bad == ""), ifs(n == 0, "the annotation is never read")+bad))
			}
		}
	}

	// ---- R20.3 nil safety over the converters' closure
	for _, cv := range convs {
		fn := p.Func(cv.fn)
		if fn == nil {
			continue
		}
		var all []OptDeref
		for _, f := range apiClosure(p, fn) {
			if !strings.HasPrefix(FuncName(f), "api/v1alpha1.") {
				continue // helper methods of the hub types are called under the converters' guards
			}
			all = append(all, OptionalDerefs(f, func(owner, field string) bool {
				// optional blocks of the API types (pointers to structs of the api packages)
				return true
			})...)
		}
		// keep only pointers to API structs (pointers to scalars such as *int32 are copied, not dereferenced, by the converters)
		var derefs []OptDeref
		for _, d := range all {
			if pt, ok := d.Field.Type().Underlying().(*types.Pointer); ok {
				if n, ok := pt.Elem().(*types.Named); ok && n.Obj().Pkg() != nil && strings.HasPrefix(n.Obj().Pkg().Path(), ModPath+"/api/") {
					// guarded by a strategy predicate of the hub type?
					if HasFact(FactsAtInstr(d.Instr), FTrue(MCall("RolloutStrategy.IsCanaryStragegy"))) && HasFact(FactsAtInstr(d.Instr), FFalse(MCall("RolloutStrategy.IsEmptyRelease"))) && d.Field.Name() == "Canary" {
						continue
					}
					// only the source object: the destination's blocks are allocated by the converter itself
					root, _ := d.Ptr.FieldPath()
					for root.Op == "typeassert" || root.Op == "index" {
						root = root.Args[0]
						r2, _ := root.FieldPath()
						root = r2
					}
					if !(root.Op == "param" && root.Name == "src") {
						continue
					}
					derefs = append(derefs, d)
				}
			}
		}
		if len(derefs) == 0 {
			c.Ob("R20.3", cv.fn+"#optional-blocks", fn.Pos(), true, "optional blocks of the source are dereferenced only under a nil check", "")
		}
		for _, d := range derefs {
			c.Ob("R20.3", cv.fn+"#deref("+d.Owner+"."+d.Field.Name()+")", d.Instr.Pos(), false, "optional block "+d.Field.Name()+" dereferenced without a nil check",
				"an object that omits "+d.Field.Name()+" (allowed by the schema) crashes the conversion webhook: "+d.Ptr.String())
		}
	}

	// ---- R20.4 sibling agreement of the TrafficRoutingRef converters
	for _, name := range []string{"api/v1alpha1.ConversionToV1beta1TrafficRoutingRef", "api/v1alpha1.ConversionToV1alpha1TrafficRoutingRef"} {
		fn := p.Func(name)
		if fn == nil {
			c.Unresolved("R20.4", name)
			continue
		}
		bad := ""
		for _, f := range []string{"Ingress", "Gateway"} {
			sts := FieldStores([]*ssa.Function{fn}, "", f)
			if len(sts) == 0 {
				bad = "dst." + f + " is never set"
				continue
			}
			for _, st := range sts {
				fs := FactsAtInstr(st)
				if !HasFact(fs, FNotNil(MField(f))) {
					bad = "dst." + f + " is not set under src." + f + " != nil"
				}
				// independent: not under the negation of the other provider
				other := map[string]string{"Ingress": "Gateway", "Gateway": "Ingress"}[f]
				if HasFact(fs, FNil(MField(other))) {
					bad = "dst." + f + " is only converted when src." + other + " is nil: a ref with both providers loses one of them"
				}
			}
		}
		c.Ob("R20.4", shortName(name)+"#independent-providers", fn.Pos(), bad == "", "Ingress and Gateway are converted independently", bad)
	}
}

func derefStructOf(t types.Type) *types.Struct {
	t = t.Underlying()
	if p, ok := t.(*types.Pointer); ok {
		t = p.Elem().Underlying()
	}
	st, _ := t.(*types.Struct)
	return st
}

// fieldID names a struct field as <pkg>.<Type>.<Field> by searching the API packages for the owning struct.
var fieldOwnerCache = map[*types.Var]string{}

func fieldID(v *types.Var, p *Program) string {
	if s, ok := fieldOwnerCache[v]; ok {
		return s
	}
	for _, pkgPath := range []string{"api/v1alpha1", "api/v1beta1"} {
		pk := p.Pkg(pkgPath)
		if pk == nil {
			continue
		}
		sc := pk.Types.Scope()
		for _, n := range sc.Names() {
			tn, ok := sc.Lookup(n).(*types.TypeName)
			if !ok {
				continue
			}
			st, ok := tn.Type().Underlying().(*types.Struct)
			if !ok {
				continue
			}
			for i := 0; i < st.NumFields(); i++ {
				fieldOwnerCache[st.Field(i)] = pk.Types.Name() + "." + n + "." + st.Field(i).Name()
			}
		}
	}
	if s, ok := fieldOwnerCache[v]; ok {
		return s
	}
	return "?." + v.Name()
}

var c20ReadExceptions = map[string]string{}
var c20WriteExceptions = map[string]string{}

// addrUse reports whether the memory at address a (or at an address derived from it by further
// field/index selection) is loaded and whether it is stored to.
func addrUse(a ssa.Value, seen map[ssa.Value]bool) (read, written bool) {
	if seen[a] || a.Referrers() == nil {
		return
	}
	seen[a] = true
	for _, r := range *a.Referrers() {
		switch x := r.(type) {
		case *ssa.Store:
			if x.Addr == a {
				written = true
			} else {
				read = true // the address itself is stored somewhere: treat as escaping read
			}
		case *ssa.UnOp:
			read = true
			// a loaded pointer/slice/map that is then written through (x.F = make(...); x.F[k] = v) counts as read of the field
		case *ssa.FieldAddr:
			r2, w2 := addrUse(x, seen)
			read, written = read || r2, written || w2
		case *ssa.IndexAddr:
			r2, w2 := addrUse(x, seen)
			read, written = read || r2, written || w2
		case ssa.CallInstruction:
			read = true
		default:
			read = true
		}
	}
	return
}

// hasCounterpart reports whether the other API version has a struct type of the same name with a field of the same name.
func hasCounterpart(p *Program, v *types.Var, id string) bool {
	parts := strings.SplitN(id, ".", 3)
	if len(parts) != 3 {
		return true
	}
	other := "api/v1beta1"
	if parts[0] == "v1beta1" {
		other = "api/v1alpha1"
	}
	typeName := parts[1]
	// known renames between the versions
	if other == "api/v1alpha1" && typeName == "ObjectRef" {
		return true
	}
	candidates := []string{typeName}
	// structs that were split / merged between the versions
	if typeName == "CommonStatus" {
		candidates = append(candidates, "CanaryStatus")
	}
	for _, tn := range candidates {
		n := p.NamedType(other, tn)
		if n == nil {
			continue
		}
		// promoted fields of embedded structs count
		if obj, _, _ := types.LookupFieldOrMethod(n, true, n.Obj().Pkg(), parts[2]); obj != nil {
			if _, isVar := obj.(*types.Var); isVar {
				return true
			}
		}
	}
	return false
}

// caseSensitiveUse returns a use of the string v that is not case-insensitive: every use must be
// strings.EqualFold, a case-folding call, an emptiness test, or the hand-over to a repository
// function whose parameter is itself used that way (two levels). nil when there is none.
func caseSensitiveUse(v ssa.Value, depth int, seen map[ssa.Value]bool) ssa.Instruction {
	if seen[v] || v.Referrers() == nil {
		return nil
	}
	seen[v] = true
	for _, r := range *v.Referrers() {
		switch x := r.(type) {
		case *ssa.DebugRef:
			continue
		case *ssa.Phi:
			if at := caseSensitiveUse(x, depth, seen); at != nil {
				return at
			}
			continue
		case *ssa.BinOp:
			other := x.Y
			if other == v {
				other = x.X
			}
			if k, ok := other.(*ssa.Const); ok && k.Value != nil && k.Value.Kind() == constant.String && constant.StringVal(k.Value) == "" {
				continue
			}
			return x
		case ssa.CallInstruction:
			cn := CalleeName(x.Common())
			if NameMatch(cn, "strings.EqualFold") {
				continue
			}
			if NameMatch(cn, "strings.ToLower") || NameMatch(cn, "strings.ToUpper") {
				// the folded string is case-insensitive only as long as it is compared with constants
				// that are themselves in that case
				if val, ok := x.(ssa.Value); ok {
					if at := foldedUse(val, NameMatch(cn, "strings.ToLower"), map[ssa.Value]bool{}); at != nil {
						return at
					}
				}
				continue
			}
			if bi, ok := x.Common().Value.(*ssa.Builtin); ok && bi.Name() == "len" {
				continue
			}
			g := x.Common().StaticCallee()
			if g != nil && g.Blocks != nil && g.Pkg != nil && strings.HasPrefix(g.Pkg.Pkg.Path(), ModPath) && depth < 2 {
				bad := ssa.Instruction(nil)
				for i, a := range x.Common().Args {
					if a == v && i < len(g.Params) {
						if at := caseSensitiveUse(g.Params[i], depth+1, seen); at != nil {
							bad = at
						}
					}
				}
				if bad != nil {
					return bad
				}
				continue
			}
			return r
		default:
			return r
		}
	}
	return nil
}

// foldedUse returns a use of the case-folded string v other than a comparison with a constant in
// the same case (or an emptiness / length test); nil when there is none.
func foldedUse(v ssa.Value, lower bool, seen map[ssa.Value]bool) ssa.Instruction {
	if seen[v] || v.Referrers() == nil {
		return nil
	}
	seen[v] = true
	for _, r := range *v.Referrers() {
		switch x := r.(type) {
		case *ssa.DebugRef:
			continue
		case *ssa.Phi:
			if at := foldedUse(x, lower, seen); at != nil {
				return at
			}
		case *ssa.ChangeType:
			if at := foldedUse(x, lower, seen); at != nil {
				return at
			}
		case *ssa.Convert:
			if at := foldedUse(x, lower, seen); at != nil {
				return at
			}
		case *ssa.BinOp:
			other := x.Y
			if other == v {
				other = x.X
			}
			k, ok := other.(*ssa.Const)
			if !ok || k.Value == nil || k.Value.Kind() != constant.String {
				return x
			}
			sv := constant.StringVal(k.Value)
			if (lower && sv != strings.ToLower(sv)) || (!lower && sv != strings.ToUpper(sv)) {
				return x
			}
		case ssa.CallInstruction:
			if bi, ok := x.Common().Value.(*ssa.Builtin); ok && bi.Name() == "len" {
				continue
			}
			cn := CalleeName(x.Common())
			if NameMatch(cn, "strings.EqualFold") || NameMatch(cn, "strings.TrimSpace") {
				continue
			}
			return r
		default:
			return r
		}
	}
	return nil
}
