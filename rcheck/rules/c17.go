package rules

import (
	"go/token"
	"strings"

	"golang.org/x/tools/go/ssa"

	. "verif/rcheck/engine"
)

func init() {
	register(&Prop{
		ID:  "C17",
		Run: runC17,
		Explanation: "The four inequalities of the property are inductive numeric invariants and are not decided. Decided is that the limits exist on every path to a ReplicaSet size write of the built-in advanced deployment controller: (R17.1) ReplicaSet.spec.replicas is written only by scaleReplicaSet and by new-ReplicaSet creation (whole-package store enumeration); " +
			"(R17.2) required influence: the new ReplicaSet's target depends on NewRSNewReplicas, whose scale-up results depend on NewRSReplicasLimit(partition) and MaxSurge; old ReplicaSets' scale-down budget depends on ScaleDownLimitForOld (partition reserve) and on MaxUnavailable through minAvailable and the available-pod count; when several old ReplicaSets share one budget the per-ReplicaSet amount depends on the running total; new-ReplicaSet creation size depends on NewRSNewReplicas and NewRSReplicasLowerBound; " +
			"(R17.3) bounded-by form: on the scale-up branch NewRSNewReplicas returns the current size or min(_, partition limit); scale-down is unreachable when available pods <= minAvailable, and when the partition reserve is exhausted (limit <= 0) only scale-up of old ReplicaSets is reachable; (R17.4) the ReplicaSet count helpers read the status field their name promises (available / ready / spec / actual).",
		NotDecided:  "the invariants themselves (new <= partition limit, old >= reserve, total <= replicas+maxSurge, available >= replicas-maxUnavailable), scaling events, convergence to the new revision.",
		Assumptions: []string{"influence is the intraprocedural backward slice (data dependence through locals and phis)"},
	})
}

func runC17(c *Ctx) {
	p := c.Prog
	c.Rule("R17.1", "ReplicaSet sizes are written only by scaleReplicaSet and new-ReplicaSet creation", 2)
	c.Rule("R17.2", "partition, surge and availability limits influence every ReplicaSet size decision", 8)
	c.Rule("R17.3", "scale-up results are bounded by the partition limit; scale-down is cut off at minAvailable and at the partition reserve", 7)
	c.Rule("R17.4", "ReplicaSet count helpers read the status field their name promises", 4)

	dpkg := "pkg/controller/deployment."
	// ---- R17.1
	for _, fn := range p.RepoFuncs() {
		name := FuncName(fn)
		if !strings.HasPrefix(name, "pkg/controller/deployment") {
			continue
		}
		for _, b := range fn.Blocks {
			for _, in := range b.Instrs {
				st, ok := in.(*ssa.Store)
				if !ok {
					continue
				}
				// *(rs.Spec.Replicas) = v   or   rs.Spec.Replicas = &v
				var fa *ssa.FieldAddr
				if u, ok := st.Addr.(*ssa.UnOp); ok {
					fa, _ = u.X.(*ssa.FieldAddr)
				} else {
					fa, _ = st.Addr.(*ssa.FieldAddr)
				}
				if fa == nil {
					continue
				}
				fname, owner := FieldOf(fa)
				if fname != "Replicas" || !strings.HasSuffix(owner, "apps/v1.ReplicaSetSpec") {
					continue
				}
				ok2 := NameMatch(name, "deployment.DeploymentController.scaleReplicaSet") || NameMatch(name, "deployment.DeploymentController.getNewReplicaSet")
				c.Ob("R17.1", name+"#store(ReplicaSet.Spec.Replicas)", st.Pos(), ok2, "ReplicaSet size written", ifs(!ok2, "a ReplicaSet size is written outside scaleReplicaSet / new-ReplicaSet creation: it bypasses the rolling limits"))
			}
		}
	}

	type src struct {
		label string
		m     M
	}
	fromCall := func(pat string) src { return src{pat + "()", MCall(pat)} }
	scaleArg := func(fn *ssa.Function) []ssa.Value {
		var out []ssa.Value
		for _, call := range CallsIn(fn, "deployment.DeploymentController.scaleReplicaSetAndRecordEvent") {
			out = append(out, call.Common().Args[3])
		}
		return out
	}
	depends := func(rule, construct string, fn *ssa.Function, v ssa.Value, what string, ms ...src) {
		var missing []string
		for _, m := range ms {
			if !SliceHas(v, m.m) {
				missing = append(missing, m.label)
			}
		}
		c.Ob(rule, construct, v.Pos(), len(missing) == 0, what, ifs(len(missing) > 0, "the value does not depend on: "+strings.Join(missing, ", ")+" ("+TermOf(v).String()+")"))
	}
	// ---- R17.2
	if fn := p.Func(dpkg + "DeploymentController.reconcileNewReplicaSet"); fn == nil {
		c.Unresolved("R17.2", "reconcileNewReplicaSet")
	} else {
		n := 0
		for _, v := range scaleArg(fn) {
			t := TermOf(v)
			if t.Any(MField("Spec", "Replicas")) && !t.Any(MCall("util.NewRSNewReplicas")) {
				continue // scale down to the deployment's size
			}
			n++
			depends("R17.2", "reconcileNewReplicaSet#new-size", fn, v, "the new ReplicaSet's target comes from NewRSNewReplicas", src{"the result of NewRSNewReplicas", MResult("util.NewRSNewReplicas", 0)})
		}
		if n == 0 {
			c.Ob("R17.2", "reconcileNewReplicaSet#new-size", fn.Pos(), false, "scale call of the new ReplicaSet", "anchor not found")
		}
	}
	if fn := p.Func("pkg/controller/deployment/util.NewRSNewReplicas"); fn == nil {
		c.Unresolved("R17.2", "NewRSNewReplicas")
	} else {
		for _, ret := range returnsOf(fn) {
			for _, lf := range Leaves(ret.Results[0], ret.Block()) {
				t := TermOf(lf.V)
				if !(t.Op == "call" && (NameMatch(t.Name, "integer.Int32Min") || t.Name == "min")) {
					// R17.3: other leaves must be the current size or the deployment size
					ok := t.Op == "field" && t.Name == "Replicas"
					c.Ob("R17.3", "NewRSNewReplicas#return(no-scale)", ret.Pos(), ok, "no scale-up: returns the current size (or the deployment's size when it is the only ReplicaSet)", ifs(!ok, "returns "+t.String()))
					continue
				}
				depends("R17.2", "NewRSNewReplicas#scale-up", fn, lf.V, "the scale-up target depends on the partition limit and on maxSurge", fromCall("util.NewRSReplicasLimit"), fromCall("util.MaxSurge"))
				okB := len(t.Args) == 2 && (t.Args[1].Any(MCall("util.NewRSReplicasLimit")) || t.Args[0].Any(MCall("util.NewRSReplicasLimit")))
				c.Ob("R17.3", "NewRSNewReplicas#return(scale-up)", ret.Pos(), okB, "the scale-up result is min(_, partition limit)", ifs(!okB, "the partition limit is not an operand of the final min"))
				if in, isIn := lf.V.(ssa.Instruction); isIn {
					fs := append(FactsAtInstr(in), lf.Facts...)
					okP := HasFact(fs, FCmp("<", MField("Replicas"), MCall("util.NewRSReplicasLimit")))
					okS := HasFact(fs, FCmp("<", MCall("util.GetReplicaCountForReplicaSets"), MHas(MCall("util.MaxSurge"))))
					c.Ob("R17.3", "NewRSNewReplicas#scale-up-guard", in.Pos(), okP && okS, "scale-up only while the new ReplicaSet is below the partition limit and the total is below replicas+maxSurge",
						ifs(!okP, "scale-up reachable with newRS.replicas >= partition limit; ")+ifs(!okS, "scale-up reachable with the pod total >= replicas+maxSurge")).WithFacts(fs)
				}
			}
		}
	}
	if fn := p.Func(dpkg + "DeploymentController.reconcileOldReplicaSets"); fn == nil {
		c.Unresolved("R17.2", "reconcileOldReplicaSets")
	} else {
		for _, call := range CallsIn(fn, "deployment.DeploymentController.cleanupUnhealthyReplicas") {
			depends("R17.2", "reconcileOldReplicaSets#cleanup-budget", fn, call.Common().Args[4], "the clean-up budget depends on the partition reserve and on maxUnavailable", fromCall("deployment.ScaleDownLimitForOld"), fromCall("util.MaxUnavailable"))
			fs := FactsAtInstr(call.(ssa.Instruction))
			lim := MCall("deployment.ScaleDownLimitForOld")
			// limit > 0, also when written as two tests (limit == 0 handled, then limit < 0 handled)
			ok := HasFact(fs, FCmp(">", lim, MConst("0"))) || (HasFact(fs, FCmp(">=", lim, MConst("0"))) && HasFact(fs, FCmp("!=", lim, MConst("0"))))
			c.Ob("R17.3", "reconcileOldReplicaSets#reserve-exhausted", call.Pos(), ok, "no old pod is removed once the partition reserve is reached (limit <= 0 only scales old up)", ifs(!ok, "clean-up reachable with ScaleDownLimitForOld() <= 0")).WithFacts(fs)
		}
		for _, call := range CallsIn(fn, "deployment.DeploymentController.scaleUpOldReplicaSets") {
			depends("R17.2", "reconcileOldReplicaSets#scale-up-old", fn, call.Common().Args[3], "old ReplicaSets are scaled up by the amount the partition reserve is short", fromCall("deployment.ScaleDownLimitForOld"))
		}
	}
	if fn := p.Func(dpkg + "ScaleDownLimitForOld"); fn == nil {
		c.Unresolved("R17.2", "ScaleDownLimitForOld")
	} else {
		for _, ret := range returnsOf(fn) {
			depends("R17.2", "ScaleDownLimitForOld#return", fn, ret.Results[0], "the old ReplicaSets' reserve is computed from the partition limit, the deployment size and the old ReplicaSets' size",
				fromCall("util.NewRSReplicasLimit"), fromCall("util.GetReplicaCountForReplicaSets"), src{"deployment.Spec.Replicas", MField("Spec", "Replicas")})
		}
	}
	if fn := p.Func(dpkg + "DeploymentController.scaleDownOldReplicaSetsForRollingUpdate"); fn == nil {
		c.Unresolved("R17.2", "scaleDownOldReplicaSetsForRollingUpdate")
	} else {
		for _, v := range scaleArg(fn) {
			depends("R17.2", "scaleDownOldReplicaSetsForRollingUpdate#amount", fn, v, "the scale-down amount depends on the partition reserve, maxUnavailable, the available-pod count and the running total",
				fromCall("deployment.ScaleDownLimitForOld"), fromCall("util.MaxUnavailable"), fromCall("util.GetAvailableReplicaCountForReplicaSets"),
				src{"the running total of the loop", mAccumulator})
		}
		for _, call := range CallsIn(fn, "deployment.DeploymentController.scaleReplicaSetAndRecordEvent") {
			reach, _ := CanReach(Entry(fn), func(in ssa.Instruction) bool { return in == call.(ssa.Instruction) }, ReachOpts{CutEdge: func(b *ssa.BasicBlock, k int) bool {
				return EdgeFactMatches(b, k, FCmp(">", MCall("util.GetAvailableReplicaCountForReplicaSets"), MHas(MCall("util.MaxUnavailable"))))
			}})
			c.Ob("R17.3", "scaleDownOldReplicaSetsForRollingUpdate#min-available", call.Pos(), !reach, "available old pods are scaled down only while available > replicas - maxUnavailable", ifs(reach, "scale-down reachable without availablePodCount > minAvailable"))
		}
	}
	if fn := p.Func(dpkg + "DeploymentController.cleanupUnhealthyReplicas"); fn == nil {
		c.Unresolved("R17.2", "cleanupUnhealthyReplicas")
	} else {
		for _, v := range scaleArg(fn) {
			depends("R17.2", "cleanupUnhealthyReplicas#amount", fn, v, "the per-ReplicaSet clean-up amount depends on the budget and on what earlier ReplicaSets already consumed",
				src{"the budget parameter maxCleanupCount", func(t *Term) bool { return t.Op == "param" && t.Name == "maxCleanupCount" }},
				src{"the running total of the loop", mAccumulator})
		}
	}
	if fn := p.Func(dpkg + "DeploymentController.getNewReplicaSet"); fn == nil {
		c.Unresolved("R17.2", "getNewReplicaSet")
	} else {
		n := 0
		for _, b := range fn.Blocks {
			for _, in := range b.Instrs {
				st, ok := in.(*ssa.Store)
				if !ok {
					continue
				}
				if u, ok := st.Addr.(*ssa.UnOp); ok {
					if fa, ok := u.X.(*ssa.FieldAddr); ok {
						if n2, owner := FieldOf(fa); n2 == "Replicas" && strings.HasSuffix(owner, "ReplicaSetSpec") {
							n++
							depends("R17.2", "getNewReplicaSet#creation-size", fn, st.Val, "a new ReplicaSet is created with a size from NewRSNewReplicas and the lower bound", fromCall("util.NewRSNewReplicas"), fromCall("util.NewRSReplicasLowerBound"))
						}
					}
				}
			}
		}
		if n == 0 {
			c.Ob("R17.2", "getNewReplicaSet#creation-size", fn.Pos(), false, "size of a newly created ReplicaSet", "anchor not found")
		}
	}

	// ---- R17.4
	for _, h := range []struct{ fn, field, owner string }{
		{"pkg/controller/deployment/util.GetAvailableReplicaCountForReplicaSets", "AvailableReplicas", "ReplicaSetStatus"},
		{"pkg/controller/deployment/util.GetReadyReplicaCountForReplicaSets", "ReadyReplicas", "ReplicaSetStatus"},
		{"pkg/controller/deployment/util.GetReplicaCountForReplicaSets", "Replicas", "ReplicaSetSpec"},
		{"pkg/controller/deployment/util.GetActualReplicaCountForReplicaSets", "Replicas", "ReplicaSetStatus"},
	} {
		fn := p.Func(h.fn)
		if fn == nil {
			c.Unresolved("R17.4", h.fn)
			continue
		}
		reads := map[string]bool{}
		for _, b := range fn.Blocks {
			for _, in := range b.Instrs {
				if fa, ok := in.(*ssa.FieldAddr); ok {
					n, owner := FieldOf(fa)
					if strings.HasSuffix(owner, "ReplicaSetStatus") || strings.HasSuffix(owner, "ReplicaSetSpec") {
						reads[owner[strings.LastIndex(owner, ".")+1:]+"."+n] = true
					}
				}
			}
		}
		want := h.owner + "." + h.field
		ok := reads[want] && len(reads) == 1
		var got []string
		for k := range reads {
			got = append(got, k)
		}
		c.Ob("R17.4", shortName(h.fn)+"#reads("+want+")", fn.Pos(), ok, "the helper sums "+want, ifs(!ok, "it reads "+strings.Join(got, ", ")+": pods that are ready but not yet available (minReadySeconds) would be counted as available and too many old pods removed"))
	}
}

// mAccumulator matches a loop-carried running total: a phi one of whose inputs
// is itself plus a non-constant amount (a range index, which adds the constant
// 1, is not one).
func mAccumulator(t *Term) bool {
	phi, ok := t.V.(*ssa.Phi)
	if !ok {
		return false
	}
	// the phis that feed phi through phi edges only (loop header and merge points of one variable)
	group := map[ssa.Value]bool{phi: true}
	work := []*ssa.Phi{phi}
	for len(work) > 0 {
		p := work[len(work)-1]
		work = work[:len(work)-1]
		for _, e := range p.Edges {
			if q, ok := e.(*ssa.Phi); ok && !group[q] {
				group[q] = true
				work = append(work, q)
			}
		}
	}
	for v := range group {
		for _, e := range v.(*ssa.Phi).Edges {
			b, ok := e.(*ssa.BinOp)
			if !ok || b.Op != token.ADD {
				continue
			}
			other := b.Y
			switch {
			case group[b.X]:
			case group[b.Y]:
				other = b.X
			default:
				continue
			}
			if _, isConst := other.(*ssa.Const); !isConst {
				return true
			}
		}
	}
	return false
}
