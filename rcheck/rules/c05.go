package rules

import (
	"fmt"
	"go/constant"
	"go/types"
	"regexp"
	"sort"
	"strings"

	"golang.org/x/tools/go/ssa"

	. "verif/rcheck/engine"
)

func init() {
	register(&Prop{
		ID:  "C05",
		Run: runC05,
		Explanation: "The relational statement 'cluster after == cluster before' is not decided. Decided are the save/restore and hold/release pairings every exit path relies on, over all seven workload controllers: " +
			"(R5.1) every hold-back knob (partition, paused, strategy, maxSurge, maxUnavailable, minReadySeconds, progressDeadlineSeconds) that the admission webhook, Initialize or UpgradeBatch sets on a workload kind is released by that controller's Finalize (knobs are read from the patch-builder calls and from the JSON keys of the raw patch bodies, with the value deciding hold vs release); " +
			"(R5.1c) blue-green: every field InitOriginalSetting saves is restored by Finalize from GetOriginalSetting, and nothing is restored that was not saved; " +
			"(R5.2) on every success return of Finalize the paired undo has run: RestoreHPA (blue-green, paired with DisableHPA in Initialize) and the canary Deployment's Delete (canary style); " +
			"(R5.3) the composite provider finalises every child: the loop over providers has no exit but exhaustion; (R5.4) every object the controllers create carries an owner reference to the Rollout / BatchRelease; " +
			"(R5.5) both finalising entry points remove the in-progress marker before the first cleanup task; (R5.6) the control-info annotation is written by every Initialize and deleted by every Finalize.",
		NotDecided:  "equality with the pre-rollout state, provider-level restore (C13/C14/C15 decide their structural part), HPA semantics, convergence of the native controller, exits taken before any sub-status exists.",
		Assumptions: []string{"a knob written with a non-releasing value by Initialize/UpgradeBatch, or by the webhook for that kind (table anchored in the handler's stores), is a hold", "closures are the same-package functions reachable from the entry"},
	})
}

type knobWrite struct {
	knob    string
	release bool // value is the releasing one (null / false / nil) or dynamic in Finalize
	dynamic bool
	pos     ssa.Instruction
}

var knobRe = regexp.MustCompile(`"(partition|paused|strategy|maxSurge|maxUnavailable|minReadySeconds|progressDeadlineSeconds)"\s*:\s*("[^"]*"|[^,}\s]+)`)

var builderKnob = map[string][]string{
	"UpdatePaused":                  {"paused"},
	"UpdatePartiton":                {"partition"},
	"UpdateStrategy":                {"strategy"},
	"UpdateMaxSurge":                {"maxSurge"},
	"UpdateMaxUnavailable":          {"maxUnavailable"},
	"UpdateMinReadySeconds":         {"minReadySeconds"},
	"UpdateProgressDeadlineSeconds": {"progressDeadlineSeconds"},
}

// knobWrites lists the hold-back knobs the functions write, with the polarity of the written value.
func knobWrites(fns []*ssa.Function) []knobWrite {
	var out []knobWrite
	for _, fn := range fns {
		for _, b := range fn.Blocks {
			for _, in := range b.Instrs {
				// raw patch bodies: constant strings
				for _, op := range in.Operands(nil) {
					k, ok := (*op).(*ssa.Const)
					if !ok || k.Value == nil || k.Value.Kind() != constant.String {
						continue
					}
					for _, m := range knobRe.FindAllStringSubmatch(constant.StringVal(k.Value), -1) {
						w := knobWrite{knob: m[1], pos: in}
						switch m[2] {
						case "null", "false":
							w.release = true
						default:
							if strings.Contains(m[2], "%") {
								w.dynamic = true
							}
						}
						out = append(out, w)
					}
				}
				// patch builders
				call, ok := in.(*ssa.Call)
				if !ok {
					continue
				}
				cn := CalleeName(&call.Call)
				if !strings.Contains(cn, "pkg/util/patch.") {
					continue
				}
				m := cn[strings.LastIndex(cn, ".")+1:]
				for _, knob := range builderKnob[m] {
					w := knobWrite{knob: knob, pos: in}
					if len(call.Call.Args) >= 2 {
						switch a := call.Call.Args[1].(type) {
						case *ssa.Const:
							if a.IsNil() || (a.Value != nil && a.Value.Kind() == constant.Bool && !constant.BoolVal(a.Value)) {
								w.release = true
							}
						default:
							w.dynamic = true
						}
					}
					out = append(out, w)
				}
			}
		}
	}
	return out
}

func samePkgClosure(p *Program, entry *ssa.Function) []*ssa.Function {
	if entry == nil {
		return nil
	}
	var out []*ssa.Function
	for fn := range p.ReachableFrom(entry) {
		root := fn
		for root.Parent() != nil {
			root = root.Parent()
		}
		if root.Pkg == entry.Pkg {
			out = append(out, fn)
		}
	}
	sort.Slice(out, func(i, j int) bool { return FuncName(out[i]) < FuncName(out[j]) })
	return out
}

func constStringsIn(fns []*ssa.Function) map[string]bool {
	out := map[string]bool{}
	for _, fn := range fns {
		for _, b := range fn.Blocks {
			for _, in := range b.Instrs {
				for _, op := range in.Operands(nil) {
					if k, ok := (*op).(*ssa.Const); ok && k.Value != nil && k.Value.Kind() == constant.String {
						out[constant.StringVal(k.Value)] = true
					}
				}
			}
		}
	}
	return out
}

func runC05(c *Ctx) {
	p := c.Prog
	c.Rule("R5.1", "every hold-back knob set by the webhook, Initialize or UpgradeBatch is released by the controller's Finalize", 10)
	c.Rule("R5.1c", "blue-green: saved original settings and restored settings cover each other", 9)
	c.Rule("R5.2", "the paired undo (RestoreHPA, canary Delete) has run on every success return of Finalize", 5)
	c.Rule("R5.3", "the composite provider finalises every child provider", 1)
	c.Rule("R5.4", "created objects carry an owner reference", 3)
	c.Rule("R5.5", "the in-progress marker is removed before the first cleanup task", 2)
	c.Rule("R5.6", "the control-info annotation is written by every Initialize and deleted by every Finalize", 14)

	cp := "pkg/controller/batchrelease/control/"
	type ctl struct {
		name, pkg, recv string
		webhookFn       string // handler anchoring the webhook hold
		webhookAnchor   string // field stored / function called there
		webhookHolds    []string
		hasUpgrade      bool
	}
	wh := "pkg/webhook/workload/mutating."
	ctls := []ctl{
		{"partition/CloneSet", cp + "partitionstyle/cloneset", "realController", wh + "WorkloadHandler.handleCloneSet", "Partition", []string{"partition"}, true},
		{"partition/DaemonSet", cp + "partitionstyle/daemonset", "realController", wh + "WorkloadHandler.handleDaemonSet", "Partition", []string{"partition"}, true},
		{"partition/StatefulSet", cp + "partitionstyle/statefulset", "realController", wh + "UnifiedWorkloadHandler.handleStatefulSetLikeWorkload", "util.SetStatefulSetPartition", []string{"partition"}, true},
		{"partition/Deployment", cp + "partitionstyle/deployment", "realController", wh + "WorkloadHandler.handleDeployment", "Paused", []string{"paused", "strategy"}, true},
		{"bluegreen/Deployment", cp + "bluegreenstyle/deployment", "realController", wh + "WorkloadHandler.handleDeployment", "Paused", []string{"paused"}, true},
		{"bluegreen/CloneSet", cp + "bluegreenstyle/cloneset", "realController", wh + "WorkloadHandler.handleCloneSet", "Partition", []string{"partition"}, true},
		{"canary/Deployment(stable)", cp + "canarystyle/deployment", "realStableController", wh + "WorkloadHandler.handleDeployment", "Paused", []string{"paused"}, false},
	}
	ctrlAnno := ""
	if k := p.ConstObj("github.com/openkruise/rollouts/pkg/util", "BatchReleaseControlAnnotation"); k != nil {
		ctrlAnno = ConstVal(k)
	} else {
		c.Unresolved("R5.6", "util.BatchReleaseControlAnnotation")
	}
	for _, ct := range ctls {
		initFn := p.Func(ct.pkg + "." + ct.recv + ".Initialize")
		finFn := p.Func(ct.pkg + "." + ct.recv + ".Finalize")
		var upFn *ssa.Function
		if ct.hasUpgrade {
			upFn = p.Func(ct.pkg + "." + ct.recv + ".UpgradeBatch")
		}
		if initFn == nil || finFn == nil || (ct.hasUpgrade && upFn == nil) {
			c.Unresolved("R5.1", ct.name+": Initialize/UpgradeBatch/Finalize")
			continue
		}
		// webhook anchor
		anchored := false
		if hf0 := p.Func(ct.webhookFn); hf0 != nil {
			for _, hf := range samePkgClosure(p, hf0) {
				for _, b := range hf.Blocks {
					for _, in := range b.Instrs {
						if st, ok := in.(*ssa.Store); ok {
							if fa, ok := st.Addr.(*ssa.FieldAddr); ok {
								if n, _ := FieldOf(fa); n == ct.webhookAnchor {
									anchored = true
								}
							}
						}
						if ci, ok := in.(ssa.CallInstruction); ok && strings.Contains(ct.webhookAnchor, ".") && NameMatch(CalleeName(ci.Common()), ct.webhookAnchor) {
							anchored = true
						}
					}
				}
			}
		}
		if !anchored {
			c.Unresolved("R5.1", ct.name+": webhook handler "+ct.webhookFn+" no longer sets "+ct.webhookAnchor)
			continue
		}
		holdFns := samePkgClosure(p, initFn)
		if upFn != nil {
			holdFns = append(holdFns, samePkgClosure(p, upFn)...)
		}
		finFns := samePkgClosure(p, finFn)
		holds := map[string]string{}
		for _, k := range ct.webhookHolds {
			holds[k] = "the admission webhook (" + shortName(ct.webhookFn) + ")"
		}
		for _, w := range knobWrites(holdFns) {
			if w.release {
				continue
			}
			if _, ok := holds[w.knob]; !ok {
				holds[w.knob] = FuncName(w.pos.Parent()) + " at " + p.Pos(w.pos.Pos())
			}
		}
		released := map[string]bool{}
		for _, w := range knobWrites(finFns) {
			switch w.knob {
			case "partition", "paused":
				if w.release || w.dynamic {
					released[w.knob] = true
				}
			default:
				released[w.knob] = true
			}
		}
		if released["maxSurge"] && released["maxUnavailable"] {
			released["strategy"] = true // the rolling-update parameters are the strategy knobs the release touches
		}
		if released["strategy"] {
			released["maxSurge"], released["maxUnavailable"] = true, true
		}
		var ks []string
		for k := range holds {
			ks = append(ks, k)
		}
		sort.Strings(ks)
		for _, k := range ks {
			ok := released[k]
			c.Ob("R5.1", ct.name+"#"+k, finFn.Pos(), ok, "knob "+k+" held by "+holds[k]+" is released by Finalize",
				ifs(!ok, "Finalize of "+ct.name+" never writes a releasing value for "+k+": a rollout that ends before another step released it leaves the workload held back"))
		}
		// R5.6
		if ctrlAnno != "" {
			ci := constStringsIn(samePkgClosure(p, initFn))
			c.Ob("R5.6", ct.name+"#Initialize-marks", initFn.Pos(), ci[ctrlAnno], "Initialize writes the control-info annotation", ifs(!ci[ctrlAnno], "the annotation key is not used in Initialize"))
			del := false
			for _, fn := range finFns {
				cs := constStringsIn([]*ssa.Function{fn})
				if !cs[ctrlAnno] {
					continue
				}
				for s := range cs {
					if strings.Contains(s, `"annotations":{"%s":null`) {
						del = true
					}
				}
				for _, call := range CallsIn(fn, "patch.CommonPatch.DeleteAnnotation") {
					if k, ok := call.Common().Args[1].(*ssa.Const); ok && k.Value != nil && constant.StringVal(k.Value) == ctrlAnno {
						del = true
					}
				}
			}
			c.Ob("R5.6", ct.name+"#Finalize-unmarks", finFn.Pos(), del, "Finalize deletes the control-info annotation", ifs(!del, "no delete of the annotation key in Finalize"))
		}
	}

	// ---------------- R5.1c
	osT := p.NamedType("github.com/openkruise/rollouts/pkg/controller/batchrelease/control", "OriginalDeploymentStrategy")
	initOS := p.Func("pkg/controller/batchrelease/control.InitOriginalSetting")
	if osT == nil || initOS == nil {
		c.Unresolved("R5.1c", "OriginalDeploymentStrategy / InitOriginalSetting")
	} else {
		fields := structFields(osT)
		saved := map[string]int{}
		for _, st := range StoresToField(initOS, func(fa *ssa.FieldAddr) bool {
			_, owner := FieldOf(fa)
			return strings.HasSuffix(owner, "OriginalDeploymentStrategy")
		}) {
			n, _ := FieldOf(st.Addr.(*ssa.FieldAddr))
			saved[n]++
		}
		for _, bg := range []struct{ name, pkg, builder string }{
			{"bluegreen/Deployment", cp + "bluegreenstyle/deployment", "DeploymentPatch"},
			{"bluegreen/CloneSet", cp + "bluegreenstyle/cloneset", "ClonesetPatch"},
		} {
			fin := p.Func(bg.pkg + ".realController.Finalize")
			if fin == nil {
				c.Unresolved("R5.1c", bg.name+".Finalize")
				continue
			}
			bt := p.NamedType("github.com/openkruise/rollouts/pkg/util/patch", bg.builder)
			// Finalize and the same-package helpers it is split into
			var finCalls []ssa.CallInstruction
			for _, ff := range samePkgClosure(p, fin) {
				finCalls = append(finCalls, AllCalls(ff)...)
			}
			for _, f := range fields {
				hasMethod := false
				if bt != nil {
					ms := types.NewMethodSet(types.NewPointer(bt))
					for i := 0; i < ms.Len(); i++ {
						if ms.At(i).Obj().Name() == "Update"+f {
							hasMethod = true
						}
					}
				}
				restored := false
				for _, call := range finCalls {
					if !strings.HasSuffix(CalleeName(call.Common()), bg.builder+".Update"+f) || len(call.Common().Args) < 2 {
						continue
					}
					t := TermOf(call.Common().Args[1])
					if t.Any(func(x *Term) bool {
						return x.Op == "field" && x.Name == f && x.Any(MCall("control.GetOriginalSetting"))
					}) {
						restored = true
					}
					// the saved setting may be handed to a patch-building helper as a parameter
					if t.Any(func(x *Term) bool { return x.Op == "field" && x.Name == f }) && derivesFromCallUp(p, call.Common().Args[1], "control.GetOriginalSetting", 0) {
						restored = true
					}
				}
				switch {
				case !hasMethod:
					c.Ob("R5.1c", bg.name+"#"+f, fin.Pos(), !restored, "field "+f+" does not exist on this kind (the patch builder has no Update"+f+"): nothing to restore", "")
				default:
					ok := restored && saved[f] > 0
					c.Ob("R5.1c", bg.name+"#"+f, fin.Pos(), ok, "field "+f+" is saved by InitOriginalSetting and restored by Finalize from the saved value",
						ifs(!restored, "Finalize does not call Update"+f+" with the saved "+f+"; ")+ifs(saved[f] == 0, "InitOriginalSetting never stores "+f))
				}
			}
			// nothing restored that is not a saved field: every Update* argument in the restore patch
			// that reads the setting reads a field of the saved struct (type-checked), so only count
			for _, call := range finCalls {
				cn := CalleeName(call.Common())
				if !strings.Contains(cn, bg.builder+".Update") || len(call.Common().Args) < 2 {
					continue
				}
				m := cn[strings.LastIndex(cn, ".Update")+len(".Update"):]
				if m == "Paused" || m == "Partiton" {
					continue
				}
				t := TermOf(call.Common().Args[1])
				fromSaved := t.Any(MCall("control.GetOriginalSetting")) || derivesFromCallUp(p, call.Common().Args[1], "control.GetOriginalSetting", 0)
				c.Ob("R5.1c", bg.name+"#restore-source("+m+")", call.Pos(), fromSaved, "Finalize sets "+m+" from the saved original", ifs(!fromSaved, "Finalize writes "+m+" = "+t.String()+", which is not the saved original"))
			}
		}
		for _, f := range fields {
			want := 2
			if f == "ProgressDeadlineSeconds" {
				want = 1 // CloneSet has no such field
			}
			c.Ob("R5.1c", "InitOriginalSetting#saves("+f+")", initOS.Pos(), saved[f] >= want, fmt.Sprintf("%s is saved for %d workload kinds", f, saved[f]), ifs(saved[f] < want, fmt.Sprintf("saved on %d kinds, expected %d", saved[f], want)))
		}
	}

	// ---------------- R5.2
	mustPass := func(rule, construct string, fn *ssa.Function, must func(ssa.Instruction) bool, what string, exempt ...FactM) {
		mustPassOnSuccess(c, rule, construct, fn, must, what, exempt...)
	}
	for _, bg := range []struct{ name, pkg string }{{"bluegreen/Deployment", cp + "bluegreenstyle/deployment"}, {"bluegreen/CloneSet", cp + "bluegreenstyle/cloneset"}} {
		ini := p.Func(bg.pkg + ".realController.Initialize")
		fin := p.Func(bg.pkg + ".realController.Finalize")
		if ini == nil || fin == nil {
			c.Unresolved("R5.2", bg.name)
			continue
		}
		dis := len(CallsIn(ini, "hpa.DisableHPA")) > 0
		res := CallsIn(fin, "hpa.RestoreHPA")
		c.Ob("R5.2", bg.name+"#DisableHPA~RestoreHPA", fin.Pos(), dis == (len(res) > 0) && dis, "Initialize disables the HPA and Finalize restores it", ifs(!dis, "Initialize no longer disables the HPA; ")+ifs(len(res) == 0, "Finalize never restores the HPA"))
		// the final `return hpa.RestoreHPA(...)` is itself the undo; every constant-nil return must have passed it,
		// except the declared "continuous release is not supported" exit
		mustPass("R5.2", bg.name+"#RestoreHPA", fin, func(in ssa.Instruction) bool {
			ci, ok := in.(ssa.CallInstruction)
			return ok && NameMatch(CalleeName(ci.Common()), "hpa.RestoreHPA")
		}, "success only after RestoreHPA", FNotNil(MField("BatchPartition")))
		// and the undo must be reachable at all on the already-restored path (idempotent second pass)
		if len(res) > 0 {
			reach, _ := CanReach(Entry(fin), func(in ssa.Instruction) bool { return in == res[0].(ssa.Instruction) }, ReachOpts{CutEdge: func(b *ssa.BasicBlock, k int) bool {
				return EdgeFactMatches(b, k, FFalse(MCall("realController.restored")))
			}})
			c.Ob("R5.2", bg.name+"#RestoreHPA-after-restored", res[0].Pos(), reach, "RestoreHPA is still reached when the workload was already restored by an earlier pass", ifs(!reach, "RestoreHPA runs only together with the restore patch: a failure between the two writes is never repaired"))
		}
	}
	if fin := p.Func(cp + "canarystyle.realCanaryController.Finalize"); fin == nil {
		c.Unresolved("R5.2", "canarystyle control plane Finalize")
	} else {
		isDelete := MustDo(func(in ssa.Instruction) bool {
			ci, ok := in.(ssa.CallInstruction)
			return ok && ci.Common().IsInvoke() && ci.Common().Method.Name() == "Delete" && strings.Contains(ci.Common().Value.Type().String(), "CanaryInterface")
		})
		found := false
		for _, ci := range AllCalls(fin) {
			if isDelete(ci.(ssa.Instruction)) {
				found = true
			}
		}
		c.Ob("R5.2", "canary/control-plane#Delete-called", fin.Pos(), found, "Finalize deletes the canary Deployments", ifs(!found, "no canary Delete call"))
		mustPass("R5.2", "canary/control-plane#Delete", fin, isDelete, "success only after the canary Deployments were deleted (their finalizers stripped)")
	}

	// ---------------- R5.3
	if fin := p.Func("pkg/trafficrouting/network.CompositeController.Finalise"); fin == nil {
		c.Unresolved("R5.3", "CompositeController.Finalise")
	} else {
		var call ssa.Instruction
		for _, ci := range AllCalls(fin) {
			if ci.Common().IsInvoke() && ci.Common().Method.Name() == "Finalise" {
				call = ci.(ssa.Instruction)
			}
		}
		if call == nil {
			c.Ob("R5.3", "CompositeController.Finalise#loop", fin.Pos(), false, "children are finalised", "anchor not found: no child Finalise call")
		} else {
			// the loop = blocks that reach the call block and are reachable from it
			fwd := reachBlocks(call.Block(), false)
			bwd := reachBlocks(call.Block(), true)
			loop := map[*ssa.BasicBlock]bool{}
			for b := range fwd {
				if bwd[b] {
					loop[b] = true
				}
			}
			exits := map[*ssa.BasicBlock]bool{}
			for b := range loop {
				for _, s := range b.Succs {
					if !loop[s] {
						exits[b] = true
					}
				}
			}
			ok := len(loop) > 1 && len(exits) == 1
			c.Ob("R5.3", "CompositeController.Finalise#loop", call.Pos(), ok, fmt.Sprintf("the provider loop (%d blocks) is left only when all providers were finalised", len(loop)),
				ifs(!ok, fmt.Sprintf("the loop has %d exit points: a provider can be skipped, and with gracePeriodSeconds 0 the caller never comes back", len(exits))))
		}
	}

	// ---------------- R5.4
	for _, fn := range p.RepoFuncs() {
		name := FuncName(fn)
		if !(strings.HasPrefix(name, "pkg/controller/rollout.") || strings.HasPrefix(name, "pkg/controller/batchrelease") || strings.HasPrefix(name, "pkg/trafficrouting")) {
			continue
		}
		for _, ci := range AllCalls(fn) {
			if !(ci.Common().IsInvoke() && ci.Common().Method.Name() == "Create" && strings.Contains(ci.Common().Value.Type().String(), "client.") && len(ci.Common().Args) >= 2) {
				continue
			}
			obj := ci.Common().Args[1]
			owned := setsOwner(p, fn, obj, 0)
			c.Ob("R5.4", name+"#Create("+strings.TrimPrefix(obj.Type().String(), "*")+")", ci.Pos(), owned, "the created object carries an owner reference, so it cannot outlive the rollout even if a cleanup task is skipped",
				ifs(!owned, "no OwnerReferences are set on the object passed to Create"))
		}
	}

	// ---------------- R5.5
	for _, m := range []string{"pkg/controller/rollout.canaryReleaseManager.doCanaryFinalising", "pkg/controller/rollout.blueGreenReleaseManager.doCanaryFinalising"} {
		fn := p.Func(m)
		if fn == nil {
			c.Unresolved("R5.5", m)
			continue
		}
		rm := CallsIn(fn, "rollout.removeRolloutProgressingAnnotation")
		isTask := func(in ssa.Instruction) bool {
			ci, ok := in.(ssa.CallInstruction)
			if !ok {
				return false
			}
			cn := CalleeName(ci.Common())
			return strings.Contains(cn, "trafficrouting.Manager.") || NameMatch(cn, "rollout.removeBatchRelease") || strings.HasSuffix(cn, ".resumeWorkload") || NameMatch(cn, "rollout.finalizingBatchRelease")
		}
		reach, at := CanReach(Entry(fn), isTask, ReachOpts{CutInstr: func(in ssa.Instruction) bool {
			for _, r := range rm {
				if in == r.(ssa.Instruction) {
					return true
				}
			}
			return false
		}})
		detail := ""
		if reach {
			detail = "cleanup task at " + p.Pos(at.Pos()) + " is reachable before the in-progress marker is removed"
		}
		c.Ob("R5.5", shortName(m)+"#marker-first", fn.Pos(), len(rm) > 0 && !reach, "the in-progress annotation is removed before any cleanup task runs", ifs(len(rm) == 0, "removeRolloutProgressingAnnotation is not called; ")+detail)
	}
}

// reachBlocks: blocks reachable from b (or reaching b when backward), excluding b unless on a cycle.
func reachBlocks(b *ssa.BasicBlock, backward bool) map[*ssa.BasicBlock]bool {
	seen := map[*ssa.BasicBlock]bool{}
	var work []*ssa.BasicBlock
	next := func(x *ssa.BasicBlock) []*ssa.BasicBlock {
		if backward {
			return x.Preds
		}
		return x.Succs
	}
	work = append(work, next(b)...)
	for len(work) > 0 {
		x := work[len(work)-1]
		work = work[:len(work)-1]
		if seen[x] {
			continue
		}
		seen[x] = true
		work = append(work, next(x)...)
	}
	return seen
}

// rootOfObject strips addressing, loads and interface conversions down to the allocation / parameter.
func rootOfObject(v ssa.Value) ssa.Value {
	for i := 0; i < 32; i++ {
		switch x := v.(type) {
		case *ssa.MakeInterface:
			v = x.X
		case *ssa.ChangeInterface:
			v = x.X
		case *ssa.FieldAddr:
			v = x.X
		case *ssa.UnOp:
			v = x.X
		case *ssa.Phi:
			return v
		default:
			return v
		}
	}
	return v
}

// setsOwner reports whether the object passed to Create is given owner references: in fn itself
// (field store or SetOwnerReferences / SetControllerReference on the same object), or in a
// repository function whose result the object is built from (two levels).
func setsOwner(p *Program, fn *ssa.Function, obj ssa.Value, depth int) bool {
	base := rootOfObject(obj)
	for _, b := range fn.Blocks {
		for _, in := range b.Instrs {
			switch x := in.(type) {
			case *ssa.Store:
				if fa, ok := x.Addr.(*ssa.FieldAddr); ok {
					if n, _ := FieldOf(fa); n == "OwnerReferences" && (rootOfObject(fa) == base || depth > 0) {
						return true
					}
				}
			case *ssa.Call:
				cn := CalleeName(&x.Call)
				if strings.HasSuffix(cn, ".SetOwnerReferences") || strings.HasSuffix(cn, "controllerutil.SetControllerReference") {
					for _, a := range x.Call.Args {
						if rootOfObject(a) == base || depth > 0 {
							return true
						}
					}
				}
			}
		}
	}
	if depth >= 2 {
		return false
	}
	for x := range BackwardSlice(obj) {
		call, ok := x.(*ssa.Call)
		if !ok {
			continue
		}
		var callees []*ssa.Function
		for _, f := range p.Callees(call) {
			if f.Blocks != nil && strings.HasPrefix(FuncName(f), "pkg/") && f.Parent() == nil {
				callees = append(callees, f)
			}
		}
		if len(callees) == 0 {
			continue
		}
		all := true // every implementation behind an interface call must do it
		for _, f := range callees {
			one := false
			for _, ret := range returnsOf(f) {
				for _, r := range ret.Results {
					if _, isPtr := r.Type().Underlying().(*types.Pointer); isPtr && setsOwner(p, f, r, depth+1) {
						one = true
					}
				}
			}
			if !one {
				all = false
			}
		}
		if all {
			return true
		}
	}
	return false
}

// mustPassOnSuccess: every return of fn whose last (error) result can be nil — a constant nil, or
// client.IgnoreNotFound(err), which turns NotFound into nil — is reachable only through an
// instruction satisfying must, unless the facts at the return match an exemption.
func mustPassOnSuccess(c *Ctx, rule, construct string, fn *ssa.Function, must func(ssa.Instruction) bool, what string, exempt ...FactM) int {
	n := 0
	for _, ret := range returnsOf(fn) {
		if ret.Block() == fn.Recover || len(ret.Results) == 0 {
			continue
		}
		res := ret.Results[len(ret.Results)-1]
		succ := ""
		for _, lf := range Leaves(res, ret.Block()) {
			if k, ok := lf.V.(*ssa.Const); ok && k.IsNil() {
				succ = "return nil"
			}
			if call, ok := lf.V.(*ssa.Call); ok && NameMatch(CalleeName(&call.Call), "client.IgnoreNotFound") {
				succ = "return client.IgnoreNotFound(err)"
			}
		}
		if succ == "" {
			continue
		}
		fs := FactsAtInstr(ret)
		ex := false
		for _, e := range exempt {
			if HasFact(fs, e) {
				ex = true
			}
		}
		if ex {
			continue
		}
		n++
		reach, _ := CanReach(Entry(fn), func(in ssa.Instruction) bool { return in == ssa.Instruction(ret) }, ReachOpts{CutInstr: must})
		c.Ob(rule, construct+"#success-return", ret.Pos(), !reach, what, ifs(reach, "this `"+succ+"` is reachable without the required step having run")).WithFacts(fs)
	}
	return n
}

// derivesFromCallUp: v depends on the result of a call matching pat, in its own function or — when
// it depends on a parameter — at every call site of that function (two levels up).
func derivesFromCallUp(p *Program, v ssa.Value, pat string, depth int) bool {
	if SliceHas(v, MCall(pat)) {
		return true
	}
	if depth >= 2 {
		return false
	}
	for x := range BackwardSlice(v) {
		par, ok := x.(*ssa.Parameter)
		if !ok {
			continue
		}
		f := par.Parent()
		idx := -1
		for i, q := range f.Params {
			if q == par {
				idx = i
			}
		}
		cs := p.Callers(f)
		if idx < 0 || len(cs) == 0 {
			continue
		}
		all := true
		for _, site := range cs {
			if site.Kind == "closure" || idx >= len(site.Args) || !derivesFromCallUp(p, site.Args[idx], pat, depth+1) {
				all = false
			}
		}
		if all {
			return true
		}
	}
	return false
}
