package rules

import (
	"fmt"
	"strings"

	"golang.org/x/tools/go/ssa"

	. "verif/rcheck/engine"
)

func init() {
	register(&Prop{
		ID:  "C02",
		Run: runC02,
		Explanation: "Decides 'every write of the step cursor is dominated by its gate': (R2.1) all stores to CommonStatus.CurrentStepState / CurrentStepIndex in the whole program are enumerated by field identity and classified by the constant stored; each must carry, as branch facts on every path (or along every call path for the user-request handlers), the gate of that transition " +
			"(Upgrade only from Init; TrafficRouting only after doCanaryUpgrade reported done or in a jump between steps of equal replicas; MetricsAnalysis only after DoTrafficRouting reported done; Paused after analysis; Ready only after doCanaryPaused reported done; next step only from Ready with steps left; Completed only from Ready with no steps left); " +
			"(R2.1j) the jump compares the target step with the step that was current before the cursor moved; (R2.2) doCanaryUpgrade returns done only under spec-current, generation-observed, batch Ready and currentBatch+1 >= step; (R2.3) doCanaryPaused returns done only after the configured duration elapsed (or the 100% last-step shortcut); " +
			"(R2.4) every handler that can make progress is called only under isRolloutPaused()==false and the Paused reason only flips back under !spec.paused; (R2.5) each gate function is reachable only through the switch edges of its own state.",
		NotDecided:  "that the persisted status is what the next reconcile reads (API semantics); the BatchRelease side of 'pods upgraded and ready' (C11); restart interleavings themselves — only that every advance re-derives its guard from persisted fields on every path.",
		Assumptions: []string{"facts are syntactic branch conditions over SSA terms; a guard that is present but semantically wrong (e.g. wrong arithmetic inside a predicate) is not detected"},
	})
}

type stepConsts struct{ init, upgrade, routing, analysis, paused, ready, completed string }

func loadStepConsts(c *Ctx, rule string) (stepConsts, bool) {
	p := c.Prog
	get := func(n string) string {
		k := p.ConstObj("api/v1beta1", n)
		if k == nil {
			c.Unresolved(rule, "constant v1beta1."+n)
			return ""
		}
		return ConstVal(k)
	}
	s := stepConsts{get("CanaryStepStateInit"), get("CanaryStepStateUpgrade"), get("CanaryStepStateTrafficRouting"), get("CanaryStepStateMetricsAnalysis"),
		get("CanaryStepStatePaused"), get("CanaryStepStateReady"), get("CanaryStepStateCompleted")}
	return s, s.init != "" && s.upgrade != "" && s.routing != "" && s.analysis != "" && s.paused != "" && s.ready != "" && s.completed != ""
}

func stateIs(v string) FactM { return FCmp("==", MField("CurrentStepState"), MConst(v)) }

func runC02(c *Ctx) {
	p := c.Prog
	c.Rule("R2.1", "every store to the step sub-state is dominated by the gate of the transition it performs", 14)
	c.Rule("R2.1i", "every store to the step index is one of: 1 (init/rollback), idx+1 from Ready with steps left, validated jump target, len(steps) on first deployment", 4)
	c.Rule("R2.1k", "whenever the step index is written, the next-step index is re-derived from it (NextBatchIndex) before the function returns", 4)
	c.Rule("R2.1j", "the jump compares the target step's replicas with the step that was current before the cursor moved", 2)
	c.Rule("R2.2", "doCanaryUpgrade reports done only under the four BatchRelease facts and runBatchRelease done", 2)
	c.Rule("R2.3", "doCanaryPaused reports done only after the pause duration elapsed (or the 100% last-step shortcut)", 3)
	c.Rule("R2.4", "no handler that can make progress runs while the rollout is paused", 3)
	c.Rule("R2.5", "each gate function is reachable only through the case of its own state", 5)

	sc, ok := loadStepConsts(c, "R2.1")
	if !ok {
		return
	}
	checkStepStores(c, sc, "R2.1", "R2.1i", "R2.1k", nil)

	checkJumpCompare(c, "R2.1j")

	// R2.2
	for _, fn := range p.FuncsMatching("doCanaryUpgrade") {
		for _, ret := range returnsOf(fn) {
			for _, lf := range BoolLeaves(ret.Results[0], ret.Block()) {
				t := TermOf(lf.V)
				if t.Op != "const" {
					c.Ob("R2.2", FuncName(fn)+"#return(non-constant)", ret.Pos(), false, "done result is not a constant", "undecided: "+t.String())
					continue
				}
				if t.Name != "true" {
					continue
				}
				needs := []need{
					{"runBatchRelease done == true", FTrue(MResult("rollout.runBatchRelease", 0))},
					{"runBatchRelease err == nil", FNil(MResult("rollout.runBatchRelease", 2))},
					{"ObservedReleasePlanHash == HashReleasePlanBatches(spec)", FCmp("==", MField("ObservedReleasePlanHash"), MCall("util.HashReleasePlanBatches"))},
					{"Generation == ObservedGeneration", FCmp("==", MField("Generation"), MField("ObservedGeneration"))},
					{"CurrentBatchState == Ready", FCmp("==", MField("CurrentBatchState"), MConst(ConstVal(p.ConstObj("api/v1beta1", "ReadyBatchState"))))},
					{"CurrentBatch+1 >= CurrentStepIndex", FCmp(">=", MBin("+", MField("CurrentBatch"), MConst("1")), MField("CurrentStepIndex"))},
				}
				var missing, req []string
				for _, n := range needs {
					req = append(req, n.desc)
					if !HasFact(lf.Facts, n.m) {
						missing = append(missing, n.desc)
					}
				}
				c.Ob("R2.2", FuncName(fn)+"#return(done)", ret.Pos(), len(missing) == 0, "upgrade reported done", ifs(len(missing) > 0, "missing: "+strings.Join(missing, "; "))).WithFacts(lf.Facts).Req(req...)
			}
		}
	}

	// R2.3
	for _, fn := range p.FuncsMatching("doCanaryPaused") {
		for _, ret := range returnsOf(fn) {
			for _, lf := range BoolLeaves(ret.Results[0], ret.Block()) {
				t := TermOf(lf.V)
				if t.Op != "const" {
					c.Ob("R2.3", FuncName(fn)+"#return(non-constant)", ret.Pos(), false, "done result is not a constant", "undecided: "+t.String())
					continue
				}
				if t.Name != "true" {
					continue
				}
				elapsed := HasFact(lf.Facts, FNotNil(MField("Pause", "Duration"))) &&
					HasFact(lf.Facts, FTrue(MCall("time.Time.Before", MAnd(MHas(MField("LastUpdateTime")), MHas(MField("Pause", "Duration"))), MCall("time.Now"))))
				lastFull := strings.Contains(FuncName(fn), "canaryReleaseManager") &&
					HasFact(lf.Facts, FCmp("==", MHas(MLen(MField("Steps"))), MField("CurrentStepIndex"))) &&
					HasFact(lf.Facts, FCmp("==", MField("Replicas", "StrVal"), MConst("100%")))
				ok := elapsed || lastFull
				c.Ob("R2.3", FuncName(fn)+"#return(done)", ret.Pos(), ok, "pause reported satisfied",
					ifs(!ok, "needs (Pause.Duration != nil and LastUpdateTime+Duration before now) or, canary only, (last step and replicas == 100%)")).WithFacts(lf.Facts)
			}
		}
	}

	// R2.4 paused short-circuit (dispatch-order part shared with C10)
	checkDispatch(c, "R2.4", true)
	if fn := p.Func("pkg/controller/rollout.RolloutReconciler.reconcileRolloutProgressing"); fn != nil {
		rPaused := ConstVal(p.ConstObj("api/v1alpha1", "ProgressingReasonPaused"))
		n := 0
		for _, call := range AllCalls(fn) {
			fs := FactsAtInstr(call.(ssa.Instruction))
			if !HasFact(fs, FCmp("==", MField("Reason"), MConst(rPaused))) {
				continue
			}
			name := CalleeName(call.Common())
			if strings.HasPrefix(name, "k8s.io/klog") {
				continue
			}
			n++
			ok := NameMatch(name, "rollout.progressingStateTransition") && HasFact(fs, FFalse(MField("Strategy", "Paused")))
			c.Ob("R2.4", "reconcileRolloutProgressing#case(Paused)#"+shortName(name), call.Pos(), ok, "while paused the only effect is the transition back under !spec.strategy.paused",
				ifs(!ok, "call in the Paused case that is not the un-pause transition")).WithFacts(fs)
		}
		if n == 0 {
			c.Ob("R2.4", "reconcileRolloutProgressing#case(Paused)", fn.Pos(), false, "Paused case", "anchor not found")
		}
	} else {
		c.Unresolved("R2.4", "RolloutReconciler.reconcileRolloutProgressing")
	}

	// R2.5 gate reachable only via its state's case
	for _, fn := range p.FuncsMatching("runCanary") {
		if fn.Signature.Recv() == nil {
			continue
		}
		gates := []struct {
			callee string
			states []string
		}{
			{"doCanaryUpgrade", []string{sc.init, sc.upgrade}},
			{"trafficrouting.Manager.DoTrafficRouting", []string{sc.routing}},
			{"doCanaryMetricsAnalysis", []string{sc.analysis}},
			{"doCanaryPaused", []string{sc.paused}},
		}
		for _, g := range gates {
			calls := CallsIn(fn, g.callee)
			if len(calls) == 0 {
				c.Ob("R2.5", FuncName(fn)+"#gate("+g.callee+")", fn.Pos(), false, "gate call", "anchor not found: the step machine does not call "+g.callee)
				continue
			}
			for _, call := range calls {
				reach, _ := CanReach(Entry(fn), func(in ssa.Instruction) bool { return in == call.(ssa.Instruction) }, ReachOpts{CutEdge: func(b *ssa.BasicBlock, k int) bool {
					for _, s := range g.states {
						if EdgeFactMatches(b, k, stateIs(s)) {
							return true
						}
					}
					return false
				}})
				c.Ob("R2.5", FuncName(fn)+"#gate("+g.callee+")", call.Pos(), !reach, g.callee+" runs only in state(s) "+strings.Join(g.states, ","),
					ifs(reach, "gate reachable without passing a CurrentStepState == <its state> edge"))
			}
		}
	}
}

func shortName(n string) string {
	if i := strings.LastIndex(n, "/"); i >= 0 {
		return n[i+1:]
	}
	return n
}

// checkDispatch verifies doProgressingInRolling's special-case dispatch: each handler call
// carries the negation of all earlier predicates and its own predicate (R10.1); with pausedOnly
// only the paused short-circuit (R2.4) is recorded.
func checkDispatch(c *Ctx, rule string, pausedOnly bool) {
	p := c.Prog
	fn := p.Func("pkg/controller/rollout.RolloutReconciler.doProgressingInRolling")
	if fn == nil {
		c.Unresolved(rule, "RolloutReconciler.doProgressingInRolling")
		return
	}
	order := []struct{ pred, handler string }{
		{"rollout.isRollingBackDirectly", "handleRollbackDirectly"},
		{"rollout.isRolloutPaused", "handleRolloutPaused"},
		{"rollout.isRollingBackInBatches", "handleRollbackInBatches"},
		{"rollout.isContinuousRelease", "handleContinuousRelease"},
		{"rollout.isRolloutPlanChanged", "handleRolloutPlanChanged"},
		{"", "handleNormalRolling"},
	}
	for i, o := range order {
		calls := CallsIn(fn, "RolloutReconciler."+o.handler)
		if len(calls) == 0 {
			c.Ob(rule, "doProgressingInRolling#"+o.handler, fn.Pos(), false, "handler call", "anchor not found: "+o.handler+" is not called")
			continue
		}
		for _, call := range calls {
			fs := FactsAtInstr(call.(ssa.Instruction))
			var missing []string
			if pausedOnly {
				if i >= 2 && !HasFact(fs, FFalse(MCall("rollout.isRolloutPaused"))) {
					missing = append(missing, "isRolloutPaused == false")
				}
				if i < 2 {
					continue
				}
			} else {
				for j := 0; j < i; j++ {
					if !HasFact(fs, FFalse(MCall(order[j].pred))) {
						missing = append(missing, order[j].pred+" == false")
					}
				}
				if o.pred != "" && !HasFact(fs, FTrue(MCall(o.pred))) {
					missing = append(missing, o.pred+" == true")
				}
			}
			c.Ob(rule, "doProgressingInRolling#"+o.handler, call.Pos(), len(missing) == 0, o.handler+" dispatch guard", ifs(len(missing) > 0, "missing: "+strings.Join(missing, "; "))).WithFacts(fs)
		}
	}
	// any other call that is not a predicate/handler/log must not exist before the paused check… (handlers are the only effects)
}

// checkStepStores classifies every store to CommonStatus.CurrentStepState / CurrentStepIndex in the
// program and requires the gate of the transition. only!=nil restricts to some stored state values
// (used by C03 for the entry into the TrafficRouting state) and then skips the index rules.
func checkStepStores(c *Ctx, sc stepConsts, rState, rIdx, rPair string, only map[string]bool) {
	p := c.Prog
	stateFld := p.FieldVar("api/v1beta1", "CommonStatus", "CurrentStepState")
	idxFld := p.FieldVar("api/v1beta1", "CommonStatus", "CurrentStepIndex")
	if stateFld == nil || idxFld == nil {
		c.Unresolved(rState, "fields v1beta1.CommonStatus.CurrentStepState/CurrentStepIndex")
		return
	}
	rInit := ConstVal(p.ConstObj("api/v1alpha1", "ProgressingReasonInitializing"))
	phaseHealthy := ConstVal(p.ConstObj("api/v1beta1", "RolloutPhaseHealthy"))
	upgradeDone := func(fs []Fact) bool {
		return HasFact(fs, FTrue(MResult("doCanaryUpgrade", 0))) && HasFact(fs, FNil(MResult("doCanaryUpgrade", 1)))
	}
	fullReplica := func(fs []Fact) bool {
		return HasFact(fs, FTrue(MCall("v1beta1.IsRealPartition"))) &&
			HasFact(fs, FCmp(">=", MResult("intstr.GetScaledValueFromIntOrPercent", 0), MHas(MField("Replicas"))))
	}
	jumpGuard := func(fs []Fact) bool {
		return HasFact(fs, FCmp("!=", MField("NextStepIndex"), MCall("util.NextBatchIndex"))) &&
			HasFact(fs, FCmp(">", MField("NextStepIndex"), MConst("0")))
	}
	replicasEqual := func(pol bool) FactM {
		m := MCall("reflect.DeepEqual", MHas(MField("Replicas")), MHas(MField("Replicas")))
		if pol {
			return FTrue(m)
		}
		return FFalse(m)
	}

	// facts along call paths from doProgressingInRolling for the user-request handlers
	pathFactsFrom := func(fn *ssa.Function, site ssa.Instruction) [][]Fact {
		var out [][]Fact
		for _, cp := range p.CallPaths(fn, func(f *ssa.Function) bool { return f.Name() == "doProgressingInRolling" }, 4) {
			out = append(out, PathFacts(cp, site))
		}
		return out
	}
	allPaths := func(fn *ssa.Function, site ssa.Instruction, m FactM) bool {
		pf := pathFactsFrom(fn, site)
		if len(pf) == 0 {
			return false
		}
		for _, fs := range pf {
			if !HasFact(fs, m) {
				return false
			}
		}
		return true
	}

	for _, fn := range p.RepoFuncs() {
		for _, st := range StoresToField(fn, func(fa *ssa.FieldAddr) bool { return TermOf(fa).Fld == stateFld }) {
			// a value chosen by a result variable is judged per definition, under the facts selecting it
			for _, lf := range Leaves(st.Val, st.Block()) {
				vt := TermOf(lf.V)
				construct := FuncName(fn) + "#store(CurrentStepState="
				if vt.Op != "const" {
					// copy code: value is a load of the same-named field of another object
					if vt.Op == "field" && vt.Name == "CurrentStepState" {
						continue
					}
					c.Ob(rState, construct+"non-constant)", st.Pos(), false, "step state written with a non-constant value", "undecided: "+vt.String())
					continue
				}
				if only != nil && !only[vt.Name] {
					continue
				}
				if only != nil && only["__index_only__"] {
					continue
				}
				fs := lf.Facts
				var ok bool
				var need string
				switch vt.Name {
				case sc.upgrade:
					ok = HasFact(fs, stateIs(sc.init))
					need = "in the case of state " + sc.init
				case sc.routing:
					ok = upgradeDone(fs) || (jumpGuard(fs) && HasFact(fs, replicasEqual(true)))
					need = "doCanaryUpgrade()==(true,nil), or a jump (NextStepIndex != natural next, > 0) between steps of equal replicas"
				case sc.analysis:
					ok = (HasFact(fs, FTrue(MResult("trafficrouting.Manager.DoTrafficRouting", 0))) && HasFact(fs, FNil(MResult("trafficrouting.Manager.DoTrafficRouting", 1))) && HasFact(fs, stateIs(sc.routing))) ||
						(upgradeDone(fs) && fullReplica(fs))
					need = "DoTrafficRouting()==(true,nil) in state " + sc.routing + ", or upgrade done on a full-replica real-partition step (traffic handled in Init)"
				case sc.paused:
					ok = HasFact(fs, FTrue(MResult("doCanaryMetricsAnalysis", 0))) && HasFact(fs, stateIs(sc.analysis))
					need = "doCanaryMetricsAnalysis done in state " + sc.analysis
				case sc.ready:
					ok = (HasFact(fs, FTrue(MResult("doCanaryPaused", 0))) && HasFact(fs, FNil(MResult("doCanaryPaused", 1))) && HasFact(fs, stateIs(sc.paused))) ||
						(allPaths(fn, st, FTrue(MCall("rollout.isRolloutPlanChanged"))) && HasFact(fs, FCmp("==", MField("NextStepIndex"), MResult("recalculateCanaryStep", 0))))
					need = "doCanaryPaused()==(true,nil) in state " + sc.paused + ", or plan-changed handler when the recalculated step equals NextStepIndex"
				case sc.init:
					ok = (HasFact(fs, stateIs(sc.ready)) && HasFact(fs, FCmp(">", MLen(MField("Steps")), MHas(MField("CurrentStepIndex"))))) ||
						(jumpGuard(fs) && HasFact(fs, replicasEqual(false))) ||
						allPaths(fn, st, FTrue(MCall("rollout.isRollingBackInBatches"))) ||
						HasFact(fs, FCmp("==", MField("Reason"), MConst(rInit)))
					need = "state " + sc.ready + " with steps left; or jump to a step with different replicas; or rollback-in-batches; or progressing reason Initializing"
				case sc.completed:
					ok = (HasFact(fs, stateIs(sc.ready)) && HasFact(fs, FCmp("<=", MLen(MField("Steps")), MHas(MField("CurrentStepIndex"))))) ||
						(HasFact(fs, FCmp("==", MField("Phase"), MConst(phaseHealthy))) && HasFact(fs, FTrue(MCall("IsSubStatusEmpty"))) && HasFact(fs, FFalse(MField("InRolloutProgressing"))))
					need = "state " + sc.ready + " with no steps left; or first deployment (phase Healthy, no sub-status, workload not in progress)"
				default:
					need = "a known step state"
				}
				c.Ob(rState, construct+vt.Name+")", st.Pos(), ok, "CurrentStepState = "+vt.Name, ifs(!ok, "gate missing: "+need)).WithFacts(fs).Req(need)
			}
		}
		for _, st := range StoresToField(fn, func(fa *ssa.FieldAddr) bool { return TermOf(fa).Fld == idxFld }) {
			if only != nil && !only["__index_only__"] {
				break
			}
			vt := TermOf(st.Val)
			fs := FactsAtInstr(st)
			construct := FuncName(fn) + "#store(CurrentStepIndex="
			switch {
			case vt.Op == "field" && vt.Name == "CurrentStepIndex" && !strings.Contains(FuncName(fn), "doCanaryJump"):
				continue // copy code
			case vt.Op == "const" && vt.Name == "1":
				ok := HasFact(fs, FCmp("==", MField("Reason"), MConst(rInit))) || allPaths(fn, st, FTrue(MCall("rollout.isRollingBackInBatches")))
				c.Ob(rIdx, construct+"1)", st.Pos(), ok, "CurrentStepIndex = 1", ifs(!ok, "restart from step one outside Initializing / rollback-in-batches")).WithFacts(fs)
			case vt.Op == "binop" && vt.Name == "+" && vt.Args[1].Op == "const" && vt.Args[1].Name == "1" && vt.Args[0].Op == "field" && vt.Args[0].Fld == idxFld:
				ok := HasFact(fs, stateIs(sc.ready)) && HasFact(fs, FCmp(">", MLen(MField("Steps")), MHas(MField("CurrentStepIndex"))))
				c.Ob(rIdx, construct+"idx+1)", st.Pos(), ok, "CurrentStepIndex++", ifs(!ok, "increment outside (state Ready, steps left)")).WithFacts(fs)
			case vt.Op == "field" && vt.Name == "NextStepIndex":
				ok := jumpGuard(fs)
				c.Ob(rIdx, construct+"NextStepIndex)", st.Pos(), ok, "jump: CurrentStepIndex = NextStepIndex", ifs(!ok, "jump without NextStepIndex != natural next and > 0")).WithFacts(fs)
			case vt.Any(MLen(MCall("GetSteps"))):
				ok := HasFact(fs, FTrue(MCall("IsSubStatusEmpty"))) && HasFact(fs, FCmp("==", MField("Phase"), MConst(phaseHealthy)))
				c.Ob(rIdx, construct+"len(steps))", st.Pos(), ok, "first deployment shortcut", ifs(!ok, "len(steps) written outside (phase Healthy, empty sub-status)")).WithFacts(fs)
			default:
				c.Ob(rIdx, construct+"other)", st.Pos(), false, "unrecognised write of the step index", "undecided: value "+vt.String()).WithFacts(fs)
			}
			// R2.1k: a stale NextStepIndex would be taken for a user's step-jump request on the next reconcile
			isNext := func(in ssa.Instruction) bool {
				s2, ok := in.(*ssa.Store)
				if !ok {
					return false
				}
				fa, ok := s2.Addr.(*ssa.FieldAddr)
				if !ok {
					return false
				}
				if n, _ := FieldOf(fa); n != "NextStepIndex" {
					return false
				}
				// the next index must be derived from the index just written: the same value, the same
				// constant, or a re-read of the very field that was written (not a mirror of it)
				for x := range BackwardSlice(s2.Val) {
					call, ok := x.(*ssa.Call)
					if !ok || !NameMatch(CalleeName(&call.Call), "util.NextBatchIndex") || len(call.Call.Args) < 2 {
						continue
					}
					arg := call.Call.Args[1]
					at, vt2 := TermOf(arg), TermOf(st.Val)
					if arg == st.Val || at.String() == vt2.String() || (at.Op == "field" && at.Fld == idxFld) {
						return true
					}
				}
				return false
			}
			reach, _ := CanReach(PointAfter(st), IsReturn, ReachOpts{CutInstr: isNext})
			c.Ob(rPair, FuncName(fn)+"#pair(CurrentStepIndex,NextStepIndex)", st.Pos(), !reach, "NextStepIndex = NextBatchIndex(...) follows the index write on every path",
				ifs(reach, "a return is reachable after the index write without re-deriving NextStepIndex (the stale value reads as a jump request)"))
		}
	}

}

// checkJumpCompare: in each doCanaryJump the 'current' operand of DeepEqual is loaded before the cursor store.
func checkJumpCompare(c *Ctx, rule string) {
	p := c.Prog
	idxFld := p.FieldVar("api/v1beta1", "CommonStatus", "CurrentStepIndex")
	if idxFld == nil {
		c.Unresolved(rule, "field CurrentStepIndex")
		return
	}
	// R2.1j: in each doCanaryJump the 'current' operand of DeepEqual is loaded before the cursor store
	for _, fn := range p.FuncsMatching("doCanaryJump") {
		var idxStores []*ssa.Store
		for _, st := range StoresToField(fn, func(fa *ssa.FieldAddr) bool { return TermOf(fa).Fld == idxFld }) {
			idxStores = append(idxStores, st)
		}
		des := CallsIn(fn, "reflect.DeepEqual")
		if len(des) != 1 || len(idxStores) != 1 {
			c.Ob(rule, FuncName(fn)+"#jump-compare", fn.Pos(), false, "one DeepEqual and one cursor store expected in the jump", fmt.Sprintf("found %d / %d", len(des), len(idxStores)))
			continue
		}
		de := des[0]
		// collect loads of CurrentStepIndex / NextStepIndex feeding each operand
		type opInfo struct {
			loadsIdxAfterStore bool
			usesNext, usesCur  bool
		}
		var ops []opInfo
		for _, a := range de.Common().Args {
			var oi opInfo
			for v := range BackwardSlice(a) {
				if u, ok := v.(*ssa.UnOp); ok {
					if fa, ok := u.X.(*ssa.FieldAddr); ok {
						n, _ := FieldOf(fa)
						if n == "CurrentStepIndex" {
							oi.usesCur = true
							if r, _ := CanReach(PointAfter(idxStores[0]), func(in ssa.Instruction) bool { return in == ssa.Instruction(u) }, ReachOpts{}); r {
								oi.loadsIdxAfterStore = true
							}
						}
						if n == "NextStepIndex" {
							oi.usesNext = true
						}
					}
				}
			}
			ops = append(ops, oi)
		}
		ok := len(ops) == 2 && ((ops[0].usesNext && ops[1].usesCur && !ops[1].loadsIdxAfterStore && !ops[1].usesNext) ||
			(ops[1].usesNext && ops[0].usesCur && !ops[0].loadsIdxAfterStore && !ops[0].usesNext))
		c.Ob(rule, FuncName(fn)+"#jump-compare", de.Pos(), ok, "DeepEqual(target step replicas, previous current step replicas)",
			ifs(!ok, "one operand must be indexed by NextStepIndex and the other by the CurrentStepIndex value read before the cursor store (otherwise the step is compared with itself)"))
	}

}
