package rules

import (
	"fmt"
	"go/types"
	"strings"

	"golang.org/x/tools/go/ssa"

	. "verif/rcheck/engine"
)

func init() {
	register(&Prop{
		ID:  "C04",
		Run: runC04,
		Explanation: "Decides the ordering clauses behind 'routes are withdrawn before the Service they point to is removed; the stable Service is un-pinned before the last stable pod is replaced; the persisted cleanup cursor never runs ahead of the effects': " +
			"(R4.1) every finalising task sequence literal ([]FinalisingStepType) in the program, per finalise reason, satisfies the order constraints K1..K6 and the next-task lookup returns seq[0] / seq[i+1] / END under the right facts (exhaustive over table rows); " +
			"(R4.2) in both doCanaryFinalising the case for task T dispatches to T's cleanup function; (R4.3) the stores that advance the persisted FinalisingStep cursor, the stage chain of doProgressingReset and the three stages of FinalisingTrafficRouting are reachable only through the success edges (err==nil and retry==false) of the preceding cleanup call; " +
			"(R4.6) both doCanaryUpgrade store status.podTemplateHash (the canary Service selector) from the observed workload on every path that reports the upgrade done, so routes never point the canary Service at pods of a superseded revision; (R4.5) in the canary step machine the full-replica partition step restores the stable Service successfully before the Upgrade state is entered.",
		NotDecided:  "provider internals (whether the gateway has observed the route withdrawal before the Service goes), informer-cache staleness, that pods of a revision actually exist; R4.4 (canary Service present before EnsureRoutes) is decided under C03 R3.2.",
		Assumptions: []string{"a crash can only land between two API writes; the cursor/order rules are the whole static content of 'at every prefix'"},
	})
}

const (
	tResume    = "FinalisingStepResumeWorkload"
	tRelease   = "FinalisingStepReleaseWorkloadControl"
	tToStable  = "FinalisingStepRouteTrafficToStable"
	tRestore   = "FinalisingStepRestoreStableService"
	tRemoveSvc = "FinalisingStepRemoveCanaryService"
	tToNew     = "FinalisingStepRouteTrafficToNew"
	tEnd       = "FinalisingStepTypeEnd"
	tWait      = "FinalisingStepWaitEndless"
)

func runC04(c *Ctx) {
	p := c.Prog
	c.Rule("R4.1", "every finalising task sequence satisfies the order constraints K1..K6 (exhaustive over table rows)", 5)
	c.Rule("R4.1b", "next-task lookup returns seq[0] when nothing ran, seq[i+1] after seq[i], END otherwise", 2)
	c.Rule("R4.2", "doCanaryFinalising dispatches task T to T's cleanup function", 8)
	c.Rule("R4.3a", "FinalisingStep cursor advances only through err==nil and retry==false of the dispatched cleanup call", 9)
	c.Rule("R4.3b", "doProgressingReset: each stage and the done result are reached only through the previous stage's success", 4)
	c.Rule("R4.3c", "FinalisingTrafficRouting: stable Service, gateway, canary Service in that order, each after the previous one's success", 3)
	c.Rule("R4.5", "canary StepInit: full-replica partition step restores the stable Service successfully before entering Upgrade", 1)
	c.Rule("R4.6", "the canary selector hash is refreshed from the observed workload whenever the upgrade step completes", 2)
	checkSelectorRefresh(c)

	val := map[string]string{}
	for _, n := range []string{tResume, tRelease, tToStable, tRestore, tRemoveSvc, tToNew, tEnd, tWait} {
		k := p.ConstObj("api/v1beta1", n)
		if k == nil {
			c.Unresolved("R4.1", "constant v1beta1."+n)
			return
		}
		val[n] = ConstVal(k)
	}
	name := map[string]string{}
	for n, v := range val {
		name[v] = n
	}
	rRollback := ConstVal(p.ConstObj("api/v1beta1", "FinaliseReasonRollback"))
	rSuccess := ConstVal(p.ConstObj("api/v1beta1", "FinaliseReasonSuccess"))
	stepT := p.NamedType("api/v1beta1", "FinalisingStepType")
	if stepT == nil || rRollback == "" || rSuccess == "" {
		c.Unresolved("R4.1", "type v1beta1.FinalisingStepType / finalise reasons")
		return
	}

	// ---- R4.1 tables
	lookupFns := map[*ssa.Function]bool{}
	for _, tl := range p.SliceLiteralsOf(stepT) {
		fn := "package-level"
		if tl.Fn != nil {
			fn = FuncName(tl.Fn)
			// the table may be held by the lookup itself or by a helper that only returns the
			// sequence for a reason: then the functions calling that helper are the lookups
			if res := tl.Fn.Signature.Results(); res.Len() == 1 && strings.HasPrefix(res.At(0).Type().String(), "[]") && len(tl.Fn.Params) < 2 {
				for _, cs := range p.Callers(tl.Fn) {
					if cs.Kind == "static" {
						lookupFns[cs.Caller] = true
					}
				}
			} else {
				lookupFns[tl.Fn] = true
			}
		}
		reason := "unconditional"
		if tl.InDefault {
			reason = "default"
		} else if tl.InCase {
			reason = strings.Join(tl.CaseVals, ",")
		}
		seq := tl.Elems
		idx := func(task string) int {
			for i, e := range seq {
				if e == val[task] {
					return i
				}
			}
			return -1
		}
		var bad []string
		before := func(k, a, b string) {
			ia, ib := idx(a), idx(b)
			if ia < 0 || ib < 0 {
				return // presence is K6's business
			}
			if !(ia < ib) {
				bad = append(bad, fmt.Sprintf("%s: %s must precede %s", k, a, b))
			}
		}
		// K6
		seen := map[string]bool{}
		for _, e := range seq {
			if seen[e] {
				bad = append(bad, "K6: duplicate task "+e)
			}
			seen[e] = true
			if e == "?" {
				bad = append(bad, "K6: non-constant element")
			}
			if e == val[tWait] || e == val[tEnd] {
				bad = append(bad, "K6: sequence contains "+name[e])
			}
		}
		for _, t := range []string{tResume, tRelease, tToStable, tRestore, tRemoveSvc} {
			if idx(t) < 0 {
				bad = append(bad, "K6: cleanup task "+t+" missing")
			}
		}
		before("K1 (routes withdrawn before the canary Service is removed)", tToStable, tRemoveSvc)
		before("K5 (routes withdrawn before the BatchRelease — and with it the canary pods — is deleted)", tToStable, tRelease)
		isRollback := tl.InCase && !tl.InDefault && contains(tl.CaseVals, rRollback)
		if isRollback {
			if len(seq) > 0 && seq[0] != val[tToStable] {
				bad = append(bad, "K3: a rollback sequence must start with "+tToStable)
			}
			before("K3 (traffic back on stable before the workload is resumed)", tToStable, tResume)
		} else {
			before("K2 (stable Service un-pinned before the remaining stable pods are replaced)", tRestore, tResume)
		}
		if idx(tToNew) >= 0 {
			before("K4 (all traffic on the new version before stable pods go)", tToNew, tResume)
			before("K4 (all traffic on the new version before the stable Service is un-pinned)", tToNew, tRestore)
			before("K1' (route-to-new happens while the canary Service exists)", tToNew, tRemoveSvc)
		}
		var pretty []string
		for _, e := range seq {
			if n, ok := name[e]; ok {
				pretty = append(pretty, strings.TrimPrefix(n, "FinalisingStep"))
			} else {
				pretty = append(pretty, e)
			}
		}
		o := c.Ob("R4.1", fn+"#sequence["+reason+"]", tl.Pos, len(bad) == 0, "task sequence for reason "+reason+": "+strings.Join(pretty, " → "), strings.Join(bad, "; "))
		o.Req("K1 ToStable<RemoveCanaryService", "K2 non-rollback: RestoreStableService<ResumeWorkload", "K3 rollback: ToStable first and <ResumeWorkload", "K4 ToNew<ResumeWorkload,RestoreStableService", "K5 ToStable<ReleaseWorkloadControl", "K6 duplicate-free, five cleanup tasks, no WaitEndless/END")
	}
	c.Extra["exhaustive_tables"] = true

	// ---- R4.1b lookup structure
	for fn := range lookupFns {
		checkLookup(c, fn, val[tEnd])
	}

	// ---- R4.2 / R4.3a dispatch in doCanaryFinalising
	dispatch := []struct{ callee, task string }{
		{"rollout.finalizingBatchRelease", tResume},
		{"rollout.removeBatchRelease", tRelease},
		{"trafficrouting.Manager.RestoreGateway", tToStable},
		{"trafficrouting.Manager.RestoreStableService", tRestore},
		{"trafficrouting.Manager.RemoveCanaryService", tRemoveSvc},
		{"trafficrouting.Manager.RouteAllTrafficToNewVersion", tToNew},
	}
	fins := p.FuncsMatching("doCanaryFinalising")
	if len(fins) < 2 {
		c.Unresolved("R4.2", "two doCanaryFinalising implementations")
	}
	for _, fn := range fins {
		var dcalls []ssa.CallInstruction
		resIdx := map[ssa.CallInstruction][2]int{} // call → (retry result index, error result index)
		// the dispatch may live in a same-package helper that forwards the task's (retry, err)
		scope := []*ssa.Function{fn}
		for _, ci := range AllCalls(fn) {
			h := ci.Common().StaticCallee()
			if h == nil || h.Pkg != fn.Pkg || h.Blocks == nil {
				continue
			}
			isDispatch := false
			for _, d := range dispatch {
				if len(CallsIn(h, d.callee)) > 0 {
					isDispatch = true
				}
			}
			if !isDispatch {
				continue
			}
			if r, e, ok := forwardsTaskResult(h, func(x ssa.CallInstruction) bool {
				for _, d := range dispatch {
					if NameMatch(CalleeName(x.Common()), d.callee) {
						return true
					}
				}
				return false
			}); ok {
				scope = append(scope, h)
				dcalls = append(dcalls, ci)
				resIdx[ci] = [2]int{r, e}
			} else {
				c.Ob("R4.3a", FuncName(fn)+"#dispatch-helper("+h.Name()+")", ci.Pos(), false, "a helper that runs the cleanup tasks hands their (retry, err) back unchanged", "undecided: "+h.Name()+" contains cleanup calls but does not forward their results on every path")
			}
		}
		for _, d := range dispatch {
			var calls []ssa.CallInstruction
			for _, f := range scope {
				calls = append(calls, CallsIn(f, d.callee)...)
			}
			for _, call := range calls {
				if call.Parent() == fn {
					dcalls = append(dcalls, call)
					resIdx[call] = [2]int{0, 1}
				}
				facts := FactsAtInstr(call)
				ok := HasFact(facts, FCmp("==", MField("FinalisingStep"), MConst(val[d.task])))
				c.Ob("R4.2", FuncName(fn)+"#dispatch("+d.callee+")", call.Pos(), ok, d.callee+" must run in the case of "+d.task,
					ifs(!ok, "call is not dominated by FinalisingStep == "+d.task)).WithFacts(facts)
			}
		}
		// stores to FinalisingStep
		for _, st := range FieldStores([]*ssa.Function{fn}, "", "FinalisingStep") {
			facts := FactsAtInstr(st)
			vt := TermOf(st.Val)
			switch {
			case HasFact(facts, FOr(FCmp("==", MLen(MField("FinalisingStep")), MConst("0")), FCmp("==", MField("FinalisingStep"), MConst("")))):
				c.Ob("R4.3a", FuncName(fn)+"#store(FinalisingStep)[initial]", st.Pos(), true, "cursor initialised while empty", "")
			case vt.Any(func(t *Term) bool {
				return t.Op == "call" && t.Fn != nil && lookupFns[t.Fn] && len(t.Args) == 2 && t.Args[1].Op == "const" && t.Args[1].Name == ""
			}):
				c.Ob("R4.3a", FuncName(fn)+"#store(FinalisingStep)[restart]", st.Pos(), true, "cursor reset to the first task of the sequence (unknown value)", "")
			default:
				// advance: must be behind success of every dispatch call that can reach it
				n := 0
				for _, d := range dcalls {
					reach, _ := CanReach(PointAfter(d.(ssa.Instruction)), func(in ssa.Instruction) bool { return in == ssa.Instruction(st) }, ReachOpts{})
					if !reach {
						continue
					}
					n++
					ok, by := OnlyVia(PointAfter(d.(ssa.Instruction)), func(in ssa.Instruction) bool { return in == ssa.Instruction(st) },
						FNil(MResultOf(d, resIdx[d][1])), FFalse(MResultOf(d, resIdx[d][0])))
					det := ""
					if !ok {
						det = "cursor store reachable from the call without passing " + pick(by, "err == nil", "retry == false")
					}
					c.Ob("R4.3a", FuncName(fn)+"#advance-after("+CalleeName(d.Common())+")", st.Pos(), ok, "FinalisingStep = next only after "+CalleeName(d.Common())+" succeeded", det)
				}
				if n == 0 {
					c.Ob("R4.3a", FuncName(fn)+"#store(FinalisingStep)[unclassified]", st.Pos(), false, "store to FinalisingStep that is neither initial, restart, nor after a cleanup call", "undecided: value "+vt.String()).WithFacts(facts)
				}
			}
		}
		// return true only under END or nil status
		for _, ret := range returnsOf(fn) {
			for _, lf := range BoolLeaves(ret.Results[0], ret.Block()) {
				t := TermOf(lf.V)
				if t.Op == "const" && t.Name == "true" {
					ok := HasFact(lf.Facts, FCmp("==", MField("FinalisingStep"), MConst(val[tEnd]))) ||
						HasFact(lf.Facts, FNil(MOr(MField("CanaryStatus"), MField("BlueGreenStatus"))))
					if !ok {
						// the comparison may be made on the value that has just been stored into the cursor
						for _, st := range StoresToField(fn, func(fa *ssa.FieldAddr) bool { n, _ := FieldOf(fa); return n == "FinalisingStep" }) {
							stored := TermOf(st.Val).String()
							if r, _ := CanReach(PointAfter(st), func(in ssa.Instruction) bool { return in == ssa.Instruction(ret) }, ReachOpts{}); !r {
								continue
							}
							if HasFact(lf.Facts, FCmp("==", func(x *Term) bool { return x.String() == stored }, MConst(val[tEnd]))) {
								ok = true
							}
						}
					}
					c.Ob("R4.3a", FuncName(fn)+"#return(done)", ret.Pos(), ok, "finalising reports done only at END (or when nothing was started)",
						ifs(!ok, "return true without FinalisingStep == END")).WithFacts(lf.Facts)
				} else if t.Op != "const" {
					c.Ob("R4.3a", FuncName(fn)+"#return(non-constant)", ret.Pos(), false, "done result is not a constant", "undecided: "+t.String())
				}
			}
		}
	}

	checkResetChain(c, "R4.3b", val)

	// ---- R4.3c FinalisingTrafficRouting
	if fn := p.Func("pkg/trafficrouting.Manager.FinalisingTrafficRouting"); fn == nil {
		c.Unresolved("R4.3c", "Manager.FinalisingTrafficRouting")
	} else {
		chain := []string{"trafficrouting.Manager.RestoreStableService", "trafficrouting.Manager.RestoreGateway", "trafficrouting.Manager.RemoveCanaryService"}
		var calls []ssa.CallInstruction
		okChain := true
		for _, n := range chain {
			cs := CallsIn(fn, n)
			if len(cs) != 1 {
				c.Ob("R4.3c", "FinalisingTrafficRouting#call("+n+")", fn.Pos(), false, "exactly one call expected", fmt.Sprintf("found %d", len(cs)))
				okChain = false
				continue
			}
			calls = append(calls, cs[0])
		}
		if okChain {
			for i := 1; i < len(calls); i++ {
				cur := calls[i]
				ok, by := OnlyVia(Entry(fn), func(in ssa.Instruction) bool { return in == cur.(ssa.Instruction) }, FNil(MResultOf(calls[i-1], 1)), FFalse(MResultOf(calls[i-1], 0)))
				c.Ob("R4.3c", "FinalisingTrafficRouting#"+shortCallee(cur)+"-after-"+shortCallee(calls[i-1]), cur.Pos(), ok,
					shortCallee(cur)+" runs only after "+shortCallee(calls[i-1])+" succeeded", ifs(!ok, "bypasses "+pick(by, "err == nil", "retry == false")))
			}
			for _, ret := range returnsOf(fn) {
				for _, lf := range BoolLeaves(ret.Results[0], ret.Block()) {
					t := TermOf(lf.V)
					if t.Op == "const" && t.Name == "true" {
						last := calls[len(calls)-1]
						ok := HasFact(lf.Facts, FCmp("==", MLen(MField("ObjectRef")), MConst("0"))) ||
							(HasFact(lf.Facts, FNil(MResultOf(last, 1))) && HasFact(lf.Facts, FFalse(MResultOf(last, 0))))
						c.Ob("R4.3c", "FinalisingTrafficRouting#return(done)", ret.Pos(), ok, "done only after RemoveCanaryService succeeded (or nothing to route)", ifs(!ok, "return true without the last stage's success")).WithFacts(lf.Facts)
					} else if t.Op != "const" {
						c.Ob("R4.3c", "FinalisingTrafficRouting#return(non-constant)", ret.Pos(), false, "done result is not a constant", "undecided: "+t.String())
					}
				}
			}
		}
	}

	// ---- R4.5 bypass in canary StepInit
	stUpgrade := ConstVal(p.ConstObj("api/v1beta1", "CanaryStepStateUpgrade"))
	stInit := ConstVal(p.ConstObj("api/v1beta1", "CanaryStepStateInit"))
	if fn := p.Func("pkg/controller/rollout.canaryReleaseManager.runCanary"); fn == nil {
		c.Unresolved("R4.5", "canaryReleaseManager.runCanary")
	} else {
		inInit := FCmp("==", MField("CurrentStepState"), MConst(stInit))
		var upgradeStores []*ssa.Store
		for _, st := range FieldStores([]*ssa.Function{fn}, "", "CurrentStepState") {
			if v, ok := StoredConst(st); ok && v == stUpgrade && HasFact(FactsAtInstr(st), inInit) {
				upgradeStores = append(upgradeStores, st)
			}
		}
		isUp := func(in ssa.Instruction) bool {
			for _, s := range upgradeStores {
				if in == ssa.Instruction(s) {
					return true
				}
			}
			return false
		}
		restores := CallsIn(fn, "trafficrouting.Manager.RestoreStableService")
		n := 0
		for _, b := range fn.Blocks {
			for k := range b.Succs {
				if !EdgeFactMatches(b, k, FTrue(MCall("v1beta1.IsRealPartition"))) {
					continue
				}
				if !HasFact(FactsFor(fn).At(b), inInit) {
					continue
				}
				n++
				start := Point{Block: b.Succs[k], Idx: 0}
				var needs []FactM
				for _, r := range restores {
					needs = append(needs, FNil(MResultOf(r, 1)), FFalse(MResultOf(r, 0)))
				}
				ok := len(restores) > 0
				det := "no RestoreStableService call in the step machine"
				if ok {
					var by []int
					ok, by = OnlyVia(start, isUp, needs...)
					det = ifs(!ok, "Upgrade state reachable from the full-replica edge without RestoreStableService "+pick(by, "err == nil", "retry == false"))
				}
				c.Ob("R4.5", "canaryReleaseManager.runCanary#bypass-9635", b.Instrs[len(b.Instrs)-1].Pos(), ok, "stable Service restored before a partition step that replaces every stable pod", det)
			}
		}
		if n == 0 || len(upgradeStores) == 0 {
			c.Ob("R4.5", "canaryReleaseManager.runCanary#bypass-9635[anchor]", fn.Pos(), false, "full-replica guard (IsRealPartition) in case StepInit", "anchor not found: no IsRealPartition()==true edge under CurrentStepState == StepInit, or no Upgrade store in that case")
		}
	}
}

func contains(xs []string, x string) bool {
	for _, y := range xs {
		if y == x {
			return true
		}
	}
	return false
}

func pick(idx []int, names ...string) string {
	var out []string
	for _, i := range idx {
		out = append(out, names[i%len(names)])
	}
	return strings.Join(out, ", ")
}

func shortCallee(c ssa.CallInstruction) string {
	n := CalleeName(c.Common())
	if i := strings.LastIndex(n, "."); i >= 0 {
		return n[i+1:]
	}
	return n
}

func returnsOf(fn *ssa.Function) []*ssa.Return {
	var out []*ssa.Return
	for _, b := range fn.Blocks {
		for _, in := range b.Instrs {
			if r, ok := in.(*ssa.Return); ok {
				out = append(out, r)
			}
		}
	}
	return out
}

// checkLookup verifies the next-task lookup structure of fn.
func checkLookup(c *Ctx, fn *ssa.Function, endVal string) {
	if len(fn.Params) < 2 {
		c.Ob("R4.1b", FuncName(fn)+"#lookup", fn.Pos(), false, "next-task lookup", "undecided: function holding a task table does not take (reason, currentTask)")
		return
	}
	checkLookupFrom(c, fn, fn.Params[len(fn.Params)-1], endVal, 0)
}

// checkLookupFrom: cur is the parameter of fn that holds the current task; a return that hands
// (…, cur) to another function of the package is decided in that function.
func checkLookupFrom(c *Ctx, fn *ssa.Function, cur *ssa.Parameter, endVal string, depth int) {
	isCur := func(t *Term) bool { return t.Op == "param" && t.V == ssa.Value(cur) }
	for _, ret := range returnsOf(fn) {
		if len(ret.Results) != 1 {
			c.Ob("R4.1b", FuncName(fn)+"#lookup", ret.Pos(), false, "next-task lookup", "undecided: unexpected result arity")
			continue
		}
		for _, lf := range Leaves(ret.Results[0], ret.Block()) {
			t := TermOf(lf.V)
			switch {
			case t.Op == "const" && t.Name == endVal:
				c.Ob("R4.1b", FuncName(fn)+"#return(END)", ret.Pos(), true, "END when the current task is the last one or unknown", "")
			case t.Op == "index" && t.Args[1].Op == "const" && t.Args[1].Name == "0":
				ok := HasFact(lf.Facts, FOr(FCmp("==", MLen(isCur), MConst("0")), FCmp("==", isCur, MConst(""))))
				c.Ob("R4.1b", FuncName(fn)+"#return(seq[0])", ret.Pos(), ok, "first task only when no task ran yet", ifs(!ok, "seq[0] returned without len(currentTask) == 0")).WithFacts(lf.Facts)
			case t.Op == "index" && t.Args[1].Op == "binop" && t.Args[1].Name == "+" && t.Args[1].Args[1].Op == "const" && t.Args[1].Args[1].Name == "1":
				i := t.Args[1].Args[0]
				seq := t.Args[0]
				sameI := func(x *Term) bool { return x.String() == i.String() }
				sameSeq := func(x *Term) bool { return x.String() == seq.String() }
				eq := HasFact(lf.Facts, FCmp("==", isCur, func(x *Term) bool {
					return x.Op == "index" && sameSeq(x.Args[0]) && sameI(x.Args[1])
				}))
				// i < len(seq)-1  ≡  i+1 < len(seq)  ≡  i+1 <= len(seq)-1
				bound := HasFact(lf.Facts, FCmp("<", sameI, MBin("-", MLen(sameSeq), MConst("1")))) ||
					HasFact(lf.Facts, FCmp("<", MBin("+", sameI, MConst("1")), MLen(sameSeq))) ||
					HasFact(lf.Facts, FCmp("<=", MBin("+", sameI, MConst("1")), MBin("-", MLen(sameSeq), MConst("1"))))
				ok := eq && bound
				c.Ob("R4.1b", FuncName(fn)+"#return(seq[i+1])", ret.Pos(), ok, "successor of the current task", ifs(!ok, "seq[i+1] returned without currentTask == seq[i] and i < len(seq)-1")).WithFacts(lf.Facts)
			default:
				if call, ok := lf.V.(*ssa.Call); ok && depth < 2 {
					if callee := call.Call.StaticCallee(); callee != nil && callee.Pkg == fn.Pkg && len(callee.Blocks) > 0 {
						handed := -1
						for i, a := range call.Call.Args {
							if a == ssa.Value(cur) && i < len(callee.Params) {
								handed = i
							}
						}
						if handed >= 0 {
							checkLookupFrom(c, callee, callee.Params[handed], endVal, depth+1)
							continue
						}
					}
				}
				c.Ob("R4.1b", FuncName(fn)+"#return(other)", ret.Pos(), false, "next-task lookup returns an unrecognised value", "undecided: "+t.String()).WithFacts(lf.Facts)
			}
		}
	}
}

// checkResetChain decides the stage chain of doProgressingReset (gateway, then BatchRelease, then canary Service).
func checkResetChain(c *Ctx, rule string, val map[string]string) {
	p := c.Prog
	if fn := p.Func("pkg/controller/rollout.RolloutReconciler.doProgressingReset"); fn == nil {
		c.Unresolved(rule, "RolloutReconciler.doProgressingReset")
	} else {
		gw := CallsIn(fn, "trafficrouting.Manager.RestoreGateway")
		rmSvc := CallsIn(fn, "trafficrouting.Manager.RemoveCanaryService")
		var rmBR []ssa.CallInstruction
		for _, call := range CallsIn(fn, "rollout.removeBatchRelease") {
			// the one on the traffic-routing branch
			if HasFact(FactsAtInstr(call), FTrue(MCall("HasTrafficRoutings"))) {
				rmBR = append(rmBR, call)
			}
		}
		if len(gw) != 1 || len(rmSvc) != 1 || len(rmBR) != 1 {
			c.Ob(rule, "doProgressingReset#stages", fn.Pos(), false, "expected one RestoreGateway, one removeBatchRelease (traffic branch) and one RemoveCanaryService call",
				fmt.Sprintf("found %d/%d/%d", len(gw), len(rmBR), len(rmSvc)))
		} else {
			isInstr := func(x ssa.CallInstruction) func(ssa.Instruction) bool {
				return func(in ssa.Instruction) bool { return in == x.(ssa.Instruction) }
			}
			trBranch := FTrue(MCall("HasTrafficRoutings"))
			_ = trBranch
			// stage 2 reachable only via (cursor == ReleaseWorkloadControl) or success of stage 1
			stage := func(label string, prev ssa.CallInstruction, cur ssa.CallInstruction, curTask, prevTask string, needRetry bool) {
				cut := func(b *ssa.BasicBlock, k int) bool {
					if EdgeFactMatches(b, k, FCmp("==", MField("FinalisingStep"), MConst(val[curTask]))) {
						return true
					}
					// sequential form (`if step == prev {…}; if step == cur {…}`): passing over the previous
					// stage because the cursor is not there is the resume edge too (that the cursor only
					// moves forward after a success is what the cursor-store obligations below decide)
					if EdgeFactMatches(b, k, FCmp("!=", MField("FinalisingStep"), MConst(val[prevTask]))) {
						return true
					}
					return false
				}
				// from entry, without the resume-at-this-stage edge, the stage is reachable only through prev's success
				needs := []FactM{FNil(MResultOf(prev, 1))}
				names := []string{"err == nil"}
				if needRetry {
					needs = append(needs, FFalse(MResultOf(prev, 0)))
					names = append(names, "retry == false")
				}
				var by []string
				for i, n := range needs {
					n := n
					reach, _ := CanReach(Entry(fn), isInstr(cur), ReachOpts{CutEdge: func(b *ssa.BasicBlock, k int) bool { return cut(b, k) || EdgeFactMatches(b, k, n) }})
					if reach {
						by = append(by, names[i])
					}
				}
				c.Ob(rule, "doProgressingReset#"+label, cur.Pos(), len(by) == 0, label+" only after the previous stage succeeded (or when resuming at the persisted cursor "+curTask+")",
					ifs(len(by) > 0, "stage reachable without "+strings.Join(by, ", ")+" of "+CalleeName(prev.Common())))
			}
			stage("removeBatchRelease-after-RestoreGateway", gw[0], rmBR[0], tRelease, tToStable, true)
			stage("RemoveCanaryService-after-removeBatchRelease", rmBR[0], rmSvc[0], tRemoveSvc, tRelease, true)
			// cursor stores
			for _, st := range FieldStores([]*ssa.Function{fn}, "", "FinalisingStep") {
				v, isC := StoredConst(st)
				tgt := func(in ssa.Instruction) bool { return in == ssa.Instruction(st) }
				switch {
				case isC && v == val[tToStable]:
					c.Ob(rule, "doProgressingReset#store(RouteTrafficToStable)", st.Pos(), true, "cursor (re)starts at the first stage", "")
				case isC && v == val[tRelease]:
					ok, by := OnlyVia(Entry(fn), tgt, FNil(MResultOf(gw[0], 1)), FFalse(MResultOf(gw[0], 0)))
					c.Ob(rule, "doProgressingReset#store(ReleaseWorkloadControl)", st.Pos(), ok, "cursor moves past the gateway stage only after RestoreGateway succeeded", ifs(!ok, "bypasses "+pick(by, "err == nil", "retry == false")))
				case isC && v == val[tRemoveSvc]:
					ok, by := OnlyVia(Entry(fn), tgt, FNil(MResultOf(rmBR[0], 1)), FFalse(MResultOf(rmBR[0], 0)))
					c.Ob(rule, "doProgressingReset#store(RemoveCanaryService)", st.Pos(), ok, "cursor moves past the BatchRelease stage only after removeBatchRelease succeeded", ifs(!ok, "bypasses "+pick(by, "err == nil", "retry == false")))
				default:
					c.Ob(rule, "doProgressingReset#store(other)", st.Pos(), false, "unexpected cursor store", "undecided: value "+TermOf(st.Val).String())
				}
			}
			// done results
			for _, ret := range returnsOf(fn) {
				for _, lf := range BoolLeaves(ret.Results[0], ret.Block()) {
					t := TermOf(lf.V)
					if t.Op != "const" {
						c.Ob(rule, "doProgressingReset#return(non-constant)", ret.Pos(), false, "done result is not a constant", "undecided: "+t.String())
						continue
					}
					if t.Name != "true" {
						continue
					}
					ok := false
					why := ""
					switch {
					case HasFact(lf.Facts, FFalse(MCall("HasTrafficRoutings"))):
						// no traffic routing: only the BatchRelease has to go
						// (by name: the call may sit in a helper this branch returns through)
						if HasFact(lf.Facts, FNil(MResult("removeBatchRelease", 1))) && HasFact(lf.Facts, FFalse(MResult("removeBatchRelease", 0))) {
							ok = true
						}
						why = "no traffic routing: done requires removeBatchRelease (err==nil, retry==false)"
					case HasFact(lf.Facts, FNil(MCall("GetSubStatus"))):
						ok = true
					default:
						ok = HasFact(lf.Facts, FNil(MResultOf(rmSvc[0], 1)))
						why = "done requires RemoveCanaryService err == nil"
					}
					c.Ob(rule, "doProgressingReset#return(done)", ret.Pos(), ok, "reset reports done only after its last stage succeeded", ifs(!ok, why)).WithFacts(lf.Facts)
				}
			}
		}
	}

}

// checkSelectorRefresh: R4.6.
func checkSelectorRefresh(c *Ctx) {
	p := c.Prog
	for _, m := range []string{"pkg/controller/rollout.canaryReleaseManager.doCanaryUpgrade", "pkg/controller/rollout.blueGreenReleaseManager.doCanaryUpgrade"} {
		fn := p.Func(m)
		if fn == nil {
			c.Unresolved("R4.6", m)
			continue
		}
		isRefresh := func(in ssa.Instruction) bool {
			st, ok := in.(*ssa.Store)
			if !ok {
				return false
			}
			fa, ok := st.Addr.(*ssa.FieldAddr)
			if !ok {
				return false
			}
			if n, _ := FieldOf(fa); n != "PodTemplateHash" {
				return false
			}
			return TermOf(st.Val).Any(MField("Workload", "PodTemplateHash"))
		}
		n := 0
		for _, ret := range returnsOf(fn) {
			if len(ret.Results) != 2 {
				continue
			}
			done := false
			for _, lf := range Leaves(ret.Results[0], ret.Block()) {
				if k, ok := lf.V.(*ssa.Const); !ok || constText(k) == "true" {
					done = true
				}
			}
			if !done {
				continue
			}
			n++
			reach, _ := CanReach(Entry(fn), func(in ssa.Instruction) bool { return in == ssa.Instruction(ret) }, ReachOpts{CutInstr: isRefresh})
			c.Ob("R4.6", shortName(m)+"#done-return", ret.Pos(), !reach, "upgrade reported done only after status.podTemplateHash was set from the observed workload",
				ifs(reach, "this return reports the batch upgraded while status.podTemplateHash may still be the hash of a previous revision: the canary Service would select the wrong pods (or none)"))
		}
		if n == 0 {
			c.Ob("R4.6", shortName(m)+"#done-return", fn.Pos(), false, "a return reporting the upgrade done", "anchor not found")
		}
	}
}

func constText(k *ssa.Const) string {
	if k.Value == nil {
		return "nil"
	}
	return k.Value.String()
}

// forwardsTaskResult: h has a bool result r and an error result e such that on every return
// reachable after one of its task calls, results r and e are that call's (retry, err) themselves.
func forwardsTaskResult(h *ssa.Function, isTask func(ssa.CallInstruction) bool) (int, int, bool) {
	res := h.Signature.Results()
	errIdx := -1
	for i := 0; i < res.Len(); i++ {
		if res.At(i).Type().String() == "error" {
			errIdx = i
		}
	}
	if errIdx < 0 {
		return 0, 0, false
	}
	var tasks []ssa.CallInstruction
	for _, ci := range AllCalls(h) {
		if isTask(ci) {
			tasks = append(tasks, ci)
		}
	}
	if len(tasks) == 0 {
		return 0, 0, false
	}
	fromTask := func(v ssa.Value, idx int, at *ssa.BasicBlock) bool {
		// every non-constant definition reaching v is result #idx of a task call
		any := false
		for _, lf := range Leaves(Forwarded(v), at) {
			x := Forwarded(lf.V)
			if _, isC := x.(*ssa.Const); isC {
				continue
			}
			ex, ok := x.(*ssa.Extract)
			if !ok || ex.Index != idx {
				return false
			}
			call, ok := ex.Tuple.(*ssa.Call)
			if !ok || !isTask(call) {
				return false
			}
			any = true
		}
		return any
	}
	for r := 0; r < res.Len(); r++ {
		b, ok := res.At(r).Type().Underlying().(*types.Basic)
		if !ok || b.Kind() != types.Bool {
			continue
		}
		good, seen := true, false
		for _, t := range tasks {
			for _, rr := range WalkCP(PointAfter(t.(ssa.Instruction)), nil, IsReturn, ReachOpts{}) {
				ret := rr.Instr.(*ssa.Return)
				seen = true
				if !fromTask(ret.Results[r], 0, ret.Block()) || !fromTask(ret.Results[errIdx], 1, ret.Block()) {
					good = false
				}
			}
		}
		if good && seen {
			return r, errIdx, true
		}
	}
	return 0, 0, false
}
