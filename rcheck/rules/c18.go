package rules

import (
	"fmt"
	"strings"

	"golang.org/x/tools/go/ssa"

	. "verif/rcheck/engine"
)

func init() {
	register(&Prop{
		ID:  "C18",
		Run: runC18,
		Explanation: "Decides the structural clause 'a controller removes its own finalizer only on paths on which its cleanup-complete condition is established' (R18.1-R18.3), and (R18.4) that inside the teardown closure (everything reachable from doFinalising, the three handleFinalizer and the control planes' Finalize) no error of a call that can fail at the API server is lost on any path, so cleanup cannot be reported complete while one of its writes failed: " +
			"every call util.UpdateFinalizer(_, _, Remove, <own finalizer>) in the program is enumerated through the resolved callee, every call path from a Reconcile entry point to it is walked (static calls, interface invokes resolved by types.Implements), " +
			"and on each feasible path the union of branch facts must contain the controller's completion fact (Rollout: Terminating condition reason == Completed, and every non-comparison use of that constant is dominated by doFinalising done==true; " +
			"BatchRelease: status phase == Completed and deletion timestamp set; TrafficRouting: FinalisingTrafficRouting done==true; canary Deployment finalizer: stable.Finalize returned nil). " +
			"Also decides the converse precondition: for each own finalizer a removal site is reachable from Reconcile under the completion condition, and the progressing finalizer on TrafficRouting objects is removed only beneath doFinalising.",
		NotDecided: "API-server deletion semantics; whether the cleanup functions themselves do what they report (C04/C05/C11 rules cover their structural part); faults between individual writes.",
		Assumptions: []string{
			"branch facts are syntactic (SSA terms); a path is pruned as infeasible only when two facts on it are syntactically contradictory after parameter substitution",
			"interface invokes are resolved by method name + types.Implements (CHA)",
		},
	})
}

type ownFinalizer struct {
	constPkg, constName string
	label               string
	need                []need
}

type need struct {
	desc string
	m    FactM
}

func runC18(c *Ctx) {
	p := c.Prog
	c.Rule("R18.1", "own-finalizer removal requires the cleanup-complete fact on every call path from Reconcile", 5)
	c.Rule("R18.1b", "the Terminating reason 'Completed' is only produced after doFinalising reported done", 1)
	c.Rule("R18.2", "for each own finalizer a removal site is reachable from the controller's Reconcile on a feasible path", 3)
	c.Rule("R18.3", "the per-rollout progressing finalizer on TrafficRouting is removed only beneath doFinalising", 1)
	c.Rule("R18.4", "no error inside the teardown closure is lost: 'done' cannot be reported while a cleanup write failed", 80)
	{
		var roots []*ssa.Function
		for _, n := range []string{
			"pkg/controller/rollout.RolloutReconciler.doFinalising",
			"pkg/controller/rollout.RolloutReconciler.handleFinalizer",
			"pkg/controller/trafficrouting.TrafficRoutingReconciler.handleFinalizer",
			"pkg/controller/batchrelease.BatchReleaseReconciler.handleFinalizer",
			"pkg/controller/batchrelease.Executor.progressBatches",
			"pkg/controller/batchrelease/control/canarystyle.realCanaryController.Finalize",
			"pkg/controller/batchrelease/control/partitionstyle.realBatchControlPlane.Finalize",
			"pkg/controller/batchrelease/control/bluegreenstyle.realBatchControlPlane.Finalize",
		} {
			if f := p.Func(n); f != nil {
				roots = append(roots, f)
			} else if !strings.HasSuffix(n, "progressBatches") {
				c.Unresolved("R18.4", n)
			}
		}
		tear := p.ReachableFrom(roots...)
		c.Extra["teardown_closure_functions"] = len(tear)
		// only calls that can fail because of the API server: client calls, and repository
		// functions that (transitively) make one
		api := map[*ssa.Function]bool{}
		isClient := func(ci ssa.CallInstruction) bool {
			return strings.Contains(CalleeName(ci.Common()), "controller-runtime/pkg/client.")
		}
		for changed := true; changed; {
			changed = false
			for _, fn := range p.RepoFuncs() {
				if api[fn] {
					continue
				}
				for _, ci := range AllCalls(fn) {
					hit := isClient(ci)
					for _, cal := range p.Callees(ci) {
						if api[cal] {
							hit = true
						}
					}
					if hit {
						api[fn] = true
						changed = true
						break
					}
				}
			}
		}
		c.Extra["api_reaching_functions"] = len(api)
		checkErrorDisciplineF(c, "R18.4", func(fn *ssa.Function) bool { return tear[fn] }, func(ci ssa.CallInstruction) bool {
			if isClient(ci) {
				return true
			}
			for _, cal := range p.Callees(ci) {
				if api[cal] {
					return true
				}
			}
			return false
		})
	}

	deleting := need{"object is being deleted (DeletionTimestamp.IsZero() == false)", FFalse(MCall("Time.IsZero", MField("DeletionTimestamp")))}
	owns := []ownFinalizer{
		{"pkg/util", "KruiseRolloutFinalizer", "Rollout", []need{
			deleting,
			{"Terminating condition reason == Completed", FCmp("==", MAnd(MField("Reason"), MHas(MCall("util.GetRolloutCondition", nil, MConst("Terminating")))), MConst("Completed"))},
		}},
		{"pkg/controller/batchrelease", "ReleaseFinalizer", "BatchRelease", []need{
			deleting,
			{"BatchRelease status phase == Completed", FCmp("==", MField("Status", "Phase"), MConst("Completed"))},
		}},
		{"pkg/util", "TrafficRoutingFinalizer", "TrafficRouting", []need{
			deleting,
			{"FinalisingTrafficRouting reported done (result #0 == true)", FTrue(MResult("trafficrouting.Manager.FinalisingTrafficRouting", 0))},
		}},
		{"pkg/util", "CanaryDeploymentFinalizer", "canary Deployment", []need{
			{"stable.Finalize returned nil on this path", FNil(MResult("StableInterface.Finalize", -1))},
		}},
	}
	byValue := map[string]*ownFinalizer{}
	for i := range owns {
		k := p.ConstObj(owns[i].constPkg, owns[i].constName)
		if k == nil {
			c.Unresolved("R18.1", "constant "+owns[i].constPkg+"."+owns[i].constName)
			continue
		}
		byValue[strings.Trim(k.Val().ExactString(), `"`)] = &owns[i]
	}
	uf := p.Func("pkg/util.UpdateFinalizer")
	if uf == nil {
		c.Unresolved("R18.1", "function pkg/util.UpdateFinalizer")
		return
	}
	isReconcile := func(f *ssa.Function) bool { return f.Name() == "Reconcile" && f.Signature.Recv() != nil }
	reachable := map[string]bool{}
	for _, cs := range p.Callers(uf) {
		if cs.Kind != "static" || len(cs.Args) < 4 {
			continue
		}
		op := TermOf(cs.Args[2])
		if op.Op != "const" {
			c.Ob("R18.1", FuncName(cs.Caller)+"#UpdateFinalizer(op not constant)", cs.Instr.Pos(), false, "UpdateFinalizer with a non-constant op", "undecided: the operation argument is not a constant, the rule cannot tell add from remove")
			continue
		}
		if op.Name != "Remove" {
			continue
		}
		fin := TermOf(cs.Args[3])
		paths := p.CallPaths(cs.Caller, isReconcile, 6)
		if fin.Op != "const" {
			// R18.3: progressing finalizer
			if !fin.Any(MCall("util.ProgressingRolloutFinalizer")) {
				c.Ob("R18.1", FuncName(cs.Caller)+"#UpdateFinalizer(Remove,non-constant)", cs.Instr.Pos(), false, "removal of a finalizer the rule cannot identify: "+fin.String(), "undecided")
				continue
			}
			for _, cp := range paths {
				under := false
				for _, s := range cp.Sites {
					if NameMatch(FuncName(s.Caller), "RolloutReconciler.doFinalising") {
						under = true
					}
				}
				o := c.Ob("R18.3", FuncName(cs.Caller)+"#UpdateFinalizer(Remove,ProgressingRolloutFinalizer)<-"+pathKey(cp), cs.Instr.Pos(), under,
					"progressing finalizer removal", "this call path does not pass through RolloutReconciler.doFinalising")
				o.Path = p.PathString(cp, cs.Instr)
			}
			continue
		}
		own, ok := byValue[fin.Name]
		if !ok {
			// a finalizer that is not one of the controllers' own: not in scope of this rule
			continue
		}
		for _, cp := range paths {
			construct := fmt.Sprintf("%s#UpdateFinalizer(Remove,%s)<-%s", FuncName(cs.Caller), own.constName, pathKey(cp))
			if inf, why := PathInfeasible(cp, cs.Instr); inf {
				o := c.Ob("R18.1", construct, cs.Instr.Pos(), true, own.label+" finalizer removal (path pruned: contradictory facts)", "infeasible: "+why)
				o.Path = p.PathString(cp, cs.Instr)
				continue
			}
			facts := PathFacts(cp, cs.Instr)
			var missing, req []string
			for _, n := range own.need {
				req = append(req, n.desc)
				if !HasFact(facts, n.m) {
					missing = append(missing, n.desc)
				}
			}
			ok := len(missing) == 0
			detail := ""
			if !ok {
				detail = "missing on this path: " + strings.Join(missing, "; ")
			}
			o := c.Ob("R18.1", construct, cs.Instr.Pos(), ok, own.label+" finalizer removal", detail).WithFacts(facts).Req(req...)
			o.Path = p.PathString(cp, cs.Instr)
			if ok && cp.Root() != nil && isReconcile(cp.Root()) {
				reachable[own.constName] = true
			}
			if ok && own.constName == "CanaryDeploymentFinalizer" {
				reachable[own.constName] = true
			}
		}
	}
	for i := range owns {
		if owns[i].constName == "CanaryDeploymentFinalizer" {
			continue
		}
		c.Ob("R18.2", "removal-reachable:"+owns[i].constName, 0, reachable[owns[i].constName], owns[i].label+": a guarded removal site is reachable from Reconcile",
			"no feasible call path from a Reconcile method reaches a removal of this finalizer under its completion condition: deletion would block forever")
	}

	// R18.1b: non-comparison uses of TerminatingReasonCompleted
	k1 := p.ConstObj("api/v1alpha1", "TerminatingReasonCompleted")
	k2 := p.ConstObj("api/v1beta1", "TerminatingReasonCompleted")
	if k1 == nil || k2 == nil {
		c.Unresolved("R18.1b", "constant TerminatingReasonCompleted")
		return
	}
	doneFact := FTrue(MResult("RolloutReconciler.doFinalising", 0))
	errNil := FNil(MResult("RolloutReconciler.doFinalising", 1))
	for _, u := range p.ConstUses(k1, k2) {
		if u.Comparison || u.Fn == nil {
			continue
		}
		// logging is not a producer
		if isLogStmt(u) {
			continue
		}
		if len(u.Instrs) == 0 {
			c.Ob("R18.1b", FuncName(u.Fn)+"#use(TerminatingReasonCompleted)", u.Pos, false, "use of the constant that the rule cannot place in the flow graph", "undecided")
			continue
		}
		ok := true
		var facts []Fact
		for _, in := range u.Instrs {
			fs := FactsAtInstr(in)
			facts = fs
			if !HasFact(fs, doneFact) || !HasFact(fs, errNil) {
				ok = false
			}
		}
		c.Ob("R18.1b", FuncName(u.Fn)+"#produce(TerminatingReasonCompleted)", u.Pos, ok, "Terminating reason set to Completed",
			ifs(!ok, "the statement is not dominated by doFinalising()==(true,nil)")).WithFacts(facts).Req("doFinalising#0 == true", "doFinalising#1 == nil")
	}
}

func ifs(b bool, s string) string {
	if b {
		return s
	}
	return ""
}

func pathKey(cp CallPath) string {
	var names []string
	for _, s := range cp.Sites {
		n := FuncName(s.Caller)
		if i := strings.LastIndex(n, "/"); i >= 0 {
			n = n[i+1:]
		}
		names = append(names, n)
	}
	if len(names) == 0 {
		return "(no callers)"
	}
	return strings.Join(names, ">")
}

func isLogStmt(u ConstUse) bool {
	for _, in := range u.Instrs {
		if ci, ok := in.(ssa.CallInstruction); ok {
			n := CalleeName(ci.Common())
			if strings.HasPrefix(n, "k8s.io/klog/v2.") {
				return true
			}
		}
	}
	return false
}
