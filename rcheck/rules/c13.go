package rules

import (
	"strings"

	"golang.org/x/tools/go/ssa"

	. "verif/rcheck/engine"
)

func init() {
	register(&Prop{
		ID:  "C13",
		Run: runC13,
		Explanation: "Decides the structural clauses behind 'Gateway API routes: exact split, narrow matches, clean restore': (R13.1) in the gateway provider an index obtained from ranging over a slice X indexes only X (range-index agreement: a partitioned list is never read through the index of another partition); " +
			"(R13.2) the weights written are generateCanaryWeight(w) = (100-w, w), result #0 on the stable and #1 on the canary backendRef; (R13.3) the backendRef helpers rebuild the list by copying every other entry unchanged, rules without a stable backendRef are appended untouched, and the lookup helpers return fresh copies (no pointer into, and no in-place filtering of, the slices of the object that was read — otherwise the desired/current comparison is vacuous); " +
			"(R13.4) Finalise passes the -1 sentinel, under it a rule is dropped only if it referenced the canary Service and is left without backends; (R13.5) a match step keeps every user rule: a rule is skipped only if it references the canary but not the stable Service; (R13.6) a canary rule is emitted only with a non-empty match list, and a match-less rule is treated as one empty match.",
		NotDecided:  "match semantics beyond the index/partition agreement (that header and query conditions are ANDed as documented); numeric equality for all w; behaviour of the gateway implementation.",
		Assumptions: []string{"range loops are recognised by their SSA shape (index phi compared with len(X))"},
	})
}

func runC13(c *Ctx) {
	p := c.Prog
	c.Rule("R13.1", "range-index agreement: an index from ranging over X indexes only X", 5)
	c.Rule("R13.2", "weights written are (100-w, w): #0 on stable, #1 on canary", 3)
	c.Rule("R13.3", "backendRef helpers copy other entries unchanged and never alias the object that was read", 5)
	c.Rule("R13.12", "every rule that references the stable Service gets the step's split, for every weight", 1)
	c.Rule("R13.4", "restore: -1 sentinel; only emptied canary rules are dropped", 2)
	c.Rule("R13.5", "a match step keeps every user rule", 1)
	c.Rule("R13.6", "canary rules are emitted only with a non-empty match list", 2)

	inGateway := func(fn *ssa.Function) bool {
		return strings.HasPrefix(FuncName(fn), "pkg/trafficrouting/network/gateway.")
	}

	// ---- R13.1
	for _, fn := range p.RepoFuncs() {
		if !inGateway(fn) {
			continue
		}
		// range loops: block ending in If( idx < len(X) ) where idx = phi + 1
		type loopInfo struct {
			idx   ssa.Value
			slice *Term
		}
		var loops []loopInfo
		for _, b := range fn.Blocks {
			if len(b.Instrs) == 0 {
				continue
			}
			ifi, ok := b.Instrs[len(b.Instrs)-1].(*ssa.If)
			if !ok {
				continue
			}
			bo, ok := ifi.Cond.(*ssa.BinOp)
			if !ok || bo.Op.String() != "<" {
				continue
			}
			lt := TermOf(bo.Y)
			if lt.Op != "len" || len(lt.Args) != 1 {
				continue
			}
			loops = append(loops, loopInfo{bo.X, lt.Args[0]})
		}
		for _, b := range fn.Blocks {
			for _, in := range b.Instrs {
				var base, idx ssa.Value
				switch x := in.(type) {
				case *ssa.IndexAddr:
					base, idx = x.X, x.Index
				case *ssa.Index:
					base, idx = x.X, x.Index
				default:
					continue
				}
				for _, l := range loops {
					if l.idx != idx {
						continue
					}
					bt := TermOf(base)
					ok := bt.String() == l.slice.String()
					c.Ob("R13.1", FuncName(fn)+"#range-index", in.Pos(), ok, "element access through a range index",
						ifs(!ok, "the index ranges over "+l.slice.String()+" but is used to index "+bt.String()+": with a mixed list the wrong element is read"))
				}
			}
		}
	}

	// ---- R13.2
	if fn := p.Func("pkg/trafficrouting/network/gateway.generateCanaryWeight"); fn == nil {
		c.Unresolved("R13.2", "generateCanaryWeight")
	} else {
		for _, ret := range returnsOf(fn) {
			t0, t1 := TermOf(ret.Results[0]), TermOf(ret.Results[1])
			ok := t0.Op == "binop" && t0.Name == "-" && t0.Args[0].Op == "const" && t0.Args[0].Name == "100" && t0.Args[1].Op == "param" && t1.Op == "param" && t1.Name == t0.Args[1].Name
			c.Ob("R13.2", "generateCanaryWeight#return", ret.Pos(), ok, "returns (100 - w, w)", ifs(!ok, "returns ("+t0.String()+", "+t1.String()+")"))
		}
	}
	if fn := p.Func("pkg/trafficrouting/network/gateway.gatewayController.buildCanaryWeightHttpRoutes"); fn == nil {
		c.Unresolved("R13.2", "buildCanaryWeightHttpRoutes")
	} else {
		n := 0
		for _, st := range FieldStores([]*ssa.Function{fn}, "", "Weight") {
			n++
			fa := st.Addr.(*ssa.FieldAddr)
			isCanary := SliceHas(fa.X, func(t *Term) bool {
				return t.Op == "call" && NameMatch(t.Name, "gateway.getServiceBackendRef") && len(t.Args) == 2 && t.Args[1].Any(MField("CanaryService"))
			})
			want := 0
			who := "stable"
			if isCanary {
				want, who = 1, "canary"
			}
			ok := SliceHas(st.Val, func(t *Term) bool {
				return t.Op == "extract" && NameMatch(t.Name, "gateway.generateCanaryWeight") && t.Idx == want
			}) && !SliceHas(st.Val, func(t *Term) bool {
				return t.Op == "extract" && NameMatch(t.Name, "gateway.generateCanaryWeight") && t.Idx == 1-want
			})
			c.Ob("R13.2", "buildCanaryWeightHttpRoutes#Weight("+who+")", st.Pos(), ok, who+" backendRef gets result #"+string(rune('0'+want))+" of generateCanaryWeight", ifs(!ok, "stored weight does not derive from that result (or from both)"))
		}
		if n < 2 {
			c.Ob("R13.2", "buildCanaryWeightHttpRoutes#Weight", fn.Pos(), false, "two weight stores (stable, canary)", "anchor not found")
		}
		// rules without a stable ref are appended untouched: from the edge on which the stable ref is
		// nil, the rule reaches an append without passing a call that edits its backendRefs
		isEdit := func(in ssa.Instruction) bool {
			ci, ok := in.(ssa.CallInstruction)
			return ok && (NameMatch(CalleeName(ci.Common()), "gateway.setServiceBackendRef") || NameMatch(CalleeName(ci.Common()), "gateway.filterOutServiceBackendRef"))
		}
		isAppend := func(in ssa.Instruction) bool {
			ci, ok := in.(ssa.CallInstruction)
			return ok && CalleeName(ci.Common()) == "append"
		}
		nEdges := 0
		for _, b := range fn.Blocks {
			for k := range b.Succs {
				if !EdgeFactMatches(b, k, FNil(MResult("gateway.getServiceBackendRef", 1))) {
					continue
				}
				// only the stable-ref lookup (its argument mentions StableService)
				ifi := b.Instrs[len(b.Instrs)-1].(*ssa.If)
				if !TermOf(ifi.Cond).Any(MField("StableService")) {
					continue
				}
				nEdges++
				kept, _ := CanReach(Point{Block: b.Succs[k]}, isAppend, ReachOpts{CutInstr: isEdit})
				edited, _ := CanReach(Point{Block: b.Succs[k]}, isEdit, ReachOpts{CutInstr: isAppend})
				ok := kept && !edited
				c.Ob("R13.3", "buildCanaryWeightHttpRoutes#untouched-rule", ifi.Pos(), ok, "a rule that does not reference the stable Service is appended as it is", ifs(!kept, "such a rule is not appended; ")+ifs(edited, "its backendRefs are edited before it is appended"))
				// R13.12, the converse: a rule that does reference the stable Service is appended only
				// after the split was written into it — whatever the weight is (0 is a weight: after
				// a step with w > 0 the rule still carries the old split)
				if len(b.Succs) == 2 {
					skipped, _ := CanReach(Point{Block: b.Succs[1-k]}, isAppend, ReachOpts{CutInstr: isEdit})
					c.Ob("R13.12", "buildCanaryWeightHttpRoutes#stable-rule-gets-split", ifi.Pos(), !skipped, "a rule that references the stable Service is appended only with the step's split written into it",
						ifs(skipped, "there is a path on which such a rule is appended as it is: the split it carries from an earlier step stays, desired equals current, and the step is reported as routed"))
				}
			}
		}
		if nEdges == 0 {
			c.Ob("R13.3", "buildCanaryWeightHttpRoutes#untouched-rule", fn.Pos(), false, "branch on the stable backendRef being absent", "anchor not found")
		}
	}

	// ---- R13.3 helpers
	for _, h := range []struct {
		fn      string
		selfArg bool
	}{{"pkg/trafficrouting/network/gateway.setServiceBackendRef", true}, {"pkg/trafficrouting/network/gateway.filterOutServiceBackendRef", false}} {
		fn := p.Func(h.fn)
		if fn == nil {
			c.Unresolved("R13.3", h.fn)
			continue
		}
		okCopy := false
		bad := ""
		for _, call := range AllCalls(fn) {
			if CalleeName(call.Common()) != "append" || len(call.Common().Args) < 2 {
				continue
			}
			fs := FactsAtInstr(call.(ssa.Instruction))
			// what is appended: every value that can reach the appended slot, with the facts under
			// which it is the one chosen (`next := old[i]; if i == index { next = ref }` ≡ if/else)
			var elems []Leaf
			if sl, ok := call.Common().Args[1].(*ssa.Slice); ok {
				if al, ok := sl.X.(*ssa.Alloc); ok {
					for _, st := range allStoresTo(al) {
						elems = append(elems, Leaves(st.Val, st.Block())...)
					}
				}
			}
			for _, lf := range elems {
				elem := TermOf(lf.V)
				if elem.Op != "index" {
					continue
				}
				// copying oldRefs[i]: must be under i != index
				all := append(append([]Fact{}, fs...), lf.Facts...)
				if HasFact(all, FCmp("!=", func(t *Term) bool { return t.String() == elem.Args[1].String() }, MResult("gateway.getServiceBackendRef", 0))) {
					okCopy = true
				} else {
					bad = "an old entry is copied without the guard i != index"
				}
			}
		}
		c.Ob("R13.3", shortName(h.fn)+"#copy-others", fn.Pos(), okCopy && bad == "", "every other backendRef is copied unchanged (under i != index)", ifs(!(okCopy && bad == ""), "copy loop not recognised: "+bad))
	}
	if fn := p.Func("pkg/trafficrouting/network/gateway.getServiceBackendRef"); fn == nil {
		c.Unresolved("R13.3", "getServiceBackendRef")
	} else {
		for _, ret := range returnsOf(fn) {
			for _, lf := range Leaves(ret.Results[1], ret.Block()) {
				switch v := lf.V.(type) {
				case *ssa.Const:
					continue
				case *ssa.Alloc:
					c.Ob("R13.3", "getServiceBackendRef#returns-copy", ret.Pos(), true, "the backendRef handed out is a copy", "")
				default:
					c.Ob("R13.3", "getServiceBackendRef#returns-copy", ret.Pos(), false, "the backendRef handed out is a copy",
						"returns "+TermOf(v).String()+": a pointer into the rule's backing array lets weight writes mutate the HTTPRoute that was read, so desired == current holds vacuously and no update is sent")
				}
			}
		}
	}
	if fn := p.Func("pkg/util.FilterHttpRouteMatch"); fn == nil {
		c.Unresolved("R13.3", "util.FilterHttpRouteMatch")
	} else {
		aliases := false
		for _, b := range fn.Blocks {
			for _, in := range b.Instrs {
				if sl, ok := in.(*ssa.Slice); ok {
					if _, isParam := sl.X.(*ssa.Parameter); isParam {
						aliases = true
					}
				}
			}
		}
		c.Ob("R13.3", "util.FilterHttpRouteMatch#fresh-result", fn.Pos(), !aliases, "the filter allocates its result", ifs(aliases, "the result re-slices the input: two filters over the same list overwrite each other's result"))
	}

	// ---- R13.4 / R13.5 / R13.6
	if fn := p.Func("pkg/trafficrouting/network/gateway.gatewayController.Finalise"); fn == nil {
		c.Unresolved("R13.4", "gatewayController.Finalise")
	} else {
		n := 0
		for _, call := range CallsIn(fn, "gateway.gatewayController.buildDesiredHTTPRoute") {
			n++
			args := call.Common().Args
			w := TermOf(args[len(args)-2])
			ok := w.Op == "call" && len(w.Args) == 1 && w.Args[0].Op == "const" && w.Args[0].Name == "-1"
			c.Ob("R13.4", "Finalise#sentinel", call.Pos(), ok, "Finalise builds the desired route with the restore sentinel -1", ifs(!ok, "weight argument is "+w.String()))
		}
		if n == 0 {
			c.Ob("R13.4", "Finalise#sentinel", fn.Pos(), false, "call of buildDesiredHTTPRoute", "anchor not found")
		}
	}
	if fn := p.Func("pkg/trafficrouting/network/gateway.gatewayController.buildDesiredHTTPRoute"); fn == nil {
		c.Unresolved("R13.4", "buildDesiredHTTPRoute")
	} else {
		n := 0
		outer := fn
		// the restore branch may live in the function itself or in a helper it calls under the sentinel fact
		type site struct {
			fn   *ssa.Function
			call ssa.CallInstruction
		}
		var sites []site
		for _, f := range samePkgClosure(p, outer) {
			if strings.Contains(FuncName(f), "buildCanaryHeaderHttpRoutes") || strings.Contains(FuncName(f), "buildCanaryWeightHttpRoutes") {
				continue
			}
			for _, call := range AllCalls(f) {
				if CalleeName(call.Common()) == "append" {
					sites = append(sites, site{f, call})
				}
			}
		}
		for _, st := range sites {
			fn, call := st.fn, st.call
			fs := FactsAtInstr(call.(ssa.Instruction))
			if !HasFact(fs, FCmp("==", MAny(), MConst("-1"))) {
				continue
			}
			n++
			// reachable only via len(rule.BackendRefs) != 0 or canaryRef == nil
			start := Entry(fn)
			reach, _ := CanReach(start, func(in ssa.Instruction) bool { return in == call.(ssa.Instruction) }, ReachOpts{CutEdge: func(b *ssa.BasicBlock, k int) bool {
				return EdgeFactMatches(b, k, FOr(FCmp("!=", MLen(MField("BackendRefs")), MConst("0")),
					FNil(func(t *Term) bool {
						return t.Op == "extract" && NameMatch(t.Name, "gateway.getServiceBackendRef") && t.Idx == 1 && len(t.Args[0].Args) == 2 && t.Args[0].Args[1].Any(MField("CanaryService"))
					})))
			}})
			filtered := false
			for _, f := range CallsIn(fn, "gateway.filterOutServiceBackendRef") {
				if r, _ := CanReach(PointAfter(f.(ssa.Instruction)), func(in ssa.Instruction) bool { return in == call.(ssa.Instruction) }, ReachOpts{}); r {
					filtered = true
				}
			}
			// or inside a same-package helper that is called on the way and cannot return without filtering
			for _, hc := range AllCalls(fn) {
				h := hc.Common().StaticCallee()
				if h == nil || h.Pkg != fn.Pkg || h.Blocks == nil || len(CallsIn(h, "gateway.filterOutServiceBackendRef")) == 0 {
					continue
				}
				if r, _ := CanReach(PointAfter(hc.(ssa.Instruction)), func(in ssa.Instruction) bool { return in == call.(ssa.Instruction) }, ReachOpts{}); !r {
					continue
				}
				skip, _ := CanReach(Entry(h), IsReturn, ReachOpts{CutInstr: func(in ssa.Instruction) bool {
					ci, ok := in.(ssa.CallInstruction)
					return ok && NameMatch(CalleeName(ci.Common()), "gateway.filterOutServiceBackendRef")
				}})
				if !skip {
					filtered = true
				}
			}
			// and a rule that never referenced the canary Service is kept even without backends
			keepsUser, _ := CanReach(start, func(in ssa.Instruction) bool { return in == call.(ssa.Instruction) }, ReachOpts{CutEdge: func(b *ssa.BasicBlock, k int) bool {
				return EdgeFactMatches(b, k, FCmp("!=", MLen(MField("BackendRefs")), MConst("0")))
			}})
			ok := !reach && filtered && keepsUser
			c.Ob("R13.4", "buildDesiredHTTPRoute#restore-keep", call.Pos(), ok, "restore keeps a rule unless it referenced the canary Service and is left without backends",
				ifs(!ok, "a rule is kept/dropped by another criterion (kept although it is an emptied canary rule, or the canary backend is not filtered out first)")).WithFacts(fs)
		}
		if n == 0 {
			c.Ob("R13.4", "buildDesiredHTTPRoute#restore-keep", fn.Pos(), false, "append in the restore branch", "anchor not found")
		}
	}
	if fn := p.Func("pkg/trafficrouting/network/gateway.gatewayController.buildCanaryHeaderHttpRoutes"); fn == nil {
		c.Unresolved("R13.5", "buildCanaryHeaderHttpRoutes")
	} else {
		// appends
		var keepUser, emitCanary []ssa.CallInstruction
		for _, call := range AllCalls(fn) {
			if CalleeName(call.Common()) != "append" || len(call.Common().Args) < 2 {
				continue
			}
			if !strings.HasSuffix(call.Value().Type().String(), "HTTPRouteRule") {
				continue
			}
			// appended element: the loop's rule copy, or the dereferenced canary rule
			if sl, ok := call.Common().Args[1].(*ssa.Slice); ok {
				if al, ok := sl.X.(*ssa.Alloc); ok {
					for _, st := range allStoresTo(al) {
						if SliceHas(st.Val, func(t *Term) bool { return t.Op == "call" && strings.HasSuffix(t.Name, "HTTPRouteRule.DeepCopy") }) {
							emitCanary = append(emitCanary, call)
						} else {
							keepUser = append(keepUser, call)
						}
					}
				}
			}
		}
		if len(keepUser) != 1 {
			c.Ob("R13.5", "buildCanaryHeaderHttpRoutes#keep-user-rule", fn.Pos(), false, "the append that keeps the original rule", "anchor not found")
		} else {
			keep := keepUser[0]
			// from the loop body entry, reaching the next iteration without passing `keep` requires canaryRef != nil and stableRef == nil
			isKeep := func(in ssa.Instruction) bool { return in == keep.(ssa.Instruction) }
			// loop header: block with the range compare over `rules`
			bad := ""
			for _, b := range fn.Blocks {
				if len(b.Instrs) == 0 {
					continue
				}
				ifi, ok := b.Instrs[len(b.Instrs)-1].(*ssa.If)
				if !ok {
					continue
				}
				bo, ok := ifi.Cond.(*ssa.BinOp)
				if !ok || bo.Op.String() != "<" {
					continue
				}
				lt := TermOf(bo.Y)
				if !(lt.Op == "len" && len(lt.Args) == 1 && lt.Args[0].Op == "param" && lt.Args[0].Name == "rules") {
					continue
				}
				header := b
				// paths body-entry → header (next iteration) avoiding `keep`
				reach, _ := CanReach(Point{Block: b.Succs[0]}, func(in ssa.Instruction) bool { return in.Block() == header && in == header.Instrs[0] }, ReachOpts{
					CutInstr: isKeep,
					CutEdge: func(bb *ssa.BasicBlock, k int) bool {
						return EdgeFactMatches(bb, k, FNil(func(t *Term) bool {
							return t.Op == "extract" && NameMatch(t.Name, "gateway.getServiceBackendRef") && t.Idx == 1 && len(t.Args[0].Args) == 2 && t.Args[0].Args[1].Any(MField("StableService"))
						}))
					}})
				if reach {
					bad = "an input rule can be skipped (not appended to the desired rules) although it references the stable Service: a match step after a weight step drops the user's rules"
				}
			}
			c.Ob("R13.5", "buildCanaryHeaderHttpRoutes#keep-user-rule", keep.Pos(), bad == "", "a rule is skipped only if it does not reference the stable Service (a generated canary rule)", bad)
		}
		if len(emitCanary) == 0 {
			c.Ob("R13.6", "buildCanaryHeaderHttpRoutes#emit-canary", fn.Pos(), false, "the append that emits the canary rule", "anchor not found")
		}
		for _, call := range emitCanary {
			fs := FactsAtInstr(call.(ssa.Instruction))
			ok := HasFact(fs, FCmp("!=", MLen(MAny()), MConst("0")))
			c.Ob("R13.6", "buildCanaryHeaderHttpRoutes#emit-canary", call.Pos(), ok, "a canary rule is emitted only with a non-empty match list", ifs(!ok, "missing len(newMatches) != 0: a canary rule without matches accepts every request")).WithFacts(fs)
		}
		// match-less rule treated as one empty match: the inner range runs over a value that is replaced on len == 0
		okEmpty := false
		for _, b := range fn.Blocks {
			for k := range b.Succs {
				if EdgeFactMatches(b, k, FCmp("==", MLen(MField("Matches")), MConst("0"))) {
					okEmpty = true
				}
			}
		}
		// … or in the helper that combines the matches, on the parameter the rule's matches arrive in
		for _, g := range samePkgClosure(p, fn) {
			if g == fn {
				continue
			}
			for i, par := range g.Params {
				if !strings.HasSuffix(par.Type().String(), "HTTPRouteMatch") || !strings.HasPrefix(par.Type().String(), "[]") {
					continue
				}
				fed := false
				for _, cs := range p.Callers(g) {
					if cs.Args != nil && i < len(cs.Args) {
						if t := TermOf(cs.Args[i]); MField("Matches")(t) || t.Any(MField("Matches")) {
							fed = true
						}
					}
				}
				if !fed {
					continue
				}
				for _, b := range g.Blocks {
					for k := range b.Succs {
						if EdgeFactMatches(b, k, FCmp("==", MLen(func(t *Term) bool { return t.V == ssa.Value(par) }), MConst("0"))) {
							okEmpty = true
						}
					}
				}
			}
		}
		c.Ob("R13.6", "buildCanaryHeaderHttpRoutes#matchless-rule", fn.Pos(), okEmpty, "a rule without matches is handled explicitly (one empty match)", ifs(!okEmpty, "no branch on len(rule.Matches) == 0: for a match-less rule no combined match is generated"))
	}
}

func isLoopHeaderEdge(b *ssa.BasicBlock) bool { return false }

func allStoresTo(al *ssa.Alloc) []*ssa.Store {
	var out []*ssa.Store
	seen := map[ssa.Value]bool{}
	var visit func(v ssa.Value)
	visit = func(v ssa.Value) {
		if seen[v] {
			return
		}
		seen[v] = true
		if v.Referrers() == nil {
			return
		}
		for _, r := range *v.Referrers() {
			switch x := r.(type) {
			case *ssa.Store:
				if x.Addr == v {
					out = append(out, x)
				}
			case *ssa.IndexAddr:
				if x.X == v {
					visit(x)
				}
			case *ssa.FieldAddr:
				if x.X == v {
					visit(x)
				}
			}
		}
	}
	visit(al)
	return out
}
