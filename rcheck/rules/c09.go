package rules

import (
	"fmt"
	"go/types"
	"sort"
	"strings"

	"golang.org/x/tools/go/ssa"

	. "verif/rcheck/engine"
)

func init() {
	register(&Prop{
		ID:  "C09",
		Run: runC09,
		Explanation: "Decides the structural clauses behind 'no API-reachable object state can crash the controllers': (R9.1) every index into the steps / batches of a Rollout or BatchRelease in the controllers is enumerated and classified by the source of its index: a user-editable cursor (nextStepIndex) must carry a lower and an upper bound fact at the index site; controller-owned cursors are discharged by named protocol rules that are themselves checked here — step cursor writers (C02 R2.1i) together with the validators' step-count immutability, batchPartition provenance (C01 R1.3), and the plan-unhealthy restart that precedes execution; " +
			"(R9.2) validator/controller contract, for both the v1beta1 and the v1alpha1 validator (sibling agreement): empty steps, nil replicas, both/neither strategy and a Gateway ref without httpRouteName are errors, each provider is validated independently, the update validator forbids changes of workload reference, traffic routing, style and step count while Progressing/Terminating, and the conflict check rejects any other Rollout with the same workload reference without further exemptions; " +
			"(R9.3) registry agreement for explicit panics: every concrete type the workload factory can hand to the parse helpers is covered by the cases of each helper's type switch, or excluded by a kind guard at the feeding call site; UpdateFinalizer is only called with constant operations.",
		NotDecided:  "nil dereferences of objects built by dependencies, runtime panics inside libraries, map-nil writes in general; only the anchored packages' user-data sites are enumerated.",
		Assumptions: []string{"BatchRelease objects are written by the Rollout controller only (their cursors are not user-editable fields)"},
	})
}

func runC09(c *Ctx) {
	p := c.Prog
	c.Rule("R9.1", "indices into steps/batches derived from cursors are bounded (locally, or by a checked protocol rule)", 8)
	c.Rule("R9.1p", "protocol rules that discharge controller-owned cursors", 6)
	c.Rule("R9.2", "validator/controller contract (both validators)", 12)
	c.Rule("R9.3", "explicit panics are unreachable: factory types covered by the parse helpers", 8)

	// ---- R9.1
	ctrl := func(fn *ssa.Function) bool {
		n := FuncName(fn)
		return strings.HasPrefix(n, "pkg/controller/rollout.") || strings.HasPrefix(n, "pkg/controller/batchrelease") || strings.HasPrefix(n, "pkg/controller/trafficrouting.")
	}
	isStepsOrBatches := func(t *Term) bool {
		return t.Any(func(x *Term) bool {
			return (x.Op == "field" && (x.Name == "Steps" || x.Name == "Batches")) || (x.Op == "call" && strings.HasSuffix(x.Name, "RolloutStrategy.GetSteps"))
		})
	}
	for _, fn := range p.RepoFuncs() {
		if !ctrl(fn) {
			continue
		}
		for _, b := range fn.Blocks {
			for _, in := range b.Instrs {
				ia, ok := in.(*ssa.IndexAddr)
				if !ok {
					continue
				}
				base := TermOf(ia.X)
				if !isStepsOrBatches(base) && !(base.Op == "param" && (base.Name == "batches")) {
					continue
				}
				var cursor string
				for v := range BackwardSlice(ia.Index) {
					if u, ok := v.(*ssa.UnOp); ok {
						if fa, ok := u.X.(*ssa.FieldAddr); ok {
							switch n, _ := FieldOf(fa); n {
							case "NextStepIndex", "CurrentStepIndex", "CurrentBatch", "BatchPartition":
								if cursor == "" || n == "NextStepIndex" {
									cursor = n
								}
							}
						}
					}
					if pr, ok := v.(*ssa.Parameter); ok && (pr.Name() == "currentBatch" || paramFedByField(p, pr, "CurrentBatch")) {
						if cursor == "" {
							cursor = "CurrentBatch"
						}
					}
				}
				if cursor == "" {
					continue // loop index / constant
				}
				construct := FuncName(fn) + "#index[" + cursor + "]"
				fs := FactsAtInstr(in)
				idx := TermOf(ia.Index)
				switch cursor {
				case "NextStepIndex":
					mentions := MHas(MField("NextStepIndex"))
					lower := HasFact(fs, FOr(FCmp(">", mentions, MConst("0")), FCmp(">=", mentions, MConst("1"))))
					upper := HasFact(fs, FOr(FCmp("<=", mentions, MHas(MLen(MAny()))), FCmp("<", mentions, MHas(MLen(MAny())))))
					c.Ob("R9.1", construct, ia.Pos(), lower && upper, "index "+idx.String()+" derives from the user-editable nextStepIndex",
						ifs(!(lower && upper), "missing "+ifs(!lower, "lower bound ")+ifs(!upper, "upper bound (<= len(steps))")+": a patched status.nextStepIndex beyond the steps panics the controller")).WithFacts(fs)
				default:
					rule := map[string]string{"CurrentStepIndex": "P1 step cursor (writers + step-count immutability)", "BatchPartition": "P2 batchPartition provenance", "CurrentBatch": "P3 plan-unhealthy restart precedes execution"}[cursor]
					// a local guard, if present, is fine too
					c.Ob("R9.1", construct, ia.Pos(), true, "index "+idx.String()+" derives from the controller-owned cursor "+cursor+": discharged by protocol rule "+rule, "")
				}
			}
		}
	}

	// ---- R9.1p protocol rules
	checkStepIndexWriters(c, "R9.1p")
	checkBatchPartitionProvenance(c, "R9.1p")
	if fn := p.Func("pkg/controller/batchrelease.isPlanUnhealthy"); fn == nil {
		c.Unresolved("R9.1p", "isPlanUnhealthy")
	} else {
		ok := false
		for _, ret := range returnsOf(fn) {
			for _, lf := range Leaves(ret.Results[0], ret.Block()) {
				t := TermOf(lf.V)
				if t.Op == "const" && t.Name == "false" {
					continue
				}
				if HasFact(lf.Facts, FCmp(">=", MHas(MField("CurrentBatch")), MHas(MLen(MField("Batches"))))) {
					ok = true
				}
			}
		}
		c.Ob("R9.1p", "isPlanUnhealthy#predicate", fn.Pos(), ok, "the plan is unhealthy when currentBatch >= len(batches)", ifs(!ok, "predicate does not compare CurrentBatch with len(Batches)"))
	}
	if fn := p.Func("pkg/controller/batchrelease.Executor.syncStatusBeforeExecuting"); fn != nil {
		for _, b := range fn.Blocks {
			for k := range b.Succs {
				if EdgeFactMatches(b, k, FTrue(MCall("batchrelease.isPlanUnhealthy"))) {
					reach, _ := CanReach(Point{Block: b.Succs[k]}, IsReturn, ReachOpts{CutInstr: func(x ssa.Instruction) bool {
						ci, ok := x.(ssa.CallInstruction)
						return ok && NameMatch(CalleeName(ci.Common()), "batchrelease.signalRestartAll")
					}})
					c.Ob("R9.1p", "syncStatusBeforeExecuting#unhealthy-restarts", b.Instrs[len(b.Instrs)-1].Pos(), !reach, "an unhealthy plan restarts the status before anything is executed", ifs(reach, "isPlanUnhealthy holds but the status is not reset"))
				}
			}
		}
	}

	// ---- R9.2 validators
	type vspec struct {
		steps, strategy, traffic, update, conflict string
		label                                      string
	}
	vp := "pkg/webhook/rollout/validating."
	specs := []vspec{
		{vp + "validateRolloutSpecCanarySteps", vp + "validateRolloutSpecStrategy", vp + "validateRolloutSpecCanaryTraffic", vp + "RolloutCreateUpdateHandler.validateRolloutUpdate", vp + "RolloutCreateUpdateHandler.validateRolloutConflict", "v1beta1"},
		{vp + "validateV1alpha1RolloutSpecCanarySteps", vp + "validateV1alpha1RolloutSpecCanaryStrategy", vp + "validateV1alpha1RolloutSpecCanaryTraffic", vp + "RolloutCreateUpdateHandler.validateV1alpha1RolloutUpdate", vp + "RolloutCreateUpdateHandler.validateV1alpha1RolloutConflict", "v1alpha1"},
	}
	var returnsErrUnder func(fn *ssa.Function, m FactM) bool
	returnsErrUnder0 := func(fn *ssa.Function, m FactM) bool {
		// some return of a non-nil error list lies behind an edge matching m, and from that edge no nil return is reachable
		for _, b := range fn.Blocks {
			for k := range b.Succs {
				if !EdgeFactMatches(b, k, m) {
					continue
				}
				bad := false
				for _, r := range WalkCP(Point{Block: b.Succs[k]}, nil, IsReturn, ReachOpts{}) {
					ret := r.Instr.(*ssa.Return)
					v := Resolve(ret.Results[0], r.Env)
					if k, isC := v.(*ssa.Const); isC && k.Value == nil {
						bad = true
					}
				}
				if !bad {
					return true
				}
			}
		}
		return false
	}
	// the check may live in a same-package helper whose error list the validator hands on:
	// the helper rejects under m, and a non-nil result of the helper makes the validator return non-nil
	returnsErrUnder = func(fn *ssa.Function, m FactM) bool {
		if returnsErrUnder0(fn, m) {
			return true
		}
		for _, ci := range AllCalls(fn) {
			g := ci.Common().StaticCallee()
			if g == nil || g.Blocks == nil || g.Pkg != fn.Pkg || g == fn || g.Signature.Results().Len() != 1 {
				continue
			}
			if fn.Signature.Results().Len() < 1 || g.Signature.Results().At(0).Type().String() != fn.Signature.Results().At(0).Type().String() {
				continue
			}
			if !returnsErrUnder0(g, m) {
				continue
			}
			call, isVal := ci.(*ssa.Call)
			if !isVal {
				continue
			}
			handedOn := false
			// returned directly
			for _, ret := range returnsOf(fn) {
				for _, lf := range Leaves(Forwarded(ret.Results[0]), ret.Block()) {
					if lf.V == ssa.Value(call) {
						if r, _ := CanReach(PointAfter(call), func(in ssa.Instruction) bool { return in == ssa.Instruction(ret) }, ReachOpts{}); r {
							handedOn = true
						}
					}
				}
			}
			// or tested and returned when non-nil
			for _, b := range fn.Blocks {
				for k := range b.Succs {
					if !EdgeFactMatches(b, k, FNotNil(MResultOf(call, -1))) {
						continue
					}
					bad := false
					for _, r := range WalkCP(Point{Block: b.Succs[k]}, nil, IsReturn, ReachOpts{}) {
						ret := r.Instr.(*ssa.Return)
						if kc, isC := Resolve(ret.Results[0], r.Env).(*ssa.Const); isC && kc.Value == nil {
							bad = true
						}
					}
					if !bad {
						handedOn = true
					}
				}
			}
			if handedOn {
				return true
			}
		}
		return false
	}
	appendsErrUnder := func(fn *ssa.Function, m FactM) bool {
		for _, call := range AllCalls(fn) {
			if CalleeName(call.Common()) != "append" {
				continue
			}
			if HasFact(FactsAtInstr(call.(ssa.Instruction)), m) {
				return true
			}
		}
		return false
	}
	for _, s := range specs {
		if fn := p.Func(s.steps); fn == nil {
			c.Unresolved("R9.2", s.steps)
		} else {
			ok1 := returnsErrUnder(fn, FCmp("==", MLen(MAny()), MConst("0")))
			c.Ob("R9.2", s.label+"#steps-nonempty", fn.Pos(), ok1, "empty steps are rejected", ifs(!ok1, "no error return under len(steps) == 0: the controllers index steps[0]"))
			ok2 := returnsErrUnder(fn, FNil(MField("Replicas")))
			// v1alpha1 allows replicas == nil when weight is set (conversion derives replicas from weight)
			if !ok2 && s.label == "v1alpha1" {
				ok2 = returnsErrUnder(fn, FNil(MField("Weight"))) || returnsErrUnder(fn, FNil(MField("Replicas")))
			}
			c.Ob("R9.2", s.label+"#replicas-set", fn.Pos(), ok2, "a step without replicas is rejected", ifs(!ok2, "no error return under step.Replicas == nil: createBatchRelease dereferences it"))
		}
		if fn := p.Func(s.strategy); fn == nil {
			c.Unresolved("R9.2", s.strategy)
		} else {
			ok := returnsErrUnder(fn, FNil(MOr(MField("Canary"), func(t *Term) bool { return t.Op == "param" && t.Name == "canary" })))
			c.Ob("R9.2", s.label+"#strategy-present", fn.Pos(), ok, "a Rollout without strategy is rejected", ifs(!ok, "no error return under strategy.Canary == nil"))
			if s.label == "v1beta1" {
				ok2 := returnsErrUnder(fn, FNotNil(MField("BlueGreen"))) || returnsErrUnder(fn, FNotNil(MField("Canary")))
				c.Ob("R9.2", s.label+"#strategy-exclusive", fn.Pos(), ok2, "canary and blueGreen together are rejected", ifs(!ok2, "no error for both strategies set"))
			}
		}
		if fn := p.Func(s.traffic); fn == nil {
			c.Unresolved("R9.2", s.traffic)
		} else {
			routeNil := FNil(MField("Gateway", "HTTPRouteName"))
			ok := appendsErrUnder(fn, routeNil) || returnsErrUnder(fn, routeNil)
			c.Ob("R9.2", s.label+"#gateway-route-name", fn.Pos(), ok, "a Gateway ref without httpRouteName is rejected", ifs(!ok, "no error under Gateway.HTTPRouteName == nil: the gateway provider dereferences it"))
			// independence: the Gateway check is reachable when Ingress is set as well
			indep := false
			for _, b := range fn.Blocks {
				if len(b.Instrs) == 0 {
					continue
				}
				ifi, ok := b.Instrs[len(b.Instrs)-1].(*ssa.If)
				if !ok || !TermOf(ifi.Cond).Any(MField("HTTPRouteName")) {
					continue
				}
				if !HasFact(FactsFor(fn).At(b), FNil(MField("Ingress"))) {
					indep = true
				}
			}
			c.Ob("R9.2", s.label+"#providers-validated-independently", fn.Pos(), indep, "the Gateway ref is validated whether or not an Ingress ref is present", ifs(!indep, "the Gateway check is only reached when Ingress is nil: a ref with both providers skips it"))
		}
		if fn := p.Func(s.update); fn == nil {
			c.Unresolved("R9.2", s.update)
		} else {
			progressing := FOr(FCmp("==", MField("Status", "Phase"), MConst("Progressing")), FCmp("==", MField("Status", "Phase"), MConst("Terminating")))
			var underIn func(fn *ssa.Function, m FactM, depth int) bool
			under := func(m FactM) bool { return underIn(fn, m, 0) }
			underIn = func(fn *ssa.Function, m FactM, depth int) bool {
				// the check may have been moved into a same-package helper whose non-nil result is returned as an error
				if depth == 0 {
					for _, hc := range AllCalls(fn) {
						h := hc.Common().StaticCallee()
						if h == nil || h.Pkg != fn.Pkg || h.Blocks == nil || h == fn || !underIn(h, m, 1) {
							continue
						}
						if underIn(fn, FNotNil(MResultOf(hc, -1)), 1) {
							return true
						}
					}
				}
				for _, b := range fn.Blocks {
					for k := range b.Succs {
						if !EdgeFactMatches(b, k, m) {
							continue
						}
						// the check must be inside the Progressing/Terminating case … or unconditional
						ok := true
						for _, r := range WalkCP(Point{Block: b.Succs[k]}, nil, IsReturn, ReachOpts{}) {
							ret := r.Instr.(*ssa.Return)
							v := Resolve(ret.Results[0], r.Env)
							if k, isC := v.(*ssa.Const); isC && k.Value == nil {
								ok = false
							}
						}
						if ok {
							return true
						}
					}
				}
				return false
			}
			_ = progressing
			checks := []struct {
				name string
				m    FactM
			}{
				{"workload reference", FFalse(MCall("reflect.DeepEqual", MOr(MHas(MField("WorkloadRef")), MHas(MField("ObjectRef"))), MAny()))},
				{"traffic routing", FFalse(MCall("reflect.DeepEqual", MOr(MHas(MCall("RolloutStrategy.GetTrafficRouting")), MHas(MField("TrafficRoutings"))), MAny()))},
				{"rolling style", FOr(FCmp("!=", MHas(MCall("RolloutStrategy.GetRollingStyle")), MHas(MCall("RolloutStrategy.GetRollingStyle"))), FFalse(MCall("strings.EqualFold")))},
				{"step count", FCmp("!=", MLen(MOr(MHas(MCall("RolloutStrategy.GetSteps")), MHas(MField("Steps")))), MLen(MAny()))},
			}
			for _, ch := range checks {
				ok := under(ch.m)
				c.Ob("R9.2", s.label+"#immutable("+ch.name+")", fn.Pos(), ok, "the "+ch.name+" cannot be changed while the rollout is progressing or terminating",
					ifs(!ok, "the update validator has no Forbidden error for a changed "+ch.name+": the controllers index steps / reuse the reference of a running release"))
			}
		}
		if fn := p.Func(s.conflict); fn == nil {
			c.Unresolved("R9.2", s.conflict)
		} else {
			// from the loop body, the next iteration is reachable only via Name == Name or ref-differs edges
			bad := ""
			for _, b := range fn.Blocks {
				if len(b.Instrs) == 0 {
					continue
				}
				ifi, ok := b.Instrs[len(b.Instrs)-1].(*ssa.If)
				if !ok {
					continue
				}
				bo, ok := ifi.Cond.(*ssa.BinOp)
				if !ok || bo.Op.String() != "<" {
					continue
				}
				if lt := TermOf(bo.Y); !(lt.Op == "len" && lt.Any(MField("Items"))) {
					continue
				}
				header := b
				reach, _ := CanReach(Point{Block: b.Succs[0]}, func(in ssa.Instruction) bool { return in.Block() == header && in == header.Instrs[0] }, ReachOpts{CutEdge: func(bb *ssa.BasicBlock, k int) bool {
					return EdgeFactMatches(bb, k, FCmp("==", MField("Name"), MField("Name"))) ||
						EdgeFactMatches(bb, k, FFalse(MOr(MCall("validating.IsSameWorkloadRefGVKName"), MCall("validating.IsSameV1alpha1WorkloadRefGVKName"))))
				}})
				if reach {
					bad = "another Rollout can be skipped for a reason other than 'same name' or 'different workload reference' (e.g. because it is being deleted): two Rollouts may then drive one workload"
				}
			}
			c.Ob("R9.2", s.label+"#one-rollout-per-workload", fn.Pos(), bad == "", "any other Rollout with the same workload reference is a conflict", bad)
		}
	}

	// ---- R9.3
	factory := p.Func("pkg/util.GetEmptyWorkloadObject")
	if factory == nil {
		c.Unresolved("R9.3", "GetEmptyWorkloadObject")
		return
	}
	factoryTypes := map[string]bool{}
	for _, ret := range returnsOf(factory) {
		for _, lf := range Leaves(ret.Results[0], ret.Block()) {
			if mi, ok := lf.V.(*ssa.MakeInterface); ok {
				factoryTypes[types.TypeString(mi.X.Type(), shortQualifier)] = true
			}
		}
	}
	// helpers with a type switch whose default panics
	type helper struct {
		fn    *ssa.Function
		cases map[string]bool
	}
	var helpers []helper
	for _, fn := range p.RepoFuncs() {
		if !strings.HasPrefix(FuncName(fn), "pkg/util.") || len(fn.Params) == 0 {
			continue
		}
		hasPanic := false
		cases := map[string]bool{}
		for _, b := range fn.Blocks {
			for _, in := range b.Instrs {
				switch x := in.(type) {
				case *ssa.Panic:
					hasPanic = true
				case *ssa.TypeAssert:
					if x.X == ssa.Value(fn.Params[0]) && x.CommaOk {
						cases[types.TypeString(x.AssertedType, shortQualifier)] = true
					}
				}
			}
		}
		if hasPanic && len(cases) > 0 {
			helpers = append(helpers, helper{fn, cases})
		}
	}
	sort.Slice(helpers, func(i, j int) bool { return FuncName(helpers[i].fn) < FuncName(helpers[j].fn) })
	// feeding sites: functions that pass a factory object to ParseWorkload (whose closure contains the helpers)
	pw := p.Func("pkg/util.ParseWorkload")
	if pw == nil {
		c.Unresolved("R9.3", "ParseWorkload")
		return
	}
	fed := p.ReachableFrom(pw)
	for _, cs := range p.Callers(pw) {
		if len(cs.Args) == 0 || !SliceHas(cs.Args[0], MCall("util.GetEmptyWorkloadObject")) {
			continue
		}
		if !strings.HasPrefix(FuncName(cs.Caller), "pkg/util.") {
			// BatchRelease control planes are fed by BatchRelease objects, which only the Rollout controller creates
			// (for workloads its own finder accepted); a hand-made BatchRelease is outside the property
			continue
		}
		// kinds excluded by a guard before the factory call
		excluded := map[string]bool{}
		var fcall ssa.Instruction
		for _, call := range CallsIn(cs.Caller, "util.GetEmptyWorkloadObject") {
			fcall = call.(ssa.Instruction)
		}
		if fcall != nil {
			reach, _ := CanReach(Entry(cs.Caller), func(in ssa.Instruction) bool { return in == fcall }, ReachOpts{CutEdge: func(b *ssa.BasicBlock, k int) bool {
				isRS := func(t *Term) bool {
					return t.Any(func(x *Term) bool { return x.Op == "global" && strings.HasSuffix(x.Name, "ControllerKindRS") })
				}
				return EdgeFactMatches(b, k, FCmp("!=", MField("Kind"), isRS)) || EdgeFactMatches(b, k, FCmp("!=", MField("Group"), isRS))
			}})
			if !reach {
				excluded["*k8s.io/api/apps/v1.ReplicaSet"] = true
			}
		}
		for _, h := range helpers {
			if !fed[h.fn] {
				continue
			}
			var missing []string
			for t := range factoryTypes {
				if !h.cases[t] && !excluded[t] {
					missing = append(missing, t)
				}
			}
			sort.Strings(missing)
			c.Ob("R9.3", FuncName(cs.Caller)+"→"+shortName(FuncName(h.fn)), cs.Instr.Pos(), len(missing) == 0, "every type the workload factory can produce here is handled by "+shortName(FuncName(h.fn)),
				ifs(len(missing) > 0, "the factory can return "+strings.Join(missing, ", ")+" (a kind the validating webhook accepts), which falls into the panicking default of "+shortName(FuncName(h.fn))))
		}
	}
	// UpdateFinalizer only with constant operations
	if uf := p.Func("pkg/util.UpdateFinalizer"); uf != nil {
		for _, cs := range p.Callers(uf) {
			if len(cs.Args) < 3 {
				continue
			}
			op := TermOf(cs.Args[2])
			ok := op.Op == "const" && (op.Name == "Add" || op.Name == "Remove")
			c.Ob("R9.3", FuncName(cs.Caller)+"#UpdateFinalizer(op)", cs.Instr.Pos(), ok, "UpdateFinalizer is called with a constant Add/Remove (its default case panics)", ifs(!ok, "operation argument is "+op.String()))
		}
	}
	c.Extra["factory_types"] = fmt.Sprint(len(factoryTypes))
}

func shortQualifier(p *types.Package) string { return p.Path() }

// checkStepIndexWriters re-evaluates the CurrentStepIndex writer rule (C02 R2.1i) under another id.
func checkStepIndexWriters(c *Ctx, rule string) {
	sc, ok := loadStepConsts(c, rule)
	if !ok {
		return
	}
	checkStepStores(c, sc, rule, rule, rule, map[string]bool{"__index_only__": true})
}

// paramFedByField: at every call site of the parameter's function the argument derives from the named field.
func paramFedByField(p *Program, par *ssa.Parameter, field string) bool {
	fn := par.Parent()
	idx := -1
	for i, q := range fn.Params {
		if q == par {
			idx = i
		}
	}
	cs := p.Callers(fn)
	if idx < 0 || len(cs) == 0 {
		return false
	}
	for _, site := range cs {
		if site.Kind == "closure" || idx >= len(site.Args) || !SliceHas(site.Args[idx], MField(field)) {
			return false
		}
	}
	return true
}
