package rules

import (
	"fmt"
	"go/types"
	"path/filepath"
	"strings"

	"golang.org/x/tools/go/ssa"

	. "verif/rcheck/engine"
	"verif/rcheck/luafront"
)

func init() {
	register(&Prop{
		ID:  "C15",
		Run: runC15,
		Explanation: "Decides the structural clauses behind 'custom (Lua) network resources: stateless apply, exact restore': (R15.1) the configuration handed to the script in EnsureRoutes is the value decoded (json.Unmarshal) from the original-spec annotation — the decode dominates the script call and the live spec / labels are not an input (required and forbidden influence over the backward slice); " +
			"(R15.2) snapshot and restore agree field by field (exhaustive over the fields of the snapshot type Data via go/types): storeObject fills every field from the live object with the snapshot key removed first, restoreObject writes every field back before its Update; " +
			"(R15.3) compareAndUpdateObject writes only under an inequality of spec, annotations or labels and carries the snapshot annotation over; (R15.4) no error of the provider's API calls is lost (a swallowed conflict would be read as 'finalised'); " +
			"(R15.5) executeLuaForCanary passes canaryWeight = w and stableWeight = 100 - w; the built-in VirtualService script selects routes by equality of the short host name with the stable Service and gives the canary destination canaryWeight (Lua AST).",
		NotDecided:  "exact restoration through JSON <-> Lua round trips; the arithmetic of the Istio scripts for routes with several destinations; user-supplied scripts.",
		Assumptions: []string{"Lua scripts are analysed syntactically (no Lua data flow)"},
	})
}

func runC15(c *Ctx) {
	p := c.Prog
	c.Rule("R15.1", "the script input is the decoded snapshot, never the live spec/labels", 2)
	c.Rule("R15.2", "snapshot and restore agree on every field of the snapshot type", 7)
	c.Rule("R15.3", "compareAndUpdateObject writes only on a difference and keeps the snapshot annotation", 2)
	c.Rule("R15.4", "no API error of the custom provider is lost", 8)
	c.Rule("R15.5", "weights handed to the script are (100-w, w); Istio script selects by host equality", 4)

	pkg := "pkg/trafficrouting/network/customNetworkProvider."
	keyConst := p.ConstObj("pkg/trafficrouting/network/customNetworkProvider", "OriginalSpecAnnotation")
	if keyConst == nil {
		c.Unresolved("R15.1", "OriginalSpecAnnotation")
		return
	}
	key := ConstVal(keyConst)
	isSnapshotLookup := func(t *Term) bool {
		return t.Op == "lookup" && t.Args[1].Op == "const" && t.Args[1].Name == key
	}

	// ---- R15.1
	if outer := p.Func(pkg + "customController.EnsureRoutes"); outer == nil {
		c.Unresolved("R15.1", "customController.EnsureRoutes")
	} else {
		// the script run may sit in EnsureRoutes or in a helper its loop body was extracted into
		var luaCalls []ssa.CallInstruction
		for _, hf := range samePkgClosure(p, outer) {
			if strings.HasSuffix(FuncName(hf), ".executeLuaForCanary") {
				continue
			}
			luaCalls = append(luaCalls, CallsIn(hf, "customController.executeLuaForCanary")...)
		}
		fn := outer
		for _, call := range luaCalls {
			fn := call.Parent()
			arg := call.Common().Args[1]
			// the argument is a load of a local cell that json.Unmarshal filled
			var cell *ssa.Alloc
			for v := range BackwardSlice(arg) {
				if a, ok := v.(*ssa.Alloc); ok {
					cell = a
				}
			}
			okDecode, okSource := false, false
			if cell != nil {
				for _, um := range CallsIn(fn, "json.Unmarshal") {
					if len(um.Common().Args) == 2 && rootOf(um.Common().Args[1]) == ssa.Value(cell) {
						if r, _ := CanReach(Entry(fn), func(in ssa.Instruction) bool { return in == call.(ssa.Instruction) }, ReachOpts{CutInstr: func(in ssa.Instruction) bool { return in == um.(ssa.Instruction) }}); !r {
							okDecode = true
						}
						if SliceHas(um.Common().Args[0], isSnapshotLookup) {
							okSource = true
						}
					}
				}
			}
			forbidden := SliceHas(arg, func(t *Term) bool {
				return (t.Op == "lookup" && t.Args[1].Op == "const" && t.Args[1].Name == "spec") || (t.Op == "call" && strings.HasSuffix(t.Name, ".GetLabels"))
			})
			if cell != nil {
				for _, st := range allStoresTo(cell) {
					if SliceHas(st.Val, func(t *Term) bool {
						return (t.Op == "lookup" && t.Args[1].Op == "const" && t.Args[1].Name == "spec") || (t.Op == "call" && strings.HasSuffix(t.Name, ".GetLabels"))
					}) {
						forbidden = true
					}
				}
			}
			ok := okDecode && okSource && !forbidden
			c.Ob("R15.1", "customController.EnsureRoutes#script-input", call.Pos(), ok, "the script runs on the stored original configuration",
				ifs(!ok, "the Data argument is not (only) the value decoded from annotations["+key+"] before the call: steps would accumulate on the live object"))
		}
		// the snapshot is taken before the first script run when absent
		absent := FFalse(func(t *Term) bool {
			return t.Op == "extract" && t.Idx == 1 && t.Args[0].Op == "lookup" && isSnapshotLookup(t.Args[0])
		})
		for _, call := range CallsIn(fn, "customController.storeObject") {
			fs := FactsAtInstr(call.(ssa.Instruction))
			ok := HasFact(fs, absent)
			if !ok {
				// the guard may have moved into storeObject: then every write in it is under 'annotation absent'
				if so := call.Common().StaticCallee(); so != nil && so.Blocks != nil {
					isW := apiWrites(p)
					writes, guarded := 0, 0
					for _, b := range so.Blocks {
						for _, in := range b.Instrs {
							if isW(in) {
								writes++
								if HasFact(FactsAtInstr(in), absent) {
									guarded++
								}
							}
						}
					}
					ok = writes > 0 && writes == guarded
				}
			}
			c.Ob("R15.1", "customController.EnsureRoutes#snapshot-once", call.Pos(), ok, "the snapshot is taken only when none exists yet", ifs(!ok, "storeObject not under 'annotation absent': a later step would snapshot an already modified object")).WithFacts(fs)
		}
	}

	// ---- R15.2
	dataT := p.NamedType("pkg/trafficrouting/network/customNetworkProvider", "Data")
	store := p.Func(pkg + "customController.storeObject")
	restore := p.Func(pkg + "customController.restoreObject")
	if dataT == nil || store == nil || restore == nil {
		c.Unresolved("R15.2", "Data / storeObject / restoreObject")
	} else {
		st := dataT.Underlying().(interface {
			NumFields() int
		})
		_ = st
		fields := structFields(dataT)
		sources := map[string]M{
			"Spec":        func(t *Term) bool { return t.Op == "lookup" && t.Args[1].Op == "const" && t.Args[1].Name == "spec" },
			"Labels":      func(t *Term) bool { return t.Op == "call" && strings.HasSuffix(t.Name, ".GetLabels") },
			"Annotations": func(t *Term) bool { return t.Op == "call" && strings.HasSuffix(t.Name, ".GetAnnotations") },
		}
		updates := CallsIn(store, "client.Writer.Update")
		for _, f := range fields {
			// store side
			okS := false
			for _, s := range FieldStores([]*ssa.Function{store}, "customNetworkProvider.Data", f) {
				src, known := sources[f]
				if !known {
					continue
				}
				if SliceHas(s.Val, src) || (f == "Annotations" && SliceHas(s.Val, func(t *Term) bool { return t.Op == "make" || t.Op == "phi" })) {
					okS = true
				}
			}
			if _, known := sources[f]; !known {
				c.Ob("R15.2", "storeObject#field("+f+")", store.Pos(), false, "snapshot field "+f, "new field of Data: the rule does not know which part of the object it snapshots")
			} else {
				c.Ob("R15.2", "storeObject#field("+f+")", store.Pos(), okS, "the snapshot records "+f+" of the live object", ifs(!okS, "Data."+f+" is not filled from the live object"))
			}
			// restore side: the field of the decoded snapshot reaches the object before Update
			okR := false
			for _, pr := range withHelperInstrs(restore) {
				{
					in := pr.site
					var val ssa.Value
					switch x := pr.in.(type) {
					case *ssa.MapUpdate:
						val = x.Value
					case ssa.CallInstruction:
						n := CalleeName(x.Common())
						if strings.HasSuffix(n, ".SetAnnotations") || strings.HasSuffix(n, ".SetLabels") {
							if len(x.Common().Args) > 0 {
								val = x.Common().Args[len(x.Common().Args)-1]
							}
						}
					}
					if val == nil {
						continue
					}
					if SliceHas(val, func(t *Term) bool { return t.Op == "field" && t.Name == f && strings.Contains(t.String(), "oSpec") }) || fieldLoadOf(val, f) {
						// must precede the Update
						for _, u := range CallsIn(restore, "client.Writer.Update") {
							if r, _ := CanReach(Entry(restore), func(i2 ssa.Instruction) bool { return i2 == u.(ssa.Instruction) }, ReachOpts{CutInstr: func(i2 ssa.Instruction) bool { return i2 == in }}); !r {
								okR = true
							}
						}
					}
				}
			}
			c.Ob("R15.2", "restoreObject#field("+f+")", restore.Pos(), okR, "Finalise writes "+f+" back from the snapshot before updating", ifs(!okR, "Data."+f+" of the snapshot is not restored before the Update"))
		}
		// the snapshot key itself is removed from the recorded annotations
		delOK := false
		for _, call := range AllCalls(store) {
			if CalleeName(call.Common()) == "delete" && len(call.Common().Args) == 2 {
				if k := TermOf(call.Common().Args[1]); k.Op == "const" && k.Name == key {
					for _, u := range updates {
						if r, _ := CanReach(Entry(store), func(in ssa.Instruction) bool { return in == u.(ssa.Instruction) }, ReachOpts{CutInstr: func(in ssa.Instruction) bool { return in == call.(ssa.Instruction) }}); !r {
							delOK = true
						}
					}
				}
			}
		}
		c.Ob("R15.2", "storeObject#snapshot-excludes-itself", store.Pos(), delOK, "the snapshot does not contain the snapshot annotation (so restoring the annotations removes it)", ifs(!delOK, "no delete(annotations, "+key+") before the Update"))
	}

	// ---- R15.3
	if fn := p.Func(pkg + "customController.compareAndUpdateObject"); fn == nil {
		c.Unresolved("R15.3", "compareAndUpdateObject")
	} else {
		for _, u := range CallsIn(fn, "client.Writer.Update") {
			reach, _ := CanReach(Entry(fn), func(in ssa.Instruction) bool { return in == u.(ssa.Instruction) }, ReachOpts{CutEdge: func(b *ssa.BasicBlock, k int) bool {
				// one disjunction, so that a predicate helper ("is the configuration applied?") whose
				// false outcome rests on any of the three differences is recognised
				return EdgeFactMatches(b, k, FOr(FCmp("!=", MHas(MCall("util.DumpJSON")), MHas(MCall("util.DumpJSON"))), FFalse(MCall("reflect.DeepEqual"))))
			}})
			c.Ob("R15.3", "compareAndUpdateObject#write-on-difference", u.Pos(), !reach, "the object is updated only if spec, annotations or labels differ", ifs(reach, "Update reachable although nothing differs (the provider would never report 'verified')"))
		}
		carry := false
		for _, b := range fn.Blocks {
			for _, in := range b.Instrs {
				if mu, ok := in.(*ssa.MapUpdate); ok {
					if k := TermOf(mu.Key); k.Op == "const" && k.Name == key && SliceHas(mu.Value, isSnapshotLookup) {
						carry = true
					}
				}
			}
		}
		c.Ob("R15.3", "compareAndUpdateObject#carry-snapshot", fn.Pos(), carry, "the snapshot annotation is carried over to the written object", ifs(!carry, "annotations["+key+"] is not copied from the live object: the original configuration would be lost"))
	}

	// ---- R15.4
	checkErrorDiscipline(c, "R15.4", func(fn *ssa.Function) bool { return strings.HasPrefix(FuncName(fn), pkg) })

	// ---- R15.5
	if fn := p.Func(pkg + "customController.executeLuaForCanary"); fn == nil {
		c.Unresolved("R15.5", "executeLuaForCanary")
	} else {
		for _, f := range []string{"CanaryWeight", "StableWeight"} {
			sts := FieldStores([]*ssa.Function{fn}, "customNetworkProvider.LuaData", f)
			if len(sts) == 0 {
				c.Ob("R15.5", "executeLuaForCanary#"+f, fn.Pos(), false, f+" of the script input", "anchor not found")
			}
			for _, st := range sts {
				t := TermOf(st.Val)
				ok := false
				if f == "CanaryWeight" {
					ok = t.Op != "binop" && t.Op != "const"
					// the "no weight" marker written directly, where the step configures no traffic
					if t.Op == "const" && t.Name == "-1" && HasFact(FactsAtInstr(st), FNil(MField("Traffic"))) {
						ok = true
					}
				} else {
					ok = t.Op == "binop" && t.Name == "-" && t.Args[0].Op == "const" && t.Args[0].Name == "100"
				}
				// both derive from the same weight cell
				c.Ob("R15.5", "executeLuaForCanary#"+f, st.Pos(), ok, f+" = "+map[string]string{"CanaryWeight": "w", "StableWeight": "100 - w"}[f], ifs(!ok, "stored value is "+t.String()))
			}
		}
	}
	vs := filepath.Join(p.Dir, "lua_configuration/networking.istio.io/VirtualService/trafficRouting.lua")
	if src, err := p.ReadFile(vs); err != nil {
		c.Ob("R15.5", "VirtualService/trafficRouting.lua#read", 0, false, "built-in VirtualService script", err.Error())
	} else if sc, err := luafront.ParseBytes(vs, src); err != nil {
		c.Ob("R15.5", "VirtualService/trafficRouting.lua#parse", 0, false, "built-in VirtualService script parses", err.Error())
	} else {
		sel := false
		bad := ""
		for _, cs := range sc.CallSites {
			if cs.Name == "table.insert" && len(cs.Args) == 2 && cs.Args[0] == "matchedRoutes" {
				g := strings.ReplaceAll(cs.Guard, " ", "")
				if g == "GetHost(route)==stableService" || g == "stableService==GetHost(route)" {
					sel = true
				} else {
					bad = "routes are selected under `" + cs.Guard + "`"
				}
			}
		}
		c.Ob("R15.5", "VirtualService/trafficRouting.lua#route-selection", 0, sel && bad == "", "a route is patched only if its short host name equals the stable Service", ifs(!(sel && bad == ""), "selection is not an equality test of GetHost(route) with stableService: "+bad+" (a prefix match would also rewrite routes to other services)"))
		cw := false
		for _, a := range sc.Assigns {
			_ = a
		}
		// canary destination gets canaryWeight
		for _, line := range strings.Split(string(src), "\n") {
			if strings.Contains(strings.ReplaceAll(line, " ", ""), "weight=canaryWeight") {
				cw = true
			}
		}
		// … and nothing else writes a weight: the only other weight assignment is the re-scaling of the
		// existing destinations (route.weight = CalculateWeight(…)); a later `canary.weight = …` would
		// replace the step's share
		other := ""
		for _, a := range sc.Assigns {
			if a.Key != "weight" {
				continue
			}
			rhs := strings.ReplaceAll(a.Rhs, " ", "")
			if rhs == "canaryWeight" || strings.HasPrefix(rhs, "CalculateWeight(") {
				continue
			}
			other = fmt.Sprintf("%s.weight = %s (line %d)", a.Table, a.Rhs, a.Line)
		}
		c.Ob("R15.5", "VirtualService/trafficRouting.lua#canary-weight", 0, cw && other == "", "the generated canary destination carries canaryWeight", ifs(!cw, "no `weight = canaryWeight` in the generated destination")+ifs(other != "", "a weight is also assigned as "+other+": the canary share written to the VirtualService is then not the step's value (the provider verifies against the script's own output, so the step is still reported as routed)"))
	}
}

func rootOf(v ssa.Value) ssa.Value {
	for {
		switch x := v.(type) {
		case *ssa.MakeInterface:
			v = x.X
		case *ssa.ChangeInterface:
			v = x.X
		case *ssa.FieldAddr:
			v = x.X
		default:
			return v
		}
	}
}

// fieldLoadOf reports whether v is (a conversion of) a load of field f of some local struct cell.
func fieldLoadOf(v ssa.Value, f string) bool {
	for x := range BackwardSlice(v) {
		if fv, ok := x.(*ssa.Field); ok {
			if st, isSt := fv.X.Type().Underlying().(*types.Struct); isSt && fv.Field < st.NumFields() && st.Field(fv.Field).Name() == f {
				return true
			}
		}
		if fa, ok := x.(*ssa.FieldAddr); ok {
			if n, _ := FieldOf(fa); n == f {
				if _, isAlloc := fa.X.(*ssa.Alloc); isAlloc {
					return true
				}
			}
		}
	}
	return false
}

// instrAt pairs an instruction with the instruction of the examined function it is accounted at:
// itself, or — for an instruction of a same-package helper — the call of that helper.
type instrAt struct {
	in   ssa.Instruction
	site ssa.Instruction
}

// withHelperInstrs lists fn's instructions and those of the same-package functions it calls
// directly (one level), the latter accounted at their call site.
func withHelperInstrs(fn *ssa.Function) []instrAt {
	var out []instrAt
	for _, b := range fn.Blocks {
		for _, in := range b.Instrs {
			out = append(out, instrAt{in, in})
			ci, ok := in.(ssa.CallInstruction)
			if !ok {
				continue
			}
			h := ci.Common().StaticCallee()
			if h == nil || h == fn || h.Pkg != fn.Pkg || len(h.Blocks) == 0 {
				continue
			}
			for _, hb := range h.Blocks {
				for _, hin := range hb.Instrs {
					out = append(out, instrAt{hin, in})
				}
			}
		}
	}
	return out
}
