package rules

import (
	"go/types"
	"strings"

	"golang.org/x/tools/go/ssa"

	. "verif/rcheck/engine"
)

func init() {
	register(&Prop{
		ID:  "C07",
		Run: runC07,
		Explanation: "Termination under fairness is not a static property; decided are the 'no lost wake-up' and fixed-point preconditions: (R7.1) wherever a reconcile step reports 'not done / retry' without an error, every path from that edge to the return stores a recheck time (rollout phases Progressing/Terminating/Disabling, continuous-release reset, both step machines for every traffic-manager call), every Manager method that uses the grace wrapper hands the remaining time to UpdateRecheckDuration, the Rollout and TrafficRouting Reconcile turn a pending recheck into RequeueAfter, and retry-style Manager methods return (true,nil) only from the grace wrapper (which sets the duration); " +
			"(R7.2) no provider reports 'verified' in the pass that wrote (= C03 R3.3), so the grace loop cannot end early; (R7.3) the update target and the readiness criterion come from the same CalculateBatchContext (sibling rule over the three control planes) and each UpgradeBatch guard compares the context's own current/desired values (= C01 R1.1), so the target the controller sets is the one its readiness check waits for.",
		NotDecided:  "boundedness of the number of reconciles, provider idempotence build(build(x)) == build(x), the arithmetic 'partition restores to enough pods'; watch-event delivery.",
		Assumptions: []string{"waiting for a BatchRelease status change, for user approval and for spec.paused to clear is woken by watch events and needs no timer"},
	})
}

func isRecheckStore(in ssa.Instruction) bool {
	st, ok := in.(*ssa.Store)
	if !ok {
		return false
	}
	fa, ok := st.Addr.(*ssa.FieldAddr)
	if !ok {
		return false
	}
	n, _ := FieldOf(fa)
	return n == "RecheckTime"
}

func runC07(c *Ctx) {
	p := c.Prog
	c.Rule("R7.1", "not done / retry without error ⇒ a recheck time is stored on every path to the return", 8)
	c.Rule("R7.1b", "grace-wrapped Manager methods publish the remaining wait; retry=true only from the wrapper", 8)
	c.Rule("R7.1c", "a pending recheck becomes RequeueAfter in Reconcile", 2)
	c.Rule("R7.2", "verified means unchanged (no early end of the grace loop)", 3)
	c.Rule("R7.3", "target and readiness come from the same batch context", 6)
	c.Rule("R7.4", "UpgradeBatch guards compare the context's own current and desired values", 7)

	// ---- R7.1: (function, callee, which result, value meaning not-done)
	type site struct {
		fn, callee string
		idx        int
		notDone    string // "false" (done result) or "true" (retry result)
	}
	sites := []site{
		{"pkg/controller/rollout.RolloutReconciler.reconcileRolloutProgressing", "RolloutReconciler.doProgressingInitializing", 0, "false"},
		{"pkg/controller/rollout.RolloutReconciler.reconcileRolloutProgressing", "RolloutReconciler.doFinalising", 0, "false"},
		{"pkg/controller/rollout.RolloutReconciler.reconcileRolloutTerminating", "RolloutReconciler.doFinalising", 0, "false"},
		{"pkg/controller/rollout.RolloutReconciler.reconcileRolloutDisabling", "RolloutReconciler.doFinalising", 0, "false"},
		{"pkg/controller/rollout.RolloutReconciler.handleContinuousRelease", "RolloutReconciler.doProgressingReset", 0, "false"},
	}
	for _, mgr := range []string{"canaryReleaseManager", "blueGreenReleaseManager"} {
		f := "pkg/controller/rollout." + mgr + ".runCanary"
		sites = append(sites,
			site{f, "trafficrouting.Manager.FinalisingTrafficRouting", 0, "false"},
			site{f, "trafficrouting.Manager.PatchStableService", 0, "true"},
			site{f, "trafficrouting.Manager.DoTrafficRouting", 0, "false"})
	}
	sites = append(sites, site{"pkg/controller/rollout.canaryReleaseManager.runCanary", "trafficrouting.Manager.RestoreStableService", 0, "true"})
	for _, s := range sites {
		fn := p.Func(s.fn)
		if fn == nil {
			c.Unresolved("R7.1", s.fn)
			continue
		}
		calls := CallsIn(fn, s.callee)
		if len(calls) == 0 {
			// the step may have been extracted into a helper of the package: it is then judged there (the
			// helper must store the recheck time before it returns "not done")
			for _, g := range samePkgClosure(p, fn) {
				if g != fn && len(CallsIn(g, s.callee)) > 0 && p.Func(FuncName(g)) != nil && !strings.HasSuffix(FuncName(g), ".runCanary") {
					fn = g
					calls = CallsIn(g, s.callee)
					break
				}
			}
		}
		if len(calls) == 0 {
			c.Ob("R7.1", shortName(s.fn)+"#"+lastName(s.callee), fn.Pos(), false, "call of "+s.callee, "anchor not found")
			continue
		}
		for _, call := range calls {
			var m FactM
			if s.notDone == "false" {
				m = FFalse(MResultOf(call, s.idx))
			} else {
				m = FTrue(MResultOf(call, s.idx))
			}
			n := 0
			for _, b := range fn.Blocks {
				for k := range b.Succs {
					if !EdgeFactMatches(b, k, m) {
						continue
					}
					n++
					reach, _ := CanReachCP(Point{Block: b.Succs[k]}, IsReturn, ReachOpts{CutInstr: isRecheckStore, CutEdge: func(bb *ssa.BasicBlock, kk int) bool {
						// error paths requeue by returning the error
						return EdgeFactMatches(bb, kk, FNotNil(MResultOf(call, 1)))
					}})
					c.Ob("R7.1", shortName(s.fn)+"#not-done("+lastName(s.callee)+")", call.Pos(), !reach, "not done ⇒ RecheckTime stored before returning", ifs(reach, "a return is reachable from the not-done edge without storing a recheck time: nothing will wake this rollout up"))
				}
			}
			if n == 0 {
				// the not-done outcome is not tested separately: the recheck must be unconditional after the call
				reach, _ := CanReachCP(PointAfter(call.(ssa.Instruction)), IsReturn, ReachOpts{CutInstr: isRecheckStore, CutEdge: func(bb *ssa.BasicBlock, kk int) bool {
					return EdgeFactMatches(bb, kk, FNotNil(MResultOf(call, 1)))
				}})
				c.Ob("R7.1", shortName(s.fn)+"#after("+lastName(s.callee)+")", call.Pos(), !reach, "RecheckTime stored on every non-error path after the call", ifs(reach, "a return is reachable after the call without storing a recheck time"))
			}
		}
	}

	// ---- R7.1b
	for _, fn := range p.RepoFuncs() {
		for _, call := range CallsIn(fn, "grace.RunWithGraceSeconds") {
			isUpd := func(in ssa.Instruction) bool {
				ci, ok := in.(ssa.CallInstruction)
				if !ok || !NameMatch(CalleeName(ci.Common()), "trafficrouting.UpdateRecheckDuration") {
					return false
				}
				args := ci.Common().Args
				return len(args) == 2 && MResultOf(call, 1)(TermOf(args[1]))
			}
			reach, _ := CanReach(PointAfter(call.(ssa.Instruction)), IsReturn, ReachOpts{CutInstr: isUpd})
			c.Ob("R7.1b", FuncName(fn)+"#publish-remaining", call.Pos(), !reach, "the remaining grace time reaches UpdateRecheckDuration on every path", ifs(reach, "a return is reachable without UpdateRecheckDuration(c, remaining): the caller would requeue with a zero delay"))
		}
	}
	checkRetryStyleReturns(c, "R7.1b")

	// ---- R7.1c
	for _, rn := range []string{"pkg/controller/rollout.RolloutReconciler.Reconcile", "pkg/controller/trafficrouting.TrafficRoutingReconciler.Reconcile"} {
		fn := p.Func(rn)
		if fn == nil {
			c.Unresolved("R7.1c", rn)
			continue
		}
		var pending FactM
		if strings.Contains(rn, "RolloutReconciler") {
			pending = FNotNil(func(t *Term) bool { return t.Any(MResult("reconcileRollout", 0)) || t.Op == "phi" })
		} else {
			pending = FFalse(func(t *Term) bool { return t.Op == "phi" || t.Any(MResult("trafficrouting.Manager.", 0)) })
		}
		n := 0
		for _, b := range fn.Blocks {
			for k := range b.Succs {
				if !EdgeFactMatches(b, k, pending) {
					continue
				}
				// restrict to the edge whose tested value is the recheck/done variable
				ifi := b.Instrs[len(b.Instrs)-1].(*ssa.If)
				t := FactOf(ifi.Cond, k == 0)
				if strings.Contains(rn, "RolloutReconciler") {
					if !(t.L.Op == "phi" && t.L.Any(MResult("RolloutReconciler.reconcileRolloutProgressing", 0))) {
						continue
					}
				} else {
					if !(t.L.Op == "phi" && t.L.Any(MResult("trafficrouting.Manager.DoTrafficRouting", 0))) {
						continue
					}
				}
				n++
				isRequeue := func(in ssa.Instruction) bool {
					st, ok := in.(*ssa.Store)
					if !ok {
						return false
					}
					fa, ok := st.Addr.(*ssa.FieldAddr)
					if !ok {
						return false
					}
					nm, _ := FieldOf(fa)
					return nm == "RequeueAfter"
				}
				reach, _ := CanReach(Point{Block: b.Succs[k]}, IsReturn, ReachOpts{CutInstr: isRequeue})
				c.Ob("R7.1c", shortName(rn)+"#requeue", ifi.Pos(), !reach, "pending recheck ⇒ Result.RequeueAfter is set", ifs(reach, "a return is reachable from the pending edge without setting RequeueAfter"))
			}
		}
		if n == 0 {
			c.Ob("R7.1c", shortName(rn)+"#requeue", fn.Pos(), false, "test of the pending recheck in Reconcile", "anchor not found")
		}
	}

	// ---- R7.2
	if npT := p.NamedType("pkg/trafficrouting/network", "NetworkProvider"); npT == nil {
		c.Unresolved("R7.2", "network.NetworkProvider")
	} else {
		exempt := func(f *ssa.Function) bool {
			return NameMatch(FuncName(f), "customController.storeObject") || NameMatch(FuncName(f), "customController.compareAndUpdateObject")
		}
		// re-run R3.3 under this rule id
		for _, fn := range p.Implementations(npT.Underlying().(*types.Interface), "EnsureRoutes") {
			checkVerifiedMeansUnchangedAs(c, "R7.2", fn, exempt)
		}
	}

	// ---- R7.3 / R7.4
	checkSameContext(c, "R7.3")
	checkMonotoneKnob(c, "R7.4")
}
