// Package rules holds the rule instances per property.
package rules

import (
	"go/types"

	"verif/rcheck/engine"
)

// Prop describes how one property is decided.
type Prop struct {
	ID          string
	Whole       bool // needs dependency bodies (whole-program SSA)
	Run         func(c *engine.Ctx)
	Explanation string // clauses decided
	NotDecided  string
	Assumptions []string
	Technique   string // few words naming the deciding method
	DesignRef   string
}

// Registry maps property id to its rule set.
var Registry = map[string]*Prop{}

func register(p *Prop) { Registry[p.ID] = p }

// checkShellUses records one obligation per function that constructs shell objects (R6.5 / R11.5).
func checkShellUses(c *engine.Ctx, rule string, only func(name string) bool) {
	for _, fn := range c.Prog.RepoFuncs() {
		name := engine.FuncName(fn)
		if only != nil && !only(name) {
			continue
		}
		uses, ctors := engine.UnpopulatedShellUses(fn)
		if ctors == 0 {
			continue
		}
		if len(uses) == 0 {
			c.Ob(rule, name+"#shells", fn.Pos(), true, "empty keyed objects are only handed to the client or read after a successful client call filled them in", "")
			continue
		}
		for _, u := range uses {
			c.Ob(rule, name+"#shell-read("+u.What+")", u.Use.Pos(), false, "an object that only carries its key is read as if it were the live object",
				"created at "+c.Prog.Pos(u.Shell.Pos())+"; "+u.What+" is reachable without a successful client Get/Patch/Update/Create on it")
		}
	}
}

// structFields lists the field names of a named struct type.
func structFields(n interface{ Underlying() types.Type }) []string {
	st, ok := n.Underlying().(*types.Struct)
	if !ok {
		return nil
	}
	var out []string
	for i := 0; i < st.NumFields(); i++ {
		out = append(out, st.Field(i).Name())
	}
	return out
}
