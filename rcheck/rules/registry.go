// Package rules holds the rule instances per property.
package rules

import "verif/rcheck/engine"

// Prop describes how one property is decided.
type Prop struct {
	ID          string
	Whole       bool // needs dependency bodies (whole-program SSA)
	Run         func(c *engine.Ctx)
	Explanation string // clauses decided
	NotDecided  string
	Assumptions []string
	Technique   string // few words naming the deciding method
	DesignRef   string
}

// Registry maps property id to its rule set.
var Registry = map[string]*Prop{}

func register(p *Prop) { Registry[p.ID] = p }
