package rules

// Rules added for the misses of the sixth round of seeded changes.

import (
	"go/token"
	"go/types"
	"strconv"
	"strings"

	"golang.org/x/tools/go/ssa"

	. "verif/rcheck/engine"
)

var _ = strings.Contains

func extendProp(id string, expl string, extra func(c *Ctx)) {
	pr := Registry[id]
	old := pr.Run
	pr.Run = func(c *Ctx) { old(c); extra(c) }
	pr.Explanation += " " + expl
}

func importProp(id, from string, mapping map[string]string, expl string) {
	extendProp(id, expl, func(c *Ctx) { importFrom(c, from, mapping) })
}

func init() {
	extendProp("C03", "(R3.12) in both step machines the Init state can hand over to Upgrade without having asked whether this is the first step (and so without pinning the stable Service) only for a step that routes nothing: no weight AND no matches.", r6C03)
	extendProp("C09", "(R9.8) the Gateway provider loads the step's weight only where it is known to be set or the match list is empty, and the list it decides on is the step's own (the one the admission validator and the manager's nothing-to-route guard looked at), not a filtered copy.", r6C09)
	extendProp("C15", "(R15.13) what storeObject records as the original annotations is the live object's annotations minus the snapshot annotation and nothing else: restore replaces the whole map, so any other key left out is deleted from the user's object at the end of the release.", r6C15)
	importProp("C05", "C15", map[string]string{"R15.13": "R5.14"}, "(R5.14 = C15 R15.13) the custom provider's restore gives back every annotation the object had.")
	extendProp("C10", "(R10.12) isContinuousRelease / isRollingBackDirectly / isRollingBackInBatches answer false only for the reasons their definition enumerates (no release in progress, same revision, rollback flag, batch policy): any further exemption makes a superseding or reverted revision invisible to the dispatcher.", r6C10)
	extendProp("C01", "(R1.12) in both step machines the pass that advances CurrentStepIndex ends without a further API write: the new step is acted on (BatchRelease written) only by a later pass, which starts from the persisted status.", r6C01)
	extendProp("C20", "(R20.8) the four conversion methods return a non-nil error only on the branch where the hub object is not of the supported type: no value inside a schema-admitted object makes conversion fail.", r6C20)
	extendProp("C16", "(R16.12) Encode returns exactly the bytes encoding/json produced (no textual post-processing of the marshalled form): whatever Decode produced from valid JSON encodes back to valid JSON.", r6C16)
	extendProp("C06", "(R6.9) R6.1's error discipline extended to the workload finder (pkg/util.ControllerFinder): a failed read while resolving the workload is an error of the reconcile, never an 'inconsistent, wait' or 'absent' answer — the terminating and disabling paths act on that answer.", r6C06)
	extendProp("C13", "(R13.9) the list on which the Gateway provider chooses between generated match rules and weighted backends is the step's own matches on every path (matches take precedence when a step sets both).", r6C13)
	extendProp("C17", "(R17.10) no function of the Deployment controller writes through a *ReplicaSet / []*ReplicaSet parameter (map update, store through a pointer field, directly or via a callee) unless a DeepCopy lies in between: these objects are the informer cache's, and the scaling arithmetic of the next sync reads them.", r6C17)
	extendProp("C17", "(R17.11) cleanupUnhealthyReplicas skips an old ReplicaSet only when its spec is 0 or equals its available count exactly; a ReplicaSet reporting more available pods than its spec stops the pass (its status lags behind a scale-down already made).", r6C17b)
	extendProp("C07", "(R7.10) the BatchRelease controller's workload event handler gives up before looking up the referring BatchRelease only for an unrecognised kind, an unchanged resourceVersion, or an unchanged generation and status: the wake-up of a BatchRelease parked without requeue depends on it.", r6C07)
	extendProp("C07", "(R7.11) a control plane that refreshes a field of release.Status (the copy its own calculations read) stores the same value into newStatus (the copy that is persisted) on the same paths: otherwise the target computed in this pass and the readiness check of the next pass use different numbers and the batch can oscillate for ever.", r6C07b)
	extendProp("C14", "(R14.10) in both step machines a step with neither weight nor matches reaches the code of ANY sub-state only after FinalisingTrafficRouting reported done — not just the Init sub-state: steps can be entered directly in TrafficRouting by a jump.", r6C14)
	extendProp("C14", "(R14.11) buildCanaryIngress copies a path into the canary rule under conditions on that path's backend alone (it is a Service backend and names the stable Service): host, position or anything else about the rule cannot exclude a path of the stable Service.", r6C14b)
	extendProp("C11", "(R11.12) in every CalculateBatchContext the fields UpdatedReplicas and UpdatedReadyReplicas — the counts readiness is judged on — derive from status fields or pod counts, never from a spec field the controller itself writes.", r6C11)
	extendProp("C11", "(R11.13) resolveFenceposts (pkg/util, behind DeploymentMaxUnavailable and the wait-until-ready gates of Finalize) scales maxSurge with roundUp=true and maxUnavailable with roundUp=false.", r6C11b)
	extendProp("C17", "(R17.12) the same for the Deployment controller's own copy (ResolveFenceposts): the availability floor is replicas minus maxUnavailable rounded DOWN.", r6C17c)
	extendProp("C18", "(R18.11) RestoreStableService reports done without having reached the restore step only when no traffic routing is configured or the stable Service does not exist — never on the strength of a spec flag, which can have changed since the selector was pinned.", r6C18)
	importProp("C05", "C18", map[string]string{"R18.11": "R5.15"}, "(R5.15 = C18 R18.11) every exit restores the stable Service's selector if it was pinned, whatever the spec says now.")
	extendProp("C19", "(R19.10) ProgressingRolloutFinalizer builds the finalizer from the whole Rollout name (no truncation, trimming or hashing): distinct Rollouts sharing a TrafficRouting hold distinct finalizers.", r6C19)
	extendProp("C12", "(R12.10) IsCompletedPod answers false only for a phase that is neither Failed nor Succeeded; (R12.11) ListOwnedPods keeps a pod only under IsOwnedBy(...) == true evaluated for that pod.", r6C12)
	extendProp("C08", "(R8.12) util.EqualIgnoreHash — the 'did the pod template change' test of all four admission handlers — answers true only as the outcome of a deep comparison; R8.8 now accepts 'template unchanged' as a reason to skip only where no rollout-id is configured.", r7C08)
	extendProp("C09", "(R9.9) every write into an `.Annotations` map in the controllers, the workload webhook and the conversion functions is preceded on every path by a nil test of an annotations map or by a fresh map being stored.", r7C09)
	extendProp("C07", "(R7.12) Initialize of the partition-style Deployment controller does not carry the stored strategy's paused flag into the strategy it writes; (R7.13) every store of status.observedWorkloadReplicas takes WorkloadInfo.Replicas, the value WorkloadInfo.IsScaling compares it with.", r7C07)
	extendProp("C05", "(R5.16) all workload finders (CloneSet, DaemonSet, both Deployment forms, StatefulSet-like) set Workload.RevisionLabelKey on every path that returns the Workload of an existing object — also when the workload carries no in-progress marker, which is the state every finalising pass after the first one sees.", r7C05)
	extendProp("C03", "(R3.13) calculateRolloutHash rebuilds the steps it hashes from a list that has not just been emptied (both strategies): a plan edit of the current step must change the hash, or the step's routing is never re-applied.", r7C03)
	extendProp("C01", "(R1.13) who may write DeploymentStrategy.Paused: the workload webhook sets it, Initialize of the partition-style Deployment controller clears it, nothing reachable from UpgradeBatch touches it; (R1.14) the admission check that step replicas never decrease compares values scaled by GetScaledValueFromIntOrPercent (a percentage has no integer value).", r7C01)
	extendProp("C10", "(R10.13) both Deployment finders compare the workload's template with the stable ReplicaSet's (the rollback test) on every path that returns a Workload marked InRolloutProgressing without an error.", r7C10)
	extendProp("C13", "(R13.10) EnsureRoutes and Finalise of the Gateway provider never return a nil error on a path where retry.RetryOnConflict (the HTTPRoute write) returned one — whatever kind of error it is.", r7C13)
	importProp("C04", "C13", map[string]string{"R13.10": "R4.11"}, "(R4.11 = C13 R13.10) a route whose restore failed is not reported as restored, so the canary Service is not deleted under it.")
	extendProp("C11", "(R11.14) UpgradeBatch and EnsureBatchPodsReadyAndLabeled of the canary-style control plane compute the batch context only behind IsStable() of the canary Deployment (observedGeneration >= generation): SyncWorkloadInformation checks the stable Deployment only.", r7C11)
	extendProp("C20", "(R20.9) every load through an optional scalar pointer (*int32 weight, *string traffic, …) in the conversion functions is dominated by a nil test of that pointer.", r7C20)
	extendProp("C18", "(R18.12) Finalize of the partition-style and blue-green control planes returns nil only as the result of the workload controller's Finalize, or as IgnoreNotFound of the workload lookup.", r7C18)
	importProp("C05", "C18", map[string]string{"R18.12": "R5.17"}, "(R5.17 = C18 R18.12) every exit releases the workload the release claimed.")
	extendProp("C17", "(R17.13) getReplicaSetsForDeployment queries the ReplicaSet lister with the selector built from spec.selector (the template labels may change from one revision to the next; the selector cannot).", r7C17)
	extendProp("C20", "(R20.10) the conversion functions contain no delete() on an object's annotations or labels (the ObjectMeta copy is shallow: source and destination share the maps); (R20.11) where source and destination have an optional scalar of the same name and type (pause.duration, …) the destination gets the source's pointer, not a value rebuilt from it.", r8C20)
	extendProp("C08", "(R8.13) the error of fetchMatchedRollout is propagated by every admission handler (error discipline of R6.1 applied to the workload webhook); (R8.14) UnifiedWorkloadHandler.Handle returns a bare Allowed before handleStatefulSetLikeWorkload only when the workload-type label is not 'statefulset' AND the kind is not StatefulSet.", r8C08)
	extendProp("C12", "(R12.12) PatchPodBatchLabel returns nil without running patchPodBatchLabel only for an empty rollout-id or an empty pod list.", r8C12)
	extendProp("C17", "(R17.14) SetDefaultDeploymentStrategy is called by the writers of the strategy annotation only, never from the Deployment controller package, which reads the stored strategy as it is.", r8C17)
	extendProp("C11", "(R11.15) refreshStatus writes status.observedReleasePlanHash only on the path where it is empty.", r8C11)
	extendProp("C07", "(R7.14) the Rollout controller's workload event handler matches a workload to its Rollout by group, kind and name and never by API version (no comparison of whole GroupVersionKind values).", r8C07)
	extendProp("C06", "(R6.10) RestoreStableService reaches its restore step only on the edge where the read of the stable Service returned nil; (R6.11) mutatingProtectionInvalid patches the Deployment (and answers 'invalid') only under IsNotFound(err) or a deletion timestamp of the webhook configuration — any other read error is returned.", r8C06)
	extendProp("C03", "(R3.14) the Gateway provider's restore request (weight -1) reaches buildDesiredHTTPRoute from Finalise only: in EnsureRoutes every value the weight can take is nil (the step configures no weight) or points to a number computed from strategy.Traffic.", r9C03)
	importProp("C13", "C03", map[string]string{"R3.14": "R13.11"}, "(R13.11 = C03 R3.14) a match step without a weight gets its match routes, not the restored route.")
	extendProp("C13", "(R13.12) buildCanaryWeightHttpRoutes appends a rule that references the stable Service only after the step's split was written into it, for every weight including 0; (R13.13) the loops over the HTTPRoute's rules in the three builders of the desired rules are left by exhaustion only: every rule the user wrote is looked at and kept.", r9C13)
	extendProp("C15", "(R15.14) in the custom provider the step's weight is absent only when strategy.Traffic is: every value computed from a configured traffic percentage, 0 included, is handed to the script.", func(c *Ctx) {
		stepWeightNeverDropped(c, "R15.14", []string{"pkg/trafficrouting/network/customNetworkProvider"}, 1)
	})
	extendProp("C03", "(R3.15) in all three providers the step's weight is absent only when strategy.Traffic is (0% is a weight: the providers take an absent weight for 'match step' or, in the scripts, for -1).", func(c *Ctx) {
		stepWeightNeverDropped(c, "R3.15", []string{""}, 1)
	})
	extendProp("C16", "(R16.15) in the packages that take apart what a script returned there is no unchecked type assertion on a value that came from the script; (R16.14) decodeValue sets every key of a JSON object as the Lua string it is: the key handed to the table setter is lua.LString of the ranged map key, never a number or a computed value ('1' and 1 are different keys to a script, and integer keys turn the table into a list on the way back).", r9C16)
	extendProp("C15", "(R15.15) the script getLuaScript answers with is looked up under the reference's API group and kind together: every script it returns is computed from ref.APIVersion as well as from ref.Kind.", r9C15)
	extendProp("C18", "(R18.13) finalizeTrafficRouting (the Rollout giving up its hold on a TrafficRouting object) answers nil only when the object is not found, does not carry the rollout's progressing finalizer, or the removal of that finalizer succeeded — whatever else is true of the object.", r9C18)
	extendProp("C08", "(R8.10) both admission handlers answer 'this workload is not selected by the webhook configuration' only after every entry and rule was examined (or the entry's selector cannot be parsed): the first entry whose rule matches does not decide alone.", r6C08)
}

// sccExitKind classifies how the return block r is reached out of the loop nest it follows:
// "exhausted" when every way out of the nest towards r is the loop test of a counted / range
// loop, "mid-loop" when some way out is any other branch, "" when r is not preceded by a loop.
func loopExitKind(r *ssa.BasicBlock) string {
	fn := r.Parent()
	kind := ""
	toR := reachBlocks(r, true)
	toR[r] = true
	for _, x := range fn.Blocks {
		scc := loopBlocks(x)
		if !scc[x] {
			continue
		}
		for k, y := range x.Succs {
			if scc[y] || !toR[y] {
				continue
			}
			// x -> y leaves the nest towards r
			counted := false
			if iff, ok := x.Instrs[len(x.Instrs)-1].(*ssa.If); ok {
				switch cnd := iff.Cond.(type) {
				case *ssa.BinOp:
					for _, s := range []ssa.Value{cnd.X, cnd.Y} {
						if bo, ok := s.(*ssa.BinOp); ok { // rotated range loop: (i + 1) < len
							s = bo.X
						}
						if ph, ok := s.(*ssa.Phi); ok && isInductionVar(ph) {
							counted = true
						}
					}
				case *ssa.Extract: // map / string range: ok of next
					if _, isNext := cnd.Tuple.(*ssa.Next); isNext {
						counted = true
					}
				}
			}
			_ = k
			if counted && kind == "" {
				kind = "exhausted"
			}
			if !counted {
				kind = "mid-loop"
			}
		}
	}
	return kind
}

func r6C08(c *Ctx) {
	p := c.Prog
	c.Rule("R8.10", "'not selected by the webhook configuration' is answered only after every entry was examined", 2)
	pk := "pkg/webhook/workload/mutating."
	badSelector := FNotNil(MResult("LabelSelectorAsSelector", 1))
	for _, name := range []string{pk + "WorkloadHandler.checkWorkloadRules", pk + "UnifiedWorkloadHandler.checkWorkloadRules"} {
		fn := p.Func(name)
		if fn == nil {
			c.Unresolved("R8.10", name)
			continue
		}
		bad := ""
		loops := 0
		for _, b := range fn.Blocks {
			if len(b.Instrs) == 0 {
				continue
			}
			ret, ok := b.Instrs[len(b.Instrs)-1].(*ssa.Return)
			if !ok || len(ret.Results) != 2 || b == fn.Recover {
				continue
			}
			if e, isC := ret.Results[1].(*ssa.Const); !isC || !e.IsNil() {
				continue
			}
			kind := loopExitKind(b)
			if kind != "" {
				loops++
			}
			if kind != "mid-loop" {
				continue
			}
			for _, lf := range BoolLeaves(ret.Results[0], b) {
				if k, ok := lf.V.(*ssa.Const); ok && constText(k) == "true" {
					continue
				}
				if HasFact(lf.Facts, badSelector) || HasFact(FactsFor(fn).At(b), badSelector) {
					continue
				}
				bad = "the return at " + p.Pos(ret.Pos()) + " can answer 'not selected' from inside the loop over the configuration's entries: a later entry (the catch-all one) that selects the workload is never looked at, and a release change is admitted without the hold-back"
			}
		}
		c.Ob("R8.10", shortName(name)+"#not-selected-after-all-entries", fn.Pos(), bad == "" && loops > 0, "inside the loop over entries and rules only 'selected' (or an unparsable selector) ends the search", bad+ifs(loops == 0, "no loop over the configuration's entries found"))
	}
}

func r6C03(c *Ctx) {
	p := c.Prog
	c.Rule("R3.12", "Init skips the first-step test only for a step with neither weight nor matches", 2)
	sc, ok := loadStepConsts(c, "R3.12")
	if !ok {
		return
	}
	noWeight := FNil(MField("Traffic"))
	noMatches := FOr(FCmp("==", MLen(MField("Matches")), MConst("0")), FCmp("<=", MLen(MField("Matches")), MConst("0")), FCmp("<", MLen(MField("Matches")), MConst("1")))
	firstStep := FOr(FCmp("==", MField("CurrentStepIndex"), MConst("1")), FCmp("!=", MField("CurrentStepIndex"), MConst("1")))
	for _, fn := range p.FuncsMatching("runCanary") {
		if fn.Signature.Recv() == nil {
			continue
		}
		var upStores []*ssa.Store
		for _, st := range FieldStores([]*ssa.Function{fn}, "", "CurrentStepState") {
			if v, ok := StoredConst(st); ok && v == sc.upgrade && HasFact(FactsFor(fn).At(st.Block()), stateIs(sc.init)) {
				upStores = append(upStores, st)
			}
		}
		if len(upStores) == 0 {
			c.Ob("R3.12", FuncName(fn)+"#init-to-upgrade", fn.Pos(), false, "Init -> Upgrade store", "anchor not found")
			continue
		}
		isUp := func(in ssa.Instruction) bool {
			for _, s := range upStores {
				if in == ssa.Instruction(s) {
					return true
				}
			}
			return false
		}
		var miss []string
		for i, need := range []FactM{noWeight, noMatches} {
			need := need
			// one combined cut: when the test sits in a helper, each way the helper lets the caller go on
			// must pass one OR the other
			both := FOr(need, firstStep)
			reach, _ := CanReach(Entry(fn), isUp, ReachOpts{CutEdge: func(b *ssa.BasicBlock, k int) bool {
				return EdgeFactMatches(b, k, both)
			}})
			if reach {
				miss = append(miss, []string{"traffic == nil", "len(matches) == 0"}[i])
			}
		}
		c.Ob("R3.12", FuncName(fn)+"#first-step-test-skipped-only-without-routing", upStores[0].Pos(), len(miss) == 0, "the Upgrade state is entered without the first-step test only when the step has no weight and no matches",
			ifs(len(miss) > 0, "Upgrade is reachable from Init without the CurrentStepIndex == 1 test on a path that has not established "+strings.Join(miss, ", ")+": a first step that still routes traffic creates its pods while the stable Service still selects every revision"))
	}
}

// ---------------------------------------------------------------- C09 R9.8

// derefsParamUnguarded: parameter i (a pointer) is loaded in fn at a point where `param != nil`
// has not been established.
func derefsParamUnguarded(fn *ssa.Function, i int) ssa.Instruction {
	if fn == nil || i >= len(fn.Params) {
		return nil
	}
	par := fn.Params[i]
	for _, b := range fn.Blocks {
		for _, in := range b.Instrs {
			u, ok := in.(*ssa.UnOp)
			if !ok || u.Op != token.MUL || u.X != ssa.Value(par) {
				continue
			}
			if HasFact(FactsFor(fn).At(b), FNotNil(func(t *Term) bool { return t.V == ssa.Value(par) })) {
				continue
			}
			return in
		}
	}
	return nil
}

func r6C09(c *Ctx) {
	p := c.Prog
	c.Rule("R9.8", "the Gateway provider builds weight routes from a possibly absent weight only when the step's own match list is empty", 2)
	gp := "pkg/trafficrouting/network/gateway."
	build := p.Func(gp + "gatewayController.buildDesiredHTTPRoute")
	if build == nil {
		c.Unresolved("R9.8", "gatewayController.buildDesiredHTTPRoute")
		return
	}
	// parameters of buildDesiredHTTPRoute: the *int32 weight and the []HttpRouteMatch list
	wi, mi := -1, -1
	for i, par := range build.Params {
		ts := par.Type().String()
		if ts == "*int32" {
			wi = i
		}
		if strings.HasSuffix(ts, "HttpRouteMatch") && strings.HasPrefix(ts, "[]") {
			mi = i
		}
	}
	if wi < 0 || mi < 0 {
		c.Unresolved("R9.8", "buildDesiredHTTPRoute(weight *int32, matches []HttpRouteMatch)")
		return
	}
	isPar := func(par *ssa.Parameter) M { return func(t *Term) bool { return t.V == ssa.Value(par) } }
	emptyList := FOr(FCmp("==", MLen(isPar(build.Params[mi])), MConst("0")), FCmp("<=", MLen(isPar(build.Params[mi])), MConst("0")), FCmp("<", MLen(isPar(build.Params[mi])), MConst("1")))
	// (1) inside: a callee that loads the weight without a nil test is called with the weight only
	// under weight != nil or under an empty match list
	n := 0
	bad := ""
	for _, ci := range AllCalls(build) {
		g := ci.Common().StaticCallee()
		if g == nil || g.Blocks == nil {
			continue
		}
		for ai, a := range ci.Common().Args {
			if Forwarded(a) != ssa.Value(build.Params[wi]) && a != ssa.Value(build.Params[wi]) {
				continue
			}
			gi := ai
			if g.Signature.Recv() == nil && ci.Common().IsInvoke() {
				continue
			}
			if derefsParamUnguarded(g, gi) == nil {
				continue
			}
			n++
			fs := FactsFor(build).At(ci.Block())
			if !HasFact(fs, FNotNil(isPar(build.Params[wi]))) && !HasFact(fs, emptyList) {
				bad = FuncName(g) + " loads the weight unconditionally and is called at " + p.Pos(ci.Pos()) + " where neither weight != nil nor len(matches) == 0 is known"
			}
		}
	}
	if d := derefsParamUnguarded(build, wi); d != nil {
		n++
		if !HasFact(FactsFor(build).At(d.Block()), emptyList) {
			bad = "the weight is loaded at " + p.Pos(d.Pos()) + " where neither weight != nil nor len(matches) == 0 is known"
		}
	}
	c.Ob("R9.8", "buildDesiredHTTPRoute#weight-load-guarded", build.Pos(), n > 0 && bad == "", "the weight is loaded only when it is known to be set or no matches are configured", bad+ifs(n == 0, "no load of the weight found"))
	// (2) outside: a caller that can pass a nil weight passes the step's own match list — the list
	// whose emptiness the manager's nothing-to-route guard and the admission validator looked at
	for _, site := range p.Callers(build) {
		if site.Args == nil || wi >= len(site.Args) || mi >= len(site.Args) {
			continue
		}
		w := site.Args[wi]
		// the weight may be absent unless every value it can take is a fresh pointer
		mayNil := false
		for _, lf := range LeavesDeep(Forwarded(w), site.Instr.Block()) {
			switch x := lf.V.(type) {
			case *ssa.Alloc:
				continue
			case *ssa.Call:
				if g := x.Call.StaticCallee(); g != nil && g.Pkg != nil && (strings.HasSuffix(g.Pkg.Pkg.Path(), "k8s.io/utils/pointer") || strings.HasSuffix(g.Pkg.Pkg.Path(), "k8s.io/utils/ptr")) {
					continue
				}
			}
			mayNil = true
		}
		if !mayNil {
			// nothing to dereference: the obligation holds, and stays counted
			c.Ob("R9.8", FuncName(site.Caller)+"#matches-are-the-steps-own", site.Instr.Pos(), true, "the weight handed on is never absent at this call", "")
			continue
		}
		isOwn := func(v ssa.Value) bool {
			root, path := TermOf(v).FieldPath()
			_, rootIsParam := root.V.(*ssa.Parameter)
			return rootIsParam && len(path) > 0 && path[len(path)-1] == "Matches"
		}
		// R9.8: wherever the list is not the step's own, the weight is known to be set
		own, always := true, true
		desc := ""
		for _, lf := range LeavesDeep(Forwarded(site.Args[mi]), site.Instr.Block()) {
			if isOwn(lf.V) {
				continue
			}
			always = false
			if !HasFact(lf.Facts, FNotNil(MField("Traffic"))) {
				own = false
				desc = TermOf(lf.V).String()
			}
		}
		c.Ob("R9.8", FuncName(site.Caller)+"#matches-are-the-steps-own", site.Instr.Pos(), own, "the match list handed on with a possibly absent weight is strategy.Matches itself",
			ifs(!own, "the list can be "+desc+": if it can be empty while the step's own list is not, a step without weight reaches the weight routes and the nil weight is dereferenced — a panic in the reconcile worker on every retry"))
		_ = always
	}
}

// r6C13: R13.9 — the list the Gateway provider decides on is the step's own in every case (C13:
// a step that configures matches is a match step whatever else it sets).
func r6C13(c *Ctx) {
	p := c.Prog
	c.Rule("R13.9", "the Gateway provider decides between match routes and weight routes on the step's own match list", 1)
	gp := "pkg/trafficrouting/network/gateway."
	build := p.Func(gp + "gatewayController.buildDesiredHTTPRoute")
	ensure := p.Func(gp + "gatewayController.EnsureRoutes")
	if build == nil || ensure == nil {
		c.Unresolved("R13.9", "gatewayController.buildDesiredHTTPRoute / EnsureRoutes")
		return
	}
	mi := -1
	for i, par := range build.Params {
		if ts := par.Type().String(); strings.HasSuffix(ts, "HttpRouteMatch") && strings.HasPrefix(ts, "[]") {
			mi = i
		}
	}
	n := 0
	for _, site := range p.Callers(build) {
		if site.Caller != ensure || site.Args == nil || mi < 0 || mi >= len(site.Args) {
			continue
		}
		n++
		bad := ""
		for _, lf := range LeavesDeep(Forwarded(site.Args[mi]), site.Instr.Block()) {
			root, path := TermOf(lf.V).FieldPath()
			_, rootIsParam := root.V.(*ssa.Parameter)
			if !(rootIsParam && len(path) > 0 && path[len(path)-1] == "Matches") {
				bad = TermOf(lf.V).String()
			}
		}
		c.Ob("R13.9", "gatewayController.EnsureRoutes#decides-on-step-matches", site.Instr.Pos(), bad == "", "the list passed to buildDesiredHTTPRoute is strategy.Matches on every path",
			ifs(bad != "", "on some path the list is "+bad+": a step that sets matches (together with a weight, or matches this code drops) is then run as a plain weight step — a share of ALL requests reaches the canary instead of the matching ones only"))
	}
	if n == 0 {
		c.Ob("R13.9", "gatewayController.EnsureRoutes#decides-on-step-matches", ensure.Pos(), false, "call of buildDesiredHTTPRoute in EnsureRoutes", "anchor not found")
	}
}

// ---------------------------------------------------------------- C15 R15.13 (= C05 R5.14)

func r6C15(c *Ctx) {
	p := c.Prog
	c.Rule("R15.13", "the snapshot of a custom resource's annotations leaves out nothing but the snapshot annotation itself", 1)
	pkg := "pkg/trafficrouting/network/customNetworkProvider."
	keyConst := p.ConstObj("pkg/trafficrouting/network/customNetworkProvider", "OriginalSpecAnnotation")
	store := p.Func(pkg + "customController.storeObject")
	if keyConst == nil || store == nil {
		c.Unresolved("R15.13", "OriginalSpecAnnotation / customController.storeObject")
		return
	}
	key := ConstVal(keyConst)
	fromLive := func(v ssa.Value) bool {
		return SliceHas(v, func(t *Term) bool { return t.Op == "call" && strings.HasSuffix(t.Name, ".GetAnnotations") })
	}
	n := 0
	bad := ""
	// (a) keys deleted from the live annotations before they are recorded
	for _, call := range AllCalls(store) {
		if CalleeName(call.Common()) != "delete" || len(call.Common().Args) != 2 || !fromLive(call.Common().Args[0]) {
			continue
		}
		n++
		if k := TermOf(call.Common().Args[1]); !(k.Op == "const" && k.Name == key) {
			bad = "delete(annotations, " + k.String() + ") at " + p.Pos(call.Pos()) + " removes a key of the user's from what is recorded"
		}
	}
	// (b) a copy of the live annotations: every key but the snapshot key is copied
	for _, b := range store.Blocks {
		for _, in := range b.Instrs {
			mu, ok := in.(*ssa.MapUpdate)
			if !ok {
				continue
			}
			if _, isMake := Forwarded(mu.Map).(*ssa.MakeMap); !isMake {
				continue
			}
			kt := TermOf(mu.Key)
			if !(kt.Op == "extract" || kt.Any(func(t *Term) bool { return t.Op == "next" })) {
				continue
			}
			// does this map end up in Data.Annotations?
			reaches := false
			for _, s := range FieldStores([]*ssa.Function{store}, "customNetworkProvider.Data", "Annotations") {
				if BackwardSlice(s.Val)[Forwarded(mu.Map)] || Forwarded(s.Val) == Forwarded(mu.Map) {
					reaches = true
				}
			}
			if !reaches {
				continue
			}
			n++
			for _, f := range FactsFor(store).At(b) {
				if isLoopExitFact(f) {
					continue
				}
				mentions := func(t *Term) bool { return t != nil && (t.V == mu.Key || t.String() == kt.String() || t.Any(func(x *Term) bool { return x.V == mu.Key })) }
				if !mentions(f.L) && !mentions(f.R) {
					continue
				}
				other := f.R
				if mentions(f.R) {
					other = f.L
				}
				if f.Op == "!=" && other.Op == "const" && other.Name == key {
					continue
				}
				bad = "the copy at " + p.Pos(mu.Pos()) + " is made only under " + f.String() + ": an annotation of the user's is missing from the snapshot, and Finalise (which replaces the whole annotation map by the snapshot) deletes it from the object"
			}
		}
	}
	c.Ob("R15.13", "storeObject#annotations-recorded-completely", store.Pos(), n > 0 && bad == "", "only the snapshot annotation is left out of the recorded annotations", bad+ifs(n == 0, "neither a delete on the live annotations nor a copy loop found"))
}

// ---------------------------------------------------------------- C10 R10.12

func r6C10(c *Ctx) {
	p := c.Prog
	c.Rule("R10.12", "the supersession / rollback predicates answer 'no' only for their enumerated reasons", 3)
	sameRev := FCmp("==", MField("CanaryRevision"), MCall("GetCanaryRevision"))
	inBatch := MCall("util.IsRollbackInBatchPolicy")
	for _, pr := range []struct {
		name    string
		allowed FactM
		desc    string
	}{
		{"pkg/controller/rollout.isContinuousRelease", FOr(FCmp("==", MCall("GetCanaryRevision"), MConst("")), sameRev, FTrue(MField("IsInRollback"))), "no release in progress, the revision being released is still the workload's, or the workload is rolling back"},
		{"pkg/controller/rollout.isRollingBackDirectly", FOr(FFalse(MField("IsInRollback")), sameRev, FTrue(inBatch)), "the workload is not rolling back, its revision is the released one, or rollback-in-batches is requested"},
		{"pkg/controller/rollout.isRollingBackInBatches", FOr(FFalse(MField("IsInRollback")), sameRev, FFalse(inBatch)), "the workload is not rolling back, its revision is the released one, or rollback-in-batches is not requested"},
	} {
		fn := p.Func(pr.name)
		if fn == nil {
			c.Unresolved("R10.12", pr.name)
			continue
		}
		bad := ""
		n := 0
		for _, b := range fn.Blocks {
			if len(b.Instrs) == 0 || b == fn.Recover {
				continue
			}
			ret, ok := b.Instrs[len(b.Instrs)-1].(*ssa.Return)
			if !ok || len(ret.Results) != 1 {
				continue
			}
			for _, lf := range BoolLeaves(ret.Results[0], b) {
				n++
				fs := append(append([]Fact{}, lf.Facts...), FactsFor(fn).At(b)...)
				if k, isC := lf.V.(*ssa.Const); isC {
					if constText(k) == "true" {
						continue
					}
				} else {
					fs = append(fs, FactOf(lf.V, false))
				}
				okLeaf := false
				for _, f := range fs {
					if FactMatchesDeep(f, pr.allowed, fs) {
						okLeaf = true
					}
				}
				if !okLeaf {
					bad = "the return at " + p.Pos(ret.Pos()) + " can answer false for another reason (" + TermOf(lf.V).String() + ")"
				}
			}
		}
		c.Ob("R10.12", shortName(pr.name)+"#no-only-when", fn.Pos(), n > 0 && bad == "", "false only when "+pr.desc,
			ifs(bad != "", bad+": a new revision (or a rollback) observed mid-release is then not treated as one — traffic is not taken back and the release is not restarted before the workload changes underneath it"))
	}
}

// ---------------------------------------------------------------- C01 R1.12

func r6C01(c *Ctx) {
	p := c.Prog
	c.Rule("R1.12", "a step advance is persisted before anything acts on it", 2)
	isWrite := apiWrites(p)
	advances := func(f *ssa.Function) []*ssa.Store {
		var out []*ssa.Store
		for _, st := range FieldStores([]*ssa.Function{f}, "", "CurrentStepIndex") {
			if bo, ok := st.Val.(*ssa.BinOp); ok && bo.Op == token.ADD {
				out = append(out, st)
			}
		}
		return out
	}
	for _, fn := range p.FuncsMatching("runCanary") {
		if fn.Signature.Recv() == nil {
			continue
		}
		n := 0
		bad := ""
		after := func(st *ssa.Store, from Point) {
			n++
			if reach, at := CanReach(from, isWrite, ReachOpts{}); reach {
				bad = "after the step index is advanced at " + p.Pos(st.Pos()) + " the same pass goes on to " + p.Pos(at.Pos()) + ", which writes to the cluster: the BatchRelease can be told to expose the next step's pods while the stored Rollout still shows the previous step (a lost status write or a crash leaves it that way)"
			}
		}
		for _, st := range advances(fn) {
			after(st, PointAfter(st))
		}
		// the advance may sit in a helper of the step machine: then neither the rest of the helper nor
		// what follows its call may write
		for _, ci := range AllCalls(fn) {
			for _, g := range p.Callees(ci) {
				if g == fn || g.Pkg != fn.Pkg || g.Blocks == nil || g.Name() == "runCanary" {
					continue
				}
				for _, st := range advances(g) {
					after(st, PointAfter(st))
					after(st, PointAfter(ci))
				}
			}
		}
		c.Ob("R1.12", FuncName(fn)+"#advance-then-return", fn.Pos(), n > 0 && bad == "", "the pass that advances the step index makes no API write afterwards", bad+ifs(n == 0, "no CurrentStepIndex++ found"))
	}
}

// ---------------------------------------------------------------- C20 R20.8

func r6C20(c *Ctx) {
	p := c.Prog
	c.Rule("R20.8", "conversion fails only for an unsupported hub type", 4)
	for _, name := range []string{"api/v1alpha1.Rollout.ConvertTo", "api/v1alpha1.Rollout.ConvertFrom", "api/v1alpha1.BatchRelease.ConvertTo", "api/v1alpha1.BatchRelease.ConvertFrom"} {
		fn := p.Func(name)
		if fn == nil {
			c.Unresolved("R20.8", name)
			continue
		}
		failedAssert := func(b *ssa.BasicBlock, k int) bool {
			if k != 1 || len(b.Instrs) == 0 {
				return false
			}
			iff, ok := b.Instrs[len(b.Instrs)-1].(*ssa.If)
			if !ok {
				return false
			}
			ex, ok := iff.Cond.(*ssa.Extract)
			if !ok || ex.Index != 1 {
				return false
			}
			_, isTA := ex.Tuple.(*ssa.TypeAssert)
			return isTA
		}
		errReturn := func(in ssa.Instruction) bool {
			ret, ok := in.(*ssa.Return)
			if !ok || len(ret.Results) != 1 || ret.Block() == fn.Recover {
				return false
			}
			for _, lf := range Leaves(Forwarded(ret.Results[0]), ret.Block()) {
				if k, isC := lf.V.(*ssa.Const); isC && k.IsNil() {
					continue
				}
				return true
			}
			return false
		}
		reach, at := CanReach(Entry(fn), errReturn, ReachOpts{CutEdge: failedAssert})
		n := 0
		for _, b := range fn.Blocks {
			for k := range b.Succs {
				if failedAssert(b, k) {
					n++
				}
			}
		}
		detail := ""
		if reach {
			detail = "the return at " + p.Pos(at.Pos()) + " can hand back an error for a hub object of the supported type: an object the schema admits (a stored value the webhook never saw) then cannot be read through this API version at all"
		}
		c.Ob("R20.8", name+"#fails-only-on-unsupported-type", fn.Pos(), n > 0 && !reach, "a non-nil error is returned only where the hub type assertion failed", detail+ifs(n == 0, "no type switch over the hub found"))
	}
}

// ---------------------------------------------------------------- C16 R16.12

func r6C16(c *Ctx) {
	p := c.Prog
	c.Rule("R16.12", "Encode hands back the marshaller's bytes unchanged", 1)
	fn := p.Func("pkg/util/luamanager.Encode")
	if fn == nil {
		c.Unresolved("R16.12", "luamanager.Encode")
		return
	}
	n := 0
	bad := ""
	for _, b := range fn.Blocks {
		if len(b.Instrs) == 0 || b == fn.Recover {
			continue
		}
		ret, ok := b.Instrs[len(b.Instrs)-1].(*ssa.Return)
		if !ok || len(ret.Results) != 2 {
			continue
		}
		for _, lf := range LeavesDeep(Forwarded(ret.Results[0]), b) {
			if k, isC := lf.V.(*ssa.Const); isC && k.IsNil() {
				continue
			}
			n++
			okLeaf := false
			v := lf.V
			if ex, isEx := v.(*ssa.Extract); isEx && ex.Index == 0 {
				v = ex.Tuple
			}
			if call, isCall := v.(*ssa.Call); isCall {
				if g := call.Call.StaticCallee(); g != nil && g.Pkg != nil && g.Pkg.Pkg.Path() == "encoding/json" && (g.Name() == "Marshal" || g.Name() == "MarshalIndent") {
					okLeaf = true
				}
			}
			if !okLeaf {
				bad = "the bytes returned at " + p.Pos(ret.Pos()) + " are " + TermOf(lf.V).String() + ", not the result of json.Marshal: rewriting marshalled text by pattern cannot tell an escape sequence from the same characters inside a string, so some value a script returns no longer decodes"
			}
		}
	}
	c.Ob("R16.12", "Encode#marshal-result-unchanged", fn.Pos(), n > 0 && bad == "", "what Encode returns is what encoding/json produced", bad+ifs(n == 0, "no returned value found"))
}

// ---------------------------------------------------------------- C06 R6.9

func r6C06(c *Ctx) {
	p := c.Prog
	c.Rule("R6.9", "no read error of the workload finder is lost", 8)
	// calls that talk to the API server, directly or through repository functions
	direct := func(ci ssa.CallInstruction) bool {
		cc := ci.Common()
		if !cc.IsInvoke() || !strings.Contains(cc.Value.Type().String(), "client.") {
			return false
		}
		switch cc.Method.Name() {
		case "Get", "List", "Patch", "Update", "Create", "Delete", "DeleteAllOf":
			return true
		}
		return false
	}
	talks := map[*ssa.Function]bool{}
	for changed := true; changed; {
		changed = false
		for _, fn := range p.RepoFuncs() {
			if talks[fn] {
				continue
			}
			for _, ci := range AllCalls(fn) {
				hit := direct(ci)
				for _, cal := range p.Callees(ci) {
					if talks[cal] {
						hit = true
					}
				}
				if hit {
					talks[fn] = true
					changed = true
					break
				}
			}
		}
	}
	checkErrorDisciplineF(c, "R6.9", func(fn *ssa.Function) bool {
		return strings.HasPrefix(FuncName(fn), "pkg/util.ControllerFinder.")
	}, func(ci ssa.CallInstruction) bool {
		if direct(ci) {
			return true
		}
		// a finder called through a function value (the per-kind finder list)
		if cc := ci.Common(); !cc.IsInvoke() && cc.StaticCallee() == nil {
			if _, isBuiltin := cc.Value.(*ssa.Builtin); !isBuiltin {
				return true
			}
		}
		for _, cal := range p.Callees(ci) {
			if talks[cal] {
				return true
			}
		}
		return false
	})
}

// ---------------------------------------------------------------- C17 R17.10

func r6C17(c *Ctx) {
	p := c.Prog
	c.Rule("R17.10", "the Deployment controller never writes through a ReplicaSet it was handed (informer cache objects)", 10)
	writes := ParamWriteThroughs(p)
	n := 0
	for _, fn := range p.RepoFuncs() {
		if !strings.HasPrefix(FuncName(fn), "pkg/controller/deployment.") || fn.Parent() != nil {
			continue
		}
		for i, par := range fn.Params {
			ts := par.Type().String()
			// (the Deployment is deep-copied once at the top of syncDeployment; the ReplicaSets are the lister's)
			if !strings.HasSuffix(ts, "k8s.io/api/apps/v1.ReplicaSet") {
				continue
			}
			n++
			why := writes[fn][i]
			// one cause, one report: a write that a callee inside this package performs is reported there
			if k := strings.LastIndex(why, " in "); k >= 0 {
				if origin := why[k+4:]; origin != FuncName(fn) && strings.HasPrefix(origin, "pkg/controller/deployment.") {
					why = ""
				}
			}
			c.Ob("R17.10", FuncName(fn)+"#param("+par.Name()+")", fn.Pos(), why == "", "the object handed in is only read; changes are made on a DeepCopy",
				ifs(why != "", why+": the object comes from the lister, so the write lands in the informer cache — if the API update then fails, the next sync computes from a size that was never stored, and nothing corrects the cache because the server object did not change"))
		}
	}
	if n == 0 {
		c.Unresolved("R17.10", "functions of pkg/controller/deployment taking a ReplicaSet / Deployment")
	}
}

// ---------------------------------------------------------------- C17 R17.11

func r6C17b(c *Ctx) {
	p := c.Prog
	c.Rule("R17.11", "cleanupUnhealthyReplicas passes over an old ReplicaSet only when it is empty or exactly as available as specified", 1)
	fn := p.Func("pkg/controller/deployment.DeploymentController.cleanupUnhealthyReplicas")
	if fn == nil {
		c.Unresolved("R17.11", "DeploymentController.cleanupUnhealthyReplicas")
		return
	}
	scale := func(in ssa.Instruction) bool {
		ci, ok := in.(ssa.CallInstruction)
		if !ok {
			return false
		}
		for _, g := range p.Callees(ci) {
			if strings.HasPrefix(g.Name(), "scaleReplicaSet") {
				return true
			}
		}
		return false
	}
	spec := MHas(MField("Spec", "Replicas"))
	allowed := FOr(FCmp("==", spec, MConst("0")), FCmp("==", spec, MHas(MField("AvailableReplicas"))))
	n := 0
	bad := ""
	for _, h := range fn.Blocks {
		// loop header of the range over the old ReplicaSets: has an induction phi and lies on a cycle
		isHeader := false
		for _, in := range h.Instrs {
			if ph, ok := in.(*ssa.Phi); ok && isInductionVar(ph) {
				isHeader = true
			}
		}
		lb := loopBlocks(h)
		if !isHeader || !lb[h] {
			continue
		}
		for _, body := range h.Succs {
			if !lb[body] {
				continue
			}
			n++
			back := func(in ssa.Instruction) bool { return in.Block() == h && in == h.Instrs[0] }
			reach, _ := CanReach(Point{Block: body}, back, ReachOpts{CutInstr: scale, CutEdge: func(b *ssa.BasicBlock, k int) bool {
				return EdgeFactMatches(b, k, allowed)
			}})
			if reach {
				bad = "the loop can move on to the next ReplicaSet without scaling this one and without having established spec.replicas == 0 or spec.replicas == status.availableReplicas: a ReplicaSet whose status still counts pods that are already being removed (status.available > spec) is passed over, and the rolling scale-down that follows counts those pods as available"
			}
		}
	}
	c.Ob("R17.11", "cleanupUnhealthyReplicas#skip-only-when-exact", fn.Pos(), n > 0 && bad == "", "an old ReplicaSet is passed over only when empty or when spec equals the available count", bad+ifs(n == 0, "loop over the old ReplicaSets not found"))
}

// ---------------------------------------------------------------- C07 R7.10

func r6C07(c *Ctx) {
	p := c.Prog
	c.Rule("R7.10", "a workload event of a recognised kind always looks up the BatchRelease to wake", 2)
	lookup := func(in ssa.Instruction) bool {
		ci, ok := in.(ssa.CallInstruction)
		if !ok {
			return false
		}
		for _, g := range p.Callees(ci) {
			if g.Name() == "getBatchRelease" {
				return true
			}
		}
		return false
	}
	unchanged := FOr(
		FCmp("==", MCall("GetResourceVersion"), MCall("GetResourceVersion")),
		FTrue(MCall("reflect.DeepEqual")),
	)
	hasTypeAssert := func(g *ssa.Function) int {
		n := 0
		for _, b := range g.Blocks {
			for _, in := range b.Instrs {
				if ta, ok := in.(*ssa.TypeAssert); ok && ta.CommaOk {
					n++
				}
			}
		}
		return n
	}
	typeAssertIf := func(b *ssa.BasicBlock) bool {
		if len(b.Instrs) == 0 {
			return false
		}
		iff, ok := b.Instrs[len(b.Instrs)-1].(*ssa.If)
		if !ok {
			return false
		}
		ex, ok := iff.Cond.(*ssa.Extract)
		if !ok {
			return false
		}
		_, isTA := ex.Tuple.(*ssa.TypeAssert)
		return isTA
	}
	for _, name := range []string{"pkg/controller/batchrelease.workloadEventHandler.Update", "pkg/controller/batchrelease.workloadEventHandler.handleWorkload"} {
		fn := p.Func(name)
		if fn == nil {
			c.Unresolved("R7.10", name)
			continue
		}
		isRet := func(in ssa.Instruction) bool { _, ok := in.(*ssa.Return); return ok && in.Block() != fn.Recover }
		// the exit for an unrecognised kind: the return reached through type-switch edges alone, or the
		// edge on which a kind classifier of the package (a function built around a type switch) said no
		unrecognised := map[ssa.Instruction]bool{}
		for _, r := range WalkCP(Entry(fn), nil, isRet, ReachOpts{CutEdge: func(b *ssa.BasicBlock, k int) bool { return !typeAssertIf(b) }}) {
			unrecognised[r.Instr] = true
		}
		kinds := hasTypeAssert(fn)
		classifierNo := func(b *ssa.BasicBlock, k int) bool {
			if len(b.Instrs) == 0 || len(b.Succs) != 2 {
				return false
			}
			iff, ok := b.Instrs[len(b.Instrs)-1].(*ssa.If)
			if !ok {
				return false
			}
			f := FactOf(iff.Cond, k == 0)
			if f.Op != "==" || f.R == nil || f.R.Name != "false" || f.L == nil || f.L.Call == nil {
				return false
			}
			g := f.L.Call.Call.StaticCallee()
			if g == nil || g.Pkg != fn.Pkg || g.Blocks == nil || hasTypeAssert(g) == 0 {
				return false
			}
			kinds += hasTypeAssert(g)
			return true
		}
		target := func(in ssa.Instruction) bool { return isRet(in) && !unrecognised[in] }
		reach, at := CanReach(Entry(fn), target, ReachOpts{CutInstr: lookup, CutEdge: func(bb *ssa.BasicBlock, k int) bool {
			return EdgeFactMatches(bb, k, unchanged) || classifierNo(bb, k)
		}})
		bad := ""
		if reach {
			bad = "the handler can return at " + p.Pos(at.Pos()) + " for a workload of a recognised kind whose generation or status changed, without having looked up the BatchRelease that refers to it: a BatchRelease parked without a requeue (workload generation not yet observed, control annotation not yet written) is then never woken"
		}
		c.Ob("R7.10", shortName(name)+"#always-looks-up", fn.Pos(), kinds > 0 && bad == "", "every changed workload of a recognised kind reaches getBatchRelease (which falls back to the workloadRef when the control annotation is absent)", bad+ifs(kinds == 0, "type switch over the workload kinds not found"))
	}
}

// ---------------------------------------------------------------- C07 R7.11

func r6C07b(c *Ctx) {
	p := c.Prog
	c.Rule("R7.11", "what a control plane writes into the BatchRelease's read copy of the status it also writes into the status that is persisted", 1)
	hasSeq := func(path []string, a, b string) bool {
		for i := 0; i+1 < len(path); i++ {
			if path[i] == a && path[i+1] == b {
				return true
			}
		}
		return false
	}
	n := 0
	for _, fn := range p.RepoFuncs() {
		if !strings.HasPrefix(FuncName(fn), "pkg/controller/batchrelease/control/") {
			continue
		}
		type st struct {
			in   *ssa.Store
			path []string
		}
		var readCopy, persisted []st
		for _, b := range fn.Blocks {
			for _, in := range b.Instrs {
				s, ok := in.(*ssa.Store)
				if !ok {
					continue
				}
				if _, isFA := s.Addr.(*ssa.FieldAddr); !isFA {
					continue
				}
				_, path := TermOf(s.Addr).FieldPath()
				if len(path) > 0 && path[0] == "*" {
					path = path[1:]
				}
				if hasSeq(path, "release", "Status") {
					readCopy = append(readCopy, st{s, path})
				}
				for _, x := range path {
					if x == "newStatus" {
						persisted = append(persisted, st{s, path})
					}
				}
			}
		}
		for _, rcp := range readCopy {
			n++
			leaf := rcp.path[len(rcp.path)-1]
			ok := false
			for _, ps := range persisted {
				if ps.path[len(ps.path)-1] != leaf || Forwarded(ps.in.Val) != Forwarded(rcp.in.Val) {
					continue
				}
				// the two stores go together: neither is reachable from the entry without the other having
				// happened or still to come on every path to a return
				isRet := func(in ssa.Instruction) bool { _, r := in.(*ssa.Return); return r }
				r1, _ := CanReach(PointAfter(rcp.in), isRet, ReachOpts{CutInstr: func(in ssa.Instruction) bool { return in == ssa.Instruction(ps.in) }})
				before, _ := CanReach(Entry(fn), func(in ssa.Instruction) bool { return in == ssa.Instruction(rcp.in) }, ReachOpts{CutInstr: func(in ssa.Instruction) bool { return in == ssa.Instruction(ps.in) }})
				if !r1 || !before {
					ok = true
				}
			}
			c.Ob("R7.11", FuncName(fn)+"#mirror("+leaf+")", rcp.in.Pos(), ok, "status."+leaf+" written to the read copy is written to newStatus as well",
				ifs(!ok, "release.Status."+strings.Join(rcp.path[2:], ".")+" is refreshed here but newStatus (the status that is persisted) is not: the value used to compute this pass's target and the value the next pass reads from the stored object differ, and a readiness check that reads the stored one can disagree with the target for ever"))
		}
	}
	if n == 0 {
		c.Unresolved("R7.11", "a store into release.Status in the control planes")
	}
}

// ---------------------------------------------------------------- C14 R14.10

func r6C14(c *Ctx) {
	p := c.Prog
	c.Rule("R14.10", "a step that routes nothing has the previous step's routing withdrawn before any sub-state acts", 2)
	routes := FOr(FNotNil(MField("Traffic")), FCmp(">", MLen(MField("Matches")), MConst("0")), FCmp("!=", MLen(MField("Matches")), MConst("0")), FCmp(">=", MLen(MField("Matches")), MConst("1")))
	cleaned := FTrue(MResult("FinalisingTrafficRouting", 0))
	inState := FCmp("==", MField("CurrentStepState"), MIsConst())
	for _, fn := range p.FuncsMatching("runCanary") {
		if fn.Signature.Recv() == nil {
			continue
		}
		if len(CallsIn(fn, "trafficrouting.Manager.FinalisingTrafficRouting")) == 0 {
			c.Ob("R14.10", FuncName(fn)+"#cleanup-before-states", fn.Pos(), false, "FinalisingTrafficRouting call of the step machine", "anchor not found")
			continue
		}
		stateCase := func(in ssa.Instruction) bool {
			b := in.Block()
			return in == b.Instrs[0] && HasFact(FactsFor(fn).At(b), inState)
		}
		reach, at := CanReach(Entry(fn), stateCase, ReachOpts{CutEdge: func(b *ssa.BasicBlock, k int) bool {
			return EdgeFactMatches(b, k, routes) || EdgeFactMatches(b, k, cleaned)
		}})
		detail := ""
		if reach {
			detail = "the sub-state code at " + p.Pos(at.Pos()) + " is reachable for a step with neither weight nor matches without FinalisingTrafficRouting having reported done: a step entered in a later sub-state (a jump between steps of equal replicas, a plan change) keeps the canary Ingress / route of the earlier traffic step while the rollout sits in a step that declares no routing"
		}
		c.Ob("R14.10", FuncName(fn)+"#cleanup-before-states", fn.Pos(), !reach, "for a step without weight and matches every sub-state is preceded by a completed FinalisingTrafficRouting", detail)
	}
}

// ---------------------------------------------------------------- C14 R14.11

func r6C14b(c *Ctx) {
	p := c.Prog
	c.Rule("R14.11", "every path of the stable Ingress that points at the stable Service is copied into the canary Ingress", 1)
	fn := p.Func("pkg/trafficrouting/network/ingress.ingressController.buildCanaryIngress")
	if fn == nil {
		c.Unresolved("R14.11", "ingressController.buildCanaryIngress")
		return
	}
	n := 0
	bad := ""
	var pathAppends []ssa.CallInstruction
	for _, g := range samePkgClosure(p, fn) { // the path loop may be a helper of the builder
		for _, ci := range AllCalls(g) {
			bi, ok := ci.Common().Value.(*ssa.Builtin)
			if ok && bi.Name() == "append" && len(ci.Common().Args) >= 2 && strings.HasSuffix(ci.Value().Type().String(), "HTTPIngressPath") {
				pathAppends = append(pathAppends, ci)
			}
		}
	}
	for _, ci := range pathAppends {
		fn := ci.Parent()
		n++
		for _, f := range FactsFor(fn).At(ci.Block()) {
			if isLoopExitFact(f) || f.If == nil || f.If.Parent() != fn {
				continue // not a branch of this function (inherited from the caller, implied by a helper)
			}
			about := func(t *Term) bool {
				return t != nil && (t.Any(func(x *Term) bool { return x.Op == "field" && (x.Name == "Service" || x.Name == "HTTP") }))
			}
			isLen := func(t *Term) bool { return t != nil && t.Op == "len" }
			if about(f.L) || about(f.R) || isLen(f.L) || isLen(f.R) {
				continue // about the backend, or the counted loop's own test
			}
			bad = "the copy at " + p.Pos(ci.Pos()) + " is made only under " + f.String() + ", a condition that says nothing about the path's backend: a path of the stable Service that fails it is left out of the canary Ingress (or the rule is written with no paths at all, which the API server rejects)"
		}
	}
	c.Ob("R14.11", "buildCanaryIngress#every-stable-path-copied", fn.Pos(), n > 0 && bad == "", "the canary path is appended under conditions on the path's backend only", bad+ifs(n == 0, "append to the canary rule's paths not found"))
}

// ---------------------------------------------------------------- C11 R11.12

func r6C11(c *Ctx) {
	p := c.Prog
	c.Rule("R11.12", "the observed pod counts of a BatchContext are observations (status), not intentions (spec)", 10)
	var fns []*ssa.Function
	for _, fn := range p.RepoFuncs() {
		if fn.Name() == "CalculateBatchContext" && strings.HasPrefix(FuncName(fn), "pkg/controller/batchrelease/control/") {
			fns = append(fns, fn)
		}
	}
	for _, field := range []string{"UpdatedReplicas", "UpdatedReadyReplicas"} {
		for _, st := range FieldStores(fns, "context.BatchContext", field) {
			fromSpec := SliceHas(st.Val, func(t *Term) bool {
				if t.Op != "field" {
					return false
				}
				_, path := t.FieldPath()
				for _, x := range path {
					if x == "Spec" {
						return true
					}
				}
				return false
			})
			c.Ob("R11.12", FuncName(st.Parent())+"#"+field, st.Pos(), !fromSpec, "BatchContext."+field+" is read from the workload's status (or counted from pods)",
				ifs(fromSpec, "the value derives from the workload's spec ("+TermOf(st.Val).String()+"): the controller itself sets that field to the batch target, so 'enough updated pods' holds by construction and the batch is reported Ready although the pods may not exist"))
		}
	}
}

// ---------------------------------------------------------------- C11 R11.13 (= C17 R17.12)

func r6C11b(c *Ctx) {
	c.Rule("R11.13", "the fencepost arithmetic behind DeploymentMaxUnavailable rounds maxSurge up and maxUnavailable down", 2)
	fencepostRounding(c, "R11.13", "pkg/util.resolveFenceposts")
}

func r6C17c(c *Ctx) {
	c.Rule("R17.12", "the Deployment controller's fencepost arithmetic rounds maxSurge up and maxUnavailable down", 2)
	fencepostRounding(c, "R17.12", "pkg/controller/deployment/util.ResolveFenceposts")
}

func fencepostRounding(c *Ctx, rule string, names ...string) {
	p := c.Prog
	for _, name := range names {
		fn := p.Func(name)
		if fn == nil || len(fn.Params) < 2 {
			c.Unresolved(rule, name)
			continue
		}
		found := map[int]bool{}
		for _, ci := range AllCalls(fn) {
			if !strings.HasSuffix(CalleeName(ci.Common()), "GetScaledValueFromIntOrPercent") || len(ci.Common().Args) != 3 {
				continue
			}
			for pi, want := range map[int]string{0: "true", 1: "false"} {
				if !BackwardSlice(ci.Common().Args[0])[fn.Params[pi]] {
					continue
				}
				found[pi] = true
				k, isC := ci.Common().Args[2].(*ssa.Const)
				ok := isC && constText(k) == want
				c.Ob(rule, shortName(name)+"#round("+fn.Params[pi].Name()+")", ci.Pos(), ok, map[int]string{0: "a percentage maxSurge is rounded up", 1: "a percentage maxUnavailable is rounded down"}[pi],
					ifs(!ok, map[int]string{0: "maxSurge is not rounded up: a small Deployment with a percentage surge gets no surge at all and, with maxUnavailable 0, cannot progress", 1: "maxUnavailable is not rounded down: the tolerance used by the 'all pods updated and ready' gates is one pod larger than what the Deployment allows, so Completed is reported (and the rolling update proceeds) with more pods unavailable than permitted"}[pi]))
			}
		}
		for pi := 0; pi < 2; pi++ {
			if !found[pi] {
				c.Ob(rule, shortName(name)+"#round("+fn.Params[pi].Name()+")", fn.Pos(), false, "scaling of the bound", "anchor not found")
			}
		}
	}
}

// ---------------------------------------------------------------- C18 R18.11 (= C05 R5.15)

func r6C18(c *Ctx) {
	p := c.Prog
	c.Rule("R18.11", "RestoreStableService answers 'nothing to restore' without looking at the Service only when there is no Service", 1)
	fn := p.Func("pkg/trafficrouting.Manager.RestoreStableService")
	if fn == nil {
		c.Unresolved("R18.11", "trafficrouting.Manager.RestoreStableService")
		return
	}
	isWrite := apiWrites(p)
	isRestore := func(in ssa.Instruction) bool {
		if isWrite(in) {
			return true
		}
		if ci, ok := in.(ssa.CallInstruction); ok && strings.Contains(CalleeName(ci.Common()), "grace.RunWithGraceSeconds") {
			return true
		}
		return false
	}
	nothing := FOr(
		FCmp("==", MLen(MField("ObjectRef")), MConst("0")),
		FTrue(MCall("errors.IsNotFound")),
	)
	n := 0
	seen := map[*ssa.Return]bool{}
	for _, r := range WalkCP(Entry(fn), nil, IsReturn, ReachOpts{CutInstr: isRestore, CutEdge: func(b *ssa.BasicBlock, k int) bool {
		return EdgeFactMatches(b, k, nothing)
	}}) {
		ret := r.Instr.(*ssa.Return)
		if ret.Block() == fn.Recover || len(ret.Results) < 2 || seen[ret] {
			continue
		}
		if v, ok := ResolveConst(ret.Results[1], r.Env); !ok || v != "nil" {
			continue
		}
		if v, ok := ResolveConst(ret.Results[0], r.Env); ok && v == "true" {
			continue
		}
		seen[ret] = true
		n++
		c.Ob("R18.11", "RestoreStableService#done-without-looking", ret.Pos(), false, "done answered before the restore step",
			"this return answers (done, no error) although the stable Service's selector was neither examined nor restored and the Service may exist: a flag of the CURRENT spec is no evidence that the selector was never pinned (the spec is not frozen during a release), so the teardown can drop the finalizer with the Service still selecting only the old revision").WithFacts(FactsAtInstr(ret))
	}
	if n == 0 {
		c.Ob("R18.11", "RestoreStableService#done-without-looking", fn.Pos(), true, "every done answer before the restore step is for 'no traffic routing configured' or 'Service not found'", "")
	}
}

// ---------------------------------------------------------------- C19 R19.10

func r6C19(c *Ctx) {
	p := c.Prog
	c.Rule("R19.10", "the per-Rollout finalizer on a shared TrafficRouting contains the Rollout's whole name", 1)
	fn := p.Func("pkg/util.ProgressingRolloutFinalizer")
	if fn == nil || len(fn.Params) != 1 {
		c.Unresolved("R19.10", "util.ProgressingRolloutFinalizer(name)")
		return
	}
	name := fn.Params[0]
	n := 0
	bad := ""
	// every value derived from the parameter that is formatted / concatenated into the result is the
	// parameter itself
	check := func(v ssa.Value, at *ssa.BasicBlock, pos token.Pos) {
		if !BackwardSlice(v)[name] {
			return
		}
		n++
		for _, lf := range Leaves(Forwarded(v), at) {
			x := lf.V
			if mi, ok := x.(*ssa.MakeInterface); ok {
				x = Forwarded(mi.X)
				for _, lf2 := range Leaves(x, at) {
					if lf2.V != ssa.Value(name) {
						bad = "the name is shortened or rewritten before it goes into the finalizer (" + TermOf(lf2.V).String() + ", " + p.Pos(pos) + ")"
					}
				}
				continue
			}
			if x != ssa.Value(name) {
				bad = "the name is shortened or rewritten before it goes into the finalizer (" + TermOf(x).String() + ", " + p.Pos(pos) + ")"
			}
		}
	}
	for _, b := range fn.Blocks {
		for _, in := range b.Instrs {
			switch x := in.(type) {
			case *ssa.Store:
				if ia, ok := x.Addr.(*ssa.IndexAddr); ok { // element of the variadic argument list
					if _, isAlloc := ia.X.(*ssa.Alloc); isAlloc {
						check(x.Val, b, x.Pos())
					}
				}
			case *ssa.BinOp:
				if x.Op == token.ADD {
					check(x.X, b, x.Pos())
					check(x.Y, b, x.Pos())
				}
			}
		}
	}
	c.Ob("R19.10", "ProgressingRolloutFinalizer#whole-name", fn.Pos(), n > 0 && bad == "", "the finalizer is the prefix plus the unmodified Rollout name, so two Rollouts never share one",
		ifs(bad != "", bad+": two Rollouts whose names differ only in the part that is dropped share one finalizer on a TrafficRouting they both use — when the first finishes it removes the finalizer and the routes are restored under the second")+ifs(n == 0, "the name does not reach the result"))
}

// ---------------------------------------------------------------- C12 R12.10, R12.11

func r6C12(c *Ctx) {
	p := c.Prog
	c.Rule("R12.10", "a pod counts as live only when its phase is neither Failed nor Succeeded", 1)
	if fn := p.Func("pkg/util.IsCompletedPod"); fn == nil {
		c.Unresolved("R12.10", "util.IsCompletedPod")
	} else {
		notPhase := func(ph string) FactM { return FCmp("!=", MField("Phase"), MConst(ph)) }
		bad := ""
		n := 0
		for _, b := range fn.Blocks {
			if len(b.Instrs) == 0 || b == fn.Recover {
				continue
			}
			ret, ok := b.Instrs[len(b.Instrs)-1].(*ssa.Return)
			if !ok || len(ret.Results) != 1 {
				continue
			}
			for _, lf := range BoolLeaves(ret.Results[0], b) {
				n++
				fs := append(append([]Fact{}, lf.Facts...), FactsFor(fn).At(b)...)
				if k, isC := lf.V.(*ssa.Const); isC {
					if constText(k) == "true" {
						continue
					}
				} else {
					fs = append(fs, FactOf(lf.V, false))
				}
				if !HasFact(fs, notPhase("Failed")) || !HasFact(fs, notPhase("Succeeded")) {
					bad = "the return at " + p.Pos(ret.Pos()) + " can answer 'not completed' for a pod whose phase is Failed or Succeeded (" + TermOf(lf.V).String() + ")"
				}
			}
		}
		c.Ob("R12.10", "IsCompletedPod#not-completed-only-when", fn.Pos(), n > 0 && bad == "", "false only when phase != Failed and phase != Succeeded",
			ifs(bad != "", bad+": an evicted pod (Failed, not yet deleted) stays in the set the patcher labels from, takes a slot of the batch, and its live replacement is never labelled"))
	}

	c.Rule("R12.11", "a listed pod is kept only on an ownership verdict computed for that pod", 1)
	if fn := p.Func("pkg/util.ListOwnedPods"); fn == nil {
		c.Unresolved("R12.11", "util.ListOwnedPods")
	} else {
		n := 0
		bad := ""
		type site struct {
			ci ssa.CallInstruction
			in *ssa.Function
		}
		var sites []site
		for _, g := range samePkgClosure(p, fn) { // the filtering loop may live in a helper
			if g != fn && len(CallsIn(g, "util.IsOwnedBy")) == 0 {
				continue
			}
			for _, ci := range AllCalls(g) {
				sites = append(sites, site{ci, g})
			}
		}
		for _, st := range sites {
			ci := st.ci
			bi, ok := ci.Common().Value.(*ssa.Builtin)
			if !ok || bi.Name() != "append" || len(ci.Common().Args) < 2 {
				continue
			}
			if !strings.Contains(ci.Common().Args[0].Type().String(), "Pod") {
				continue
			}
			n++
			okv := false
			for _, f := range FactsFor(st.in).At(ci.Block()) {
				if !FTrue(MResult("IsOwnedBy", 0))(f) {
					continue
				}
				okv = true
			}
			if !okv {
				bad = "the pod appended at " + p.Pos(ci.Pos()) + " is not kept under `IsOwnedBy(c, pod, workload) == true` for this very pod (a verdict carried over from another pod or a cache entry decides instead): a pod the workload does not own enters the batch context, can be labelled, and takes the slot of a real pod"
			}
		}
		c.Ob("R12.11", "ListOwnedPods#kept-on-own-verdict", fn.Pos(), n > 0 && bad == "", "every kept pod passed IsOwnedBy itself", bad+ifs(n == 0, "append to the result not found"))
	}
}

// ---------------------------------------------------------------- C08 R8.12 (round 7)

func r7C08(c *Ctx) {
	p := c.Prog
	c.Rule("R8.12", "two pod templates are reported equal only by comparing them", 1)
	fn := p.Func("pkg/util.EqualIgnoreHash")
	if fn == nil {
		c.Unresolved("R8.12", "util.EqualIgnoreHash")
		return
	}
	n := 0
	bad := ""
	for _, b := range fn.Blocks {
		if len(b.Instrs) == 0 || b == fn.Recover {
			continue
		}
		ret, ok := b.Instrs[len(b.Instrs)-1].(*ssa.Return)
		if !ok || len(ret.Results) != 1 {
			continue
		}
		for _, lf := range BoolLeaves(ret.Results[0], b) {
			// (BoolLeaves splits a non-constant result into its two outcomes, each with the fact that the
			// expression had that outcome)
			k, isC := lf.V.(*ssa.Const)
			if isC && constText(k) != "true" {
				continue
			}
			n++
			fs := append(append([]Fact{}, lf.Facts...), FactsFor(fn).At(b)...)
			if !isC {
				fs = append(fs, FactOf(lf.V, true))
			}
			compared := HasFact(fs, func(f Fact) bool {
				return f.Op == "==" && f.R != nil && f.R.Name == "true" && f.L != nil && f.L.Op == "call" && (strings.Contains(f.L.Name, "DeepEqual") || strings.Contains(f.L.Name, "DeepDerivative"))
			})
			if !compared {
				bad = "the return at " + p.Pos(ret.Pos()) + " answers 'equal' without a deep comparison of the two templates having said so"
			}
		}
	}
	c.Ob("R8.12", "EqualIgnoreHash#equal-means-compared", fn.Pos(), n > 0 && bad == "", "true is the outcome of a deep comparison (hash label removed)",
		ifs(bad != "", bad+": a pod-template-hash label is user text in the webhook's view — two different templates carrying the same value are taken for one revision and the release change is admitted unheld")+ifs(n == 0, "no result found"))
}

// ---------------------------------------------------------------- C09 R9.9 (round 7)

func r7C09(c *Ctx) {
	p := c.Prog
	c.Rule("R9.9", "no write into an annotations map that may be nil", 10)
	isAnnoField := func(v ssa.Value) (*ssa.FieldAddr, bool) {
		u, ok := v.(*ssa.UnOp)
		if !ok || u.Op != token.MUL {
			return nil, false
		}
		fa, ok := u.X.(*ssa.FieldAddr)
		if !ok {
			return nil, false
		}
		n, _ := FieldOf(fa)
		return fa, n == "Annotations"
	}
	for _, fn := range p.RepoFuncs() {
		name := FuncName(fn)
		if !(strings.HasPrefix(name, "pkg/controller/") || strings.HasPrefix(name, "pkg/webhook/workload/") || strings.HasPrefix(name, "api/v1alpha1.")) {
			continue
		}
		for _, b := range fn.Blocks {
			for _, in := range b.Instrs {
				mu, ok := in.(*ssa.MapUpdate)
				if !ok {
					continue
				}
				if _, isAnno := isAnnoField(mu.Map); !isAnno {
					continue
				}
				// protected: every path to the write has tested THIS map non-nil (or read a non-empty value
				// out of it), or has stored a fresh map into this very field
				mapTerm := TermOf(mu.Map).String()
				same := func(t *Term) bool { return t != nil && t.String() == mapTerm }
				fresh := func(x ssa.Instruction) bool {
					st, ok := x.(*ssa.Store)
					if !ok {
						return false
					}
					fa, ok := st.Addr.(*ssa.FieldAddr)
					if !ok {
						return false
					}
					if n, _ := FieldOf(fa); n != "Annotations" {
						return false
					}
					if _, isMake := Forwarded(st.Val).(*ssa.MakeMap); !isMake {
						return false
					}
					if TermOf(fa).String() == mapTerm || strings.TrimPrefix(TermOf(fa).String(), "&") == mapTerm {
						return true
					}
					return false
				}
				// … or a fresh struct literal that carries a fresh map is stored at a prefix of the path
				literalWithMap := map[ssa.Value]bool{}
				for _, b2 := range fn.Blocks {
					for _, in2 := range b2.Instrs {
						st, ok := in2.(*ssa.Store)
						if !ok {
							continue
						}
						fa, ok := st.Addr.(*ssa.FieldAddr)
						if !ok {
							continue
						}
						if n, _ := FieldOf(fa); n != "Annotations" {
							continue
						}
						if _, isMake := Forwarded(st.Val).(*ssa.MakeMap); !isMake {
							continue
						}
						if al, isAlloc := fa.X.(*ssa.Alloc); isAlloc {
							literalWithMap[al] = true
						}
					}
				}
				fresh0 := fresh
				fresh = func(x ssa.Instruction) bool {
					if fresh0(x) {
						return true
					}
					st, ok := x.(*ssa.Store)
					if !ok || !literalWithMap[st.Val] {
						return false
					}
					at := strings.TrimPrefix(TermOf(st.Addr).String(), "&")
					return strings.HasPrefix(mapTerm, at+".")
				}
				lookupOf := func(m M) M {
					return func(t *Term) bool { return t.Op == "lookup" && len(t.Args) == 2 && m(t.Args[0]) }
				}
				existsFor := func(m M) FactM {
					return FOr(FNotNil(m), FCmp("!=", MLen(m), MConst("0")), FCmp(">", MLen(m), MConst("0")),
						FCmp("!=", lookupOf(m), MConst("")), FCmp(">", MLen(lookupOf(m)), MConst("0")), FCmp("!=", MLen(lookupOf(m)), MConst("0")))
				}
				exists := existsFor(same)
				reach, _ := CanReach(Entry(fn), func(x ssa.Instruction) bool { return x == in }, ReachOpts{CutInstr: fresh, CutEdge: func(bb *ssa.BasicBlock, k int) bool {
					return EdgeFactMatches(bb, k, exists)
				}})
				anyAnno := func(t *Term) bool {
					return t != nil && (MField("Annotations")(t) || t.Any(MField("Annotations")) || t.Any(MCall("GetAnnotations")))
				}
				if reach && HasFact(FactsFor(fn).At(fn.Blocks[0]), existsFor(anyAnno)) {
					reach = false // established by every caller (the callers speak of their own object)
				}
				c.Ob("R9.9", name+"#write("+TermOf(mu.Map).String()+")", mu.Pos(), !reach, "the annotations map is known to exist where it is written",
					ifs(reach, "the write is reachable without a nil test of the map or a fresh map having been stored: an object whose annotations are absent (legal for every API object) makes this a write into a nil map — a panic in the worker, on every retry"))
			}
		}
	}
}

// ---------------------------------------------------------------- C07 R7.12, R7.13 (round 7)

func r7C07(c *Ctx) {
	p := c.Prog
	c.Rule("R7.12", "a new partition-style Deployment release starts from an un-paused strategy", 1)
	if fn := p.Func("pkg/controller/batchrelease/control/partitionstyle/deployment.realController.Initialize"); fn == nil {
		c.Unresolved("R7.12", "partitionstyle/deployment.realController.Initialize")
	} else {
		n := 0
		bad := ""
		for _, ci := range AllCalls(fn) {
			if cn := CalleeName(ci.Common()); !(strings.HasSuffix(cn, "json.Marshal") || strings.HasSuffix(cn, "util.DumpJSON")) || len(ci.Common().Args) != 1 {
				continue
			}
			arg := ci.Common().Args[0]
			if mi, ok := arg.(*ssa.MakeInterface); ok {
				arg = mi.X
			}
			al, ok := arg.(*ssa.Alloc)
			if !ok || !strings.HasSuffix(al.Type().String(), "DeploymentStrategy") {
				continue
			}
			n++
			isMarshal := func(in ssa.Instruction) bool { return in == ci.(ssa.Instruction) }
			cleared := func(in ssa.Instruction) bool {
				st, ok := in.(*ssa.Store)
				if !ok {
					return false
				}
				if st.Addr == ssa.Value(al) { // the whole strategy replaced by something that is not the stored one
					if call, isCall := Forwarded(st.Val).(*ssa.Call); isCall && strings.Contains(CalleeName(&call.Call), "GetDeploymentStrategy") {
						return false
					}
					return true
				}
				if fa, ok := st.Addr.(*ssa.FieldAddr); ok && fa.X == ssa.Value(al) {
					if nm, _ := FieldOf(fa); nm == "Paused" {
						if k, isC := st.Val.(*ssa.Const); isC && constText(k) == "false" {
							return true
						}
					}
				}
				return false
			}
			for _, st := range AllocStoresOf(al) {
				if st.Addr != ssa.Value(al) {
					continue
				}
				call, isCall := Forwarded(st.Val).(*ssa.Call)
				if !isCall || !strings.Contains(CalleeName(&call.Call), "GetDeploymentStrategy") {
					continue
				}
				if reach, _ := CanReach(PointAfter(st), isMarshal, ReachOpts{CutInstr: cleared}); reach {
					bad = "the strategy read from the Deployment's annotation at " + p.Pos(st.Pos()) + " reaches the annotation written at " + p.Pos(ci.Pos()) + " without `paused` having been reset: the webhook sets strategy.paused=true when a release in progress receives another revision, and nothing but this Initialize clears it — the new release never rolls a pod"
				}
			}
		}
		c.Ob("R7.12", "partitionstyle/deployment.Initialize#strategy-unpaused", fn.Pos(), n > 0 && bad == "", "the strategy written by Initialize is a fresh one, or has paused set to false", bad+ifs(n == 0, "strategy annotation write not found"))
	}

	c.Rule("R7.13", "the workload size remembered for scaling detection is the size scaling is detected on", 3)
	var fns []*ssa.Function
	for _, fn := range p.RepoFuncs() {
		if strings.HasPrefix(FuncName(fn), "pkg/controller/batchrelease") {
			fns = append(fns, fn)
		}
	}
	for _, st := range FieldStores(fns, "", "ObservedWorkloadReplicas") {
		t := TermOf(st.Val)
		if t.Op == "const" {
			continue // a reset
		}
		_, path := t.FieldPath()
		ok := t.Op == "field" && len(path) > 0 && path[len(path)-1] == "Replicas"
		for _, x := range path {
			if x == "Status" || x == "Spec" {
				ok = false
			}
		}
		c.Ob("R7.13", FuncName(st.Parent())+"#observed-replicas", st.Pos(), ok, "ObservedWorkloadReplicas = WorkloadInfo.Replicas (the field IsScaling compares with)",
			ifs(!ok, "stored from "+t.String()+": IsScaling compares the remembered value with WorkloadInfo.Replicas, so a value taken from anywhere else (the canary-style control plane's synthetic info has Status.Replicas == 0) makes every reconcile look like a scaling event and the batch restarts for ever"))
	}
}

// ---------------------------------------------------------------- C05 R5.16 (round 7)

func r7C05(c *Ctx) {
	p := c.Prog
	c.Rule("R5.16", "every workload finder names the pods' revision label on every Workload it hands out", 5)
	for _, fn := range p.RepoFuncs() {
		if !strings.HasPrefix(FuncName(fn), "pkg/util.ControllerFinder.get") || fn.Signature.Results().Len() != 2 {
			continue
		}
		if !strings.HasSuffix(fn.Signature.Results().At(0).Type().String(), "pkg/util.Workload") {
			continue
		}
		// the Workload built for an existing, consistent object: the literal that receives the object's metadata
		for _, b := range fn.Blocks {
			for _, in := range b.Instrs {
				al, ok := in.(*ssa.Alloc)
				if !ok || !strings.HasSuffix(al.Type().String(), "pkg/util.Workload") {
					continue
				}
				full, keyed := false, []ssa.Instruction{}
				for _, st := range AllocStoresOf(al) {
					if fa, ok := st.Addr.(*ssa.FieldAddr); ok && fa.X == ssa.Value(al) {
						switch nm, _ := FieldOf(fa); nm {
						case "ObjectMeta":
							full = true
						case "RevisionLabelKey":
							keyed = append(keyed, st)
						}
					}
				}
				if !full {
					continue
				}
				isKey := func(x ssa.Instruction) bool {
					for _, k := range keyed {
						if k == x {
							return true
						}
					}
					return false
				}
				retOfThis := func(x ssa.Instruction) bool {
					ret, ok := x.(*ssa.Return)
					if !ok || len(ret.Results) != 2 {
						return false
					}
					for _, lf := range Leaves(Forwarded(ret.Results[0]), ret.Block()) {
						if lf.V == ssa.Value(al) {
							return true
						}
					}
					return false
				}
				reach, at := CanReach(PointAfter(al), retOfThis, ReachOpts{CutInstr: isKey})
				c.Ob("R5.16", FuncName(fn)+"#revision-label-key", al.Pos(), !reach, "RevisionLabelKey is set on every path that returns this Workload",
					ifs(reach, "the Workload can be returned at "+p.Pos(posOf(at))+" without RevisionLabelKey: once the in-progress marker is gone (the first finalising pass removes it) RestoreStableService finds no key to look for in the Service selector, reports nothing to do, and the stable Service stays pinned to one revision after the rollout has ended"))
			}
		}
	}
}

func posOf(in ssa.Instruction) token.Pos {
	if in == nil {
		return token.NoPos
	}
	return in.Pos()
}

// ---------------------------------------------------------------- C03 R3.13 (round 7)

func r7C03(c *Ctx) {
	p := c.Prog
	c.Rule("R3.13", "the plan hash is computed over the steps of the plan", 2)
	fn := p.Func("pkg/controller/rollout.RolloutReconciler.calculateRolloutHash")
	if fn == nil {
		c.Unresolved("R3.13", "RolloutReconciler.calculateRolloutHash")
		return
	}
	for _, ci := range AllCalls(fn) {
		bi, ok := ci.Common().Value.(*ssa.Builtin)
		if !ok || bi.Name() != "append" || len(ci.Common().Args) < 2 {
			continue
		}
		dst := TermOf(ci.Common().Args[0])
		if !(MField("Steps")(dst) || dst.Any(MField("Steps"))) {
			continue
		}
		// where the appended steps are read from
		bad := ""
		n := 0
		for x := range BackwardSlice(ci.Common().Args[1]) {
			ia, ok := x.(*ssa.IndexAddr)
			if !ok {
				continue
			}
			ld, ok := ia.X.(*ssa.UnOp)
			if !ok {
				continue
			}
			fa, ok := ld.X.(*ssa.FieldAddr)
			if !ok {
				continue
			}
			if nm, _ := FieldOf(fa); nm != "Steps" {
				continue
			}
			n++
			src := TermOf(fa).String()
			for _, b := range fn.Blocks {
				for _, in := range b.Instrs {
					st, ok := in.(*ssa.Store)
					if !ok {
						continue
					}
					k, isC := st.Val.(*ssa.Const)
					if !isC || !k.IsNil() || TermOf(st.Addr).String() != src {
						continue
					}
					refilled := func(y ssa.Instruction) bool {
						s2, ok := y.(*ssa.Store)
						return ok && s2 != st && TermOf(s2.Addr).String() == src
					}
					if r, _ := CanReach(PointAfter(st), func(y ssa.Instruction) bool { return y == ssa.Instruction(ld) }, ReachOpts{CutInstr: refilled}); r {
						bad = "the steps are read from " + strings.TrimPrefix(src, "&") + ", which was set to nil at " + p.Pos(st.Pos()) + " and not filled since: the loop never runs and the hash does not depend on the steps"
					}
				}
			}
		}
		c.Ob("R3.13", "calculateRolloutHash#steps-hashed("+strings.TrimPrefix(dst.String(), "&")+")", ci.Pos(), n > 0 && bad == "", "the steps copied into the hashed value come from a list that still holds them",
			ifs(bad != "", bad+": editing the traffic or matches of the step a rollout is paused on is then not noticed, and the step keeps being reported as routed with the old value on the gateway")+ifs(n == 0, "source of the appended steps not recognised"))
	}
}

// ---------------------------------------------------------------- C01 R1.13, R1.14 (round 7)

func r7C01(c *Ctx) {
	p := c.Prog
	c.Rule("R1.13", "the advanced-Deployment strategy's paused flag is cleared only when a release is initialised", 2)
	upg := p.Func("pkg/controller/batchrelease/control/partitionstyle/deployment.realController.UpgradeBatch")
	if upg == nil {
		c.Unresolved("R1.13", "partitionstyle/deployment.realController.UpgradeBatch")
	}
	fromUpgrade := map[*ssa.Function]bool{}
	if upg != nil {
		fromUpgrade = p.ReachableFrom(upg)
		fromUpgrade[upg] = true
	}
	for _, st := range FieldStores(p.RepoFuncs(), "DeploymentStrategy", "Paused") {
		if !strings.Contains(st.Addr.Type().String(), "bool") {
			continue
		}
		fn := st.Parent()
		name := FuncName(fn)
		v, isC := StoredConst(st)
		ok := true
		why := ""
		switch {
		case strings.HasPrefix(name, "pkg/webhook/workload/mutating."):
			// the webhook is the one that holds a release back
			if isC && v == "false" {
				ok, why = false, "the admission webhook un-pauses the strategy"
			}
		case fromUpgrade[fn]:
			ok, why = false, "the batch step writes the paused flag: strategy.paused=true is the hold the webhook places on a revision published mid-release; clearing it together with a partition raise releases that revision at the old step's partition"
		case isC && v == "true":
			ok, why = false, "a controller pauses the strategy outside the webhook"
		}
		c.Ob("R1.13", name+"#strategy.paused="+ifs(isC, v)+ifs(!isC, "?"), st.Pos(), ok, "paused is set by the webhook and cleared by Initialize only", why)
	}

	c.Rule("R1.14", "the non-decreasing check of the step validator compares scaled values", 1)
	vf := p.Func("pkg/webhook/rollout/validating.validateRolloutSpecCanarySteps")
	if vf == nil {
		c.Unresolved("R1.14", "validating.validateRolloutSpecCanarySteps")
		return
	}
	// the comparison whose true edge rejects with the field named CanaryReplicas: both operands are
	// results of GetScaledValueFromIntOrPercent (a percentage string has IntValue() == 0)
	n := 0
	bad := ""
	var vblocks []*ssa.BasicBlock
	for _, g := range samePkgClosure(p, vf) { // the check may live in a helper of the validator
		if g == vf || strings.HasPrefix(g.Name(), "validate") {
			vblocks = append(vblocks, g.Blocks...)
		}
	}
	for _, b := range vblocks {
		if len(b.Instrs) == 0 {
			continue
		}
		iff, ok := b.Instrs[len(b.Instrs)-1].(*ssa.If)
		if !ok {
			continue
		}
		bo, ok := iff.Cond.(*ssa.BinOp)
		if !ok || (bo.Op != token.LSS && bo.Op != token.GTR) {
			continue
		}
		l, r := TermOf(bo.X), TermOf(bo.Y)
		rep := func(t *Term) bool { return t.Any(MField("Replicas")) }
		if !rep(l) || !rep(r) {
			continue
		}
		n++
		scaled := func(t *Term) bool {
			return (t.Op == "extract" || t.Op == "call") && strings.Contains(t.Name, "GetScaledValueFromIntOrPercent")
		}
		if !scaled(l) || !scaled(r) {
			bad = "the comparison at " + p.Pos(iff.Pos()) + " is between " + l.String() + " and " + r.String() + ", not between scaled values: for percentages the raw integer value is 0, so a decreasing percentage plan is admitted — the controllers never move the knob back, and the pods of the larger earlier step stay on the new revision while a smaller step is current"
		}
	}
	c.Ob("R1.14", "validateRolloutSpecCanarySteps#non-decreasing-scaled", vf.Pos(), n > 0 && bad == "", "consecutive steps are compared by GetScaledValueFromIntOrPercent of their replicas", bad+ifs(n == 0, "comparison of consecutive steps' replicas not found"))
}

// ---------------------------------------------------------------- C10 R10.13 (round 7)

func r7C10(c *Ctx) {
	p := c.Prog
	c.Rule("R10.13", "a Deployment reported as in progress has been tested for rollback", 2)
	for _, name := range []string{"pkg/util.ControllerFinder.getDeployment", "pkg/util.ControllerFinder.getAdvancedDeployment"} {
		fn := p.Func(name)
		if fn == nil {
			c.Unresolved("R10.13", name)
			continue
		}
		// the rollback test: the branch that decides whether IsInRollback is set
		testIfs := map[ssa.Instruction]bool{}
		for _, st := range FieldStores([]*ssa.Function{fn}, "Workload", "IsInRollback") {
			if v, ok := StoredConst(st); !ok || v != "true" {
				continue
			}
			b := st.Block()
			for i := 0; i < 4 && len(b.Preds) == 1; i++ {
				pb := b.Preds[0]
				if len(pb.Succs) == 2 {
					testIfs[pb.Instrs[len(pb.Instrs)-1]] = true
					// a && b: the earlier operands branch to the same join
					join := pb.Succs[0]
					if join == b {
						join = pb.Succs[1]
					}
					for t := pb; len(t.Preds) == 1; {
						q := t.Preds[0]
						if len(q.Succs) != 2 || (q.Succs[0] != join && q.Succs[1] != join) {
							break
						}
						testIfs[q.Instrs[len(q.Instrs)-1]] = true
						t = q
					}
					break
				}
				b = pb
			}
		}
		// a separate early test of one of the deciding comparison's operands (`if stable == "" { return }`
		// before `if hash == stable`) is part of the same decision
		operands := map[string]bool{}
		for in := range testIfs {
			if bo, ok := in.(*ssa.If).Cond.(*ssa.BinOp); ok {
				for _, v := range []ssa.Value{bo.X, bo.Y} {
					if t := TermOf(v); t.Op != "const" {
						operands[t.String()] = true
					}
				}
			}
		}
		for _, b := range fn.Blocks {
			if len(b.Instrs) == 0 {
				continue
			}
			iff, ok := b.Instrs[len(b.Instrs)-1].(*ssa.If)
			if !ok {
				continue
			}
			if bo, ok := iff.Cond.(*ssa.BinOp); ok {
				for _, v := range []ssa.Value{bo.X, bo.Y} {
					if operands[TermOf(v).String()] {
						testIfs[iff] = true
					}
				}
			}
		}
		tested := func(in ssa.Instruction) bool { return testIfs[in] }
		if len(testIfs) == 0 {
			c.Ob("R10.13", shortName(name)+"#rollback-tested", fn.Pos(), false, "the branch that sets IsInRollback", "anchor not found")
			continue
		}
		var marks []*ssa.Store
		for _, st := range FieldStores([]*ssa.Function{fn}, "Workload", "InRolloutProgressing") {
			if v, ok := StoredConst(st); ok && v == "true" {
				marks = append(marks, st)
			}
		}
		if len(marks) == 0 {
			c.Ob("R10.13", shortName(name)+"#rollback-tested", fn.Pos(), false, "InRolloutProgressing = true", "anchor not found")
			continue
		}
		okRet := func(in ssa.Instruction) bool {
			ret, ok := in.(*ssa.Return)
			if !ok || len(ret.Results) != 2 || ret.Block() == fn.Recover {
				return false
			}
			// a return that may carry a nil error
			for _, lf := range Leaves(Forwarded(ret.Results[1]), ret.Block()) {
				if k, isC := lf.V.(*ssa.Const); isC && !k.IsNil() {
					continue
				}
				vt := TermOf(lf.V).String()
				if HasFact(append(append([]Fact{}, lf.Facts...), FactsFor(fn).At(ret.Block())...), FNotNil(func(t *Term) bool { return t.String() == vt })) {
					continue
				}
				return true
			}
			return false
		}
		bad := ""
		for _, mk := range marks {
			before, _ := CanReach(Entry(fn), func(in ssa.Instruction) bool { return in == ssa.Instruction(mk) }, ReachOpts{CutInstr: tested})
			after, at := CanReach(PointAfter(mk), okRet, ReachOpts{CutInstr: tested})
			if before && after {
				bad = "the Workload marked in progress at " + p.Pos(mk.Pos()) + " can be returned at " + p.Pos(posOf(at)) + " without the rollback test (the branch that sets IsInRollback) having been evaluated: a revert that lands before the canary Deployment exists or is scaled up is then taken for a new release — the rollout restarts from step one instead of cancelling"
			}
		}
		c.Ob("R10.13", shortName(name)+"#rollback-tested", fn.Pos(), bad == "", "every in-progress Workload returned without error has passed the rollback test", bad)
	}
}

// ---------------------------------------------------------------- C13 R13.10 (round 7)

func r7C13(c *Ctx) {
	p := c.Prog
	c.Rule("R13.10", "a failed write of the HTTPRoute is an error of the Gateway provider", 2)
	for _, name := range []string{"pkg/trafficrouting/network/gateway.gatewayController.EnsureRoutes", "pkg/trafficrouting/network/gateway.gatewayController.Finalise"} {
		fn := p.Func(name)
		if fn == nil {
			c.Unresolved("R13.10", name)
			continue
		}
		failed := FNotNil(MCall("retry.RetryOnConflict"))
		n := len(CallsIn(fn, "retry.RetryOnConflict"))
		for _, g := range samePkgClosure(p, fn) {
			if g != fn {
				n += len(CallsIn(g, "retry.RetryOnConflict"))
			}
		}
		bad := ""
		for _, ret := range returnsOf(fn) {
			if ret.Block() == fn.Recover || len(ret.Results) != 2 {
				continue
			}
			for _, lf := range Leaves(Forwarded(ret.Results[1]), ret.Block()) {
				k, isC := lf.V.(*ssa.Const)
				if !isC || !k.IsNil() {
					continue
				}
				fs := append(append([]Fact{}, lf.Facts...), FactsFor(fn).At(ret.Block())...)
				if HasFact(fs, failed) {
					bad = "the return at " + p.Pos(ret.Pos()) + " hands back a nil error on a path where the update of the HTTPRoute has failed"
				}
			}
		}
		c.Ob("R13.10", shortName(name)+"#failed-write-is-an-error", fn.Pos(), n > 0 && bad == "", "no nil error after RetryOnConflict failed",
			ifs(bad != "", bad+": for Finalise `false, nil` means 'nothing left to restore' — the manager goes on to delete the canary Service while the route still carries the canary backends")+ifs(n == 0, "RetryOnConflict call not found"))
	}
}

// ---------------------------------------------------------------- C11 R11.14 (round 7)

func r7C11(c *Ctx) {
	p := c.Prog
	c.Rule("R11.14", "the canary-style control plane judges a batch only on a canary Deployment whose status is current", 2)
	stable := FTrue(MCall("WorkloadInfo.IsStable"))
	for _, name := range []string{"pkg/controller/batchrelease/control/canarystyle.realCanaryController.UpgradeBatch", "pkg/controller/batchrelease/control/canarystyle.realCanaryController.EnsureBatchPodsReadyAndLabeled"} {
		fn := p.Func(name)
		if fn == nil {
			c.Unresolved("R11.14", name)
			continue
		}
		calls := CallsIn(fn, "realCanaryController.CalculateBatchContext")
		if len(calls) == 0 {
			for _, ci := range AllCalls(fn) {
				if strings.HasSuffix(CalleeName(ci.Common()), ".CalculateBatchContext") {
					calls = append(calls, ci)
				}
			}
		}
		if len(calls) == 0 {
			c.Ob("R11.14", shortName(name)+"#context-on-current-status", fn.Pos(), false, "CalculateBatchContext call", "anchor not found")
			continue
		}
		for _, ci := range calls {
			reach, _ := CanReach(Entry(fn), func(in ssa.Instruction) bool { return in == ci.(ssa.Instruction) }, ReachOpts{CutEdge: func(b *ssa.BasicBlock, k int) bool { return EdgeFactMatches(b, k, stable) }})
			c.Ob("R11.14", shortName(name)+"#context-on-current-status", ci.Pos(), !reach, "the batch context is computed only behind GetCanaryInfo().IsStable()",
				ifs(reach, "the batch context (pod counts read from the canary Deployment's status) is computed without the status having been checked to belong to the current generation: after an outside change of the canary's spec the stale status over-states, and the batch is reported Ready (or stays Ready) on pods that no longer exist"))
		}
	}
}

// ---------------------------------------------------------------- C20 R20.9 (round 7)

func r7C20(c *Ctx) {
	p := c.Prog
	c.Rule("R20.9", "the converters load an optional scalar (weight, traffic, …) only behind its nil test", 2)
	n := 0
	for _, fn := range p.RepoFuncs() {
		name := FuncName(fn)
		if !strings.HasPrefix(name, "api/v1alpha1.") || !(strings.Contains(name, "Convert") || strings.Contains(name, "Conversion")) {
			continue
		}
		for _, b := range fn.Blocks {
			for _, in := range b.Instrs {
				u, ok := in.(*ssa.UnOp)
				if !ok || u.Op != token.MUL {
					continue
				}
				// *x where x is a pointer to a scalar read out of a struct field
				pt, ok := u.X.Type().Underlying().(*types.Pointer)
				if !ok {
					continue
				}
				if _, isBasic := pt.Elem().Underlying().(*types.Basic); !isBasic {
					continue
				}
				ld, ok := u.X.(*ssa.UnOp)
				if !ok || ld.Op != token.MUL {
					continue
				}
				if _, isField := ld.X.(*ssa.FieldAddr); !isField {
					continue
				}
				n++
				pt0 := TermOf(u.X).String()
				guarded := HasFact(FactsAtInstr(in), FNotNil(func(t *Term) bool { return t.String() == pt0 }))
				c.Ob("R20.9", name+"#load("+pt0+")", u.Pos(), guarded, "optional scalar loaded behind a nil test",
					ifs(!guarded, "*"+pt0+" is loaded without "+pt0+" != nil: the schema leaves the field optional (a step with neither weight nor replicas, a strategy without traffic), so such an object makes the conversion panic — it can then not be read through this API version at all"))
			}
		}
	}
	if n == 0 {
		c.Unresolved("R20.9", "loads of optional scalars in the converters")
	}
}

// ---------------------------------------------------------------- C18 R18.12 (round 7)

func r7C18(c *Ctx) {
	p := c.Prog
	c.Rule("R18.12", "a control plane's Finalize ends without calling the workload controller's Finalize only when the workload is gone", 2)
	for _, name := range []string{"pkg/controller/batchrelease/control/partitionstyle.realBatchControlPlane.Finalize", "pkg/controller/batchrelease/control/bluegreenstyle.realBatchControlPlane.Finalize"} {
		fn := p.Func(name)
		if fn == nil {
			c.Unresolved("R18.12", name)
			continue
		}
		finalizes := func(in ssa.Instruction) bool {
			ci, ok := in.(ssa.CallInstruction)
			if !ok {
				return false
			}
			cc := ci.Common()
			if cc.IsInvoke() {
				return cc.Method.Name() == "Finalize"
			}
			g := cc.StaticCallee()
			return g != nil && g.Name() == "Finalize" && g != fn
		}
		n := 0
		for _, b := range fn.Blocks {
			for _, in := range b.Instrs {
				if finalizes(in) {
					n++
				}
			}
		}
		bad := ""
		for _, r := range WalkCP(Entry(fn), nil, IsReturn, ReachOpts{CutInstr: finalizes}) {
			ret := r.Instr.(*ssa.Return)
			if ret.Block() == fn.Recover || len(ret.Results) != 1 {
				continue
			}
			rv := Resolve(ret.Results[0], r.Env)
			if call, ok := rv.(*ssa.Call); ok && NameMatch(CalleeName(&call.Call), "client.IgnoreNotFound") {
				continue // the error of the lookup, nil only for NotFound
			}
			if k, ok := rv.(*ssa.Const); ok && k.IsNil() {
				bad = "the return at " + p.Pos(ret.Pos()) + " answers nil without the workload controller's Finalize having run and without the lookup having said NotFound"
				continue
			}
			if k, ok := rv.(*ssa.Const); ok && !k.IsNil() {
				continue
			}
			// any other error value: must be known non-nil here
			vt := TermOf(rv).String()
			if !HasFact(FactsFor(fn).At(ret.Block()), FNotNil(func(t *Term) bool { return t.String() == vt })) {
				bad = "the return at " + p.Pos(ret.Pos()) + " can answer nil (" + vt + ") without the workload controller's Finalize having run"
			}
		}
		c.Ob("R18.12", shortName(name)+"#finalize-or-gone", fn.Pos(), n > 0 && bad == "", "nil is answered only by the workload controller's Finalize or for a workload that is not found",
			ifs(bad != "", bad+": Initialize claims the workload whatever its size, so a shortcut here (no replicas, …) lets the BatchRelease complete and lose its finalizer while the workload keeps the control annotation and the partition")+ifs(n == 0, "call of the workload controller's Finalize not found"))
	}
}

// ---------------------------------------------------------------- C17 R17.13 (round 7)

func r7C17(c *Ctx) {
	p := c.Prog
	c.Rule("R17.13", "the Deployment controller lists a Deployment's ReplicaSets by its selector", 1)
	fn := p.Func("pkg/controller/deployment.DeploymentController.getReplicaSetsForDeployment")
	if fn == nil {
		c.Unresolved("R17.13", "DeploymentController.getReplicaSetsForDeployment")
		return
	}
	n := 0
	for _, ci := range AllCalls(fn) {
		cc := ci.Common()
		if !cc.IsInvoke() || cc.Method.Name() != "List" || len(cc.Args) < 1 {
			continue
		}
		n++
		sel := cc.Args[len(cc.Args)-1]
		bySelector := SliceHasDeep(sel, MField("Spec", "Selector")) || SliceHas(sel, MField("Selector"))
		byTemplate := SliceHas(sel, MField("Template", "ObjectMeta", "Labels")) || SliceHas(sel, MField("Template", "Labels")) || SliceHas(sel, MField("Labels"))
		ok := bySelector && !byTemplate
		c.Ob("R17.13", "getReplicaSetsForDeployment#by-selector", ci.Pos(), ok, "the lister is queried with the Deployment's selector",
			ifs(!ok, "the label restriction does not come from spec.selector"+ifs(byTemplate, " but from the pod template's labels")+": a release that changes a template label outside the selector hides every old ReplicaSet from the controller — the new ReplicaSet is taken for the only one and scaled to the full size in one sync, past partition and maxSurge, and the old ones are never scaled down"))
	}
	if n == 0 {
		c.Unresolved("R17.13", "getReplicaSetsForDeployment: lister List call")
	}
}

// ---------------------------------------------------------------- C20 R20.10, R20.11 (round 8)

func r8C20(c *Ctx) {
	p := c.Prog
	c.Rule("R20.10", "the converters never remove a key from the object's metadata maps", 4)
	c.Rule("R20.11", "a same-named optional scalar is handed over as the pointer it is", 2)
	for _, name := range []string{"api/v1alpha1.Rollout.ConvertTo", "api/v1alpha1.Rollout.ConvertFrom", "api/v1alpha1.BatchRelease.ConvertTo", "api/v1alpha1.BatchRelease.ConvertFrom"} {
		fn := p.Func(name)
		if fn == nil {
			c.Unresolved("R20.10", name)
			continue
		}
		bad := ""
		for _, g := range samePkgClosure(p, fn) {
			for _, ci := range AllCalls(g) {
				bi, ok := ci.Common().Value.(*ssa.Builtin)
				if !ok || bi.Name() != "delete" || len(ci.Common().Args) != 2 {
					continue
				}
				if t := TermOf(ci.Common().Args[0]); t.Any(MField("Annotations")) || t.Any(MField("Labels")) || MField("Annotations")(t) || MField("Labels")(t) {
					if !t.Any(MField("PatchPodTemplateMetadata")) {
						bad = "delete(" + t.String() + ", …) at " + p.Pos(ci.Pos())
					}
				}
			}
		}
		c.Ob("R20.10", name+"#no-metadata-delete", fn.Pos(), bad == "", "annotations and labels are only added to",
			ifs(bad != "", bad+": the destination's ObjectMeta is a shallow copy of the source's, so the map is shared — the key disappears from the object being converted before (or after) it is read, and is lost in the other version"))
		// R20.11
		for _, g := range samePkgClosure(p, fn) {
			if !strings.HasPrefix(FuncName(g), "api/v1alpha1.") {
				continue
			}
			for _, b := range g.Blocks {
				for _, in := range b.Instrs {
					st, ok := in.(*ssa.Store)
					if !ok {
						continue
					}
					fa, ok := st.Addr.(*ssa.FieldAddr)
					if !ok {
						continue
					}
					pt, ok := st.Val.Type().Underlying().(*types.Pointer)
					if !ok {
						continue
					}
					if _, isBasic := pt.Elem().Underlying().(*types.Basic); !isBasic {
						continue
					}
					fname, _ := FieldOf(fa)
					// a source field of the same name and type somewhere in what the stored value is made of
					var same ssa.Value
					for x := range BackwardSlice(st.Val) {
						ld, ok := x.(*ssa.UnOp)
						if !ok || ld.Op != token.MUL {
							continue
						}
						sfa, ok := ld.X.(*ssa.FieldAddr)
						if !ok {
							continue
						}
						if sn, _ := FieldOf(sfa); sn == fname && types.Identical(ld.Type(), st.Val.Type()) {
							same = ld
						}
					}
					if same == nil {
						continue
					}
					okc := true
					for _, lf := range Leaves(Forwarded(st.Val), b) {
						if lf.V != same {
							okc = false
						}
					}
					c.Ob("R20.11", FuncName(g)+"#copy("+fname+")", st.Pos(), okc, "the optional "+fname+" is copied as a pointer (nil stays nil, 0 stays 0)",
						ifs(!okc, "the value stored is "+TermOf(st.Val).String()+", rebuilt from the source's "+fname+" instead of being that pointer: a value the rebuild treats specially (an explicit 0, an empty string) reads back as absent in the other version, and a read-modify-write there stores the change"))
				}
			}
		}
	}
}

// ---------------------------------------------------------------- C08 R8.13, R8.14 (round 8)

func r8C08(c *Ctx) {
	p := c.Prog
	c.Rule("R8.13", "a failed Rollout lookup is an error of the admission handlers, not 'no Rollout'", 3)
	checkErrorDisciplineF(c, "R8.13", func(fn *ssa.Function) bool {
		return strings.HasPrefix(FuncName(fn), "pkg/webhook/workload/mutating.")
	}, func(ci ssa.CallInstruction) bool {
		return strings.HasSuffix(CalleeName(ci.Common()), "fetchMatchedRollout")
	})

	c.Rule("R8.14", "the generic handler lets a workload pass unexamined only when neither its type label nor its kind says StatefulSet", 2)
	fn := p.Func("pkg/webhook/workload/mutating.UnifiedWorkloadHandler.Handle")
	if fn == nil {
		c.Unresolved("R8.14", "UnifiedWorkloadHandler.Handle")
		return
	}
	var decode ssa.Instruction
	for _, ci := range AllCalls(fn) {
		if strings.HasSuffix(CalleeName(ci.Common()), "Decoder.Decode") {
			if decode == nil || ci.Pos() < decode.Pos() {
				decode = ci.(ssa.Instruction)
			}
		}
	}
	if decode == nil {
		c.Unresolved("R8.14", "UnifiedWorkloadHandler.Handle: Decode of the new object")
		return
	}
	examined := func(in ssa.Instruction) bool {
		ci, ok := in.(ssa.CallInstruction)
		return ok && strings.HasSuffix(CalleeName(ci.Common()), "handleStatefulSetLikeWorkload")
	}
	allowedRet := func(in ssa.Instruction) bool {
		ret, ok := in.(*ssa.Return)
		if !ok || len(ret.Results) != 1 {
			return false
		}
		for _, lf := range Leaves(Forwarded(ret.Results[0]), ret.Block()) {
			if call, ok := lf.V.(*ssa.Call); ok && strings.HasSuffix(CalleeName(&call.Call), "admission.Allowed") {
				return true
			}
		}
		return false
	}
	for _, q := range []struct {
		label string
		need  FactM
	}{
		{"type-label", FFalse(MCall("util.IsWorkloadType"))},
		{"kind", FCmp("!=", MField("Kind"), MField("Kind"))},
	} {
		reach, at := CanReach(PointAfter(decode), allowedRet, ReachOpts{CutInstr: examined, CutEdge: func(b *ssa.BasicBlock, k int) bool { return EdgeFactMatches(b, k, q.need) }})
		c.Ob("R8.14", "UnifiedWorkloadHandler.Handle#unexamined-only-if-not("+q.label+")", fn.Pos(), !reach, "a bare Allowed before the StatefulSet-like handler needs the "+q.label+" to say 'not a StatefulSet'",
			ifs(reach, "the Allowed at "+p.Pos(posOf(at))+" is reachable although the "+q.label+" may say StatefulSet: a StatefulSet-like workload recognised by only one of the two (a CRD with the workload-type label, or a StatefulSet selected without it) is admitted with no partition and no in-progress marker"))
	}
}

// ---------------------------------------------------------------- C12 R12.12 (round 8)

func r8C12(c *Ctx) {
	p := c.Prog
	c.Rule("R12.12", "the labelling pass is skipped only without a rollout-id or without pods", 1)
	fn := p.Func("pkg/controller/batchrelease/labelpatch.realPatcher.PatchPodBatchLabel")
	if fn == nil {
		c.Unresolved("R12.12", "labelpatch.realPatcher.PatchPodBatchLabel")
		return
	}
	does := func(in ssa.Instruction) bool {
		ci, ok := in.(ssa.CallInstruction)
		return ok && strings.HasSuffix(CalleeName(ci.Common()), "realPatcher.patchPodBatchLabel")
	}
	n := 0
	for _, b := range fn.Blocks {
		for _, in := range b.Instrs {
			if does(in) {
				n++
			}
		}
	}
	nothing := FOr(FCmp("==", MField("RolloutID"), MConst("")), FCmp("==", MLen(MField("Pods")), MConst("0")))
	reach, at := CanReach(Entry(fn), successReturn(fn), ReachOpts{CutInstr: does, CutEdge: func(b *ssa.BasicBlock, k int) bool { return EdgeFactMatches(b, k, nothing) }})
	c.Ob("R12.12", "PatchPodBatchLabel#always-runs-the-accounting", fn.Pos(), n > 0 && !reach, "nil is returned without the per-pod accounting only for an empty rollout-id or an empty pod list",
		ifs(reach, "the return at "+p.Pos(posOf(at))+" skips the pass on another condition: a shortcut that counts pods by rollout-id alone also counts the ones the accounting deliberately does not (old revision, non-numeric or out-of-range batch-id), so the pods the batch really added never get their label")+ifs(n == 0, "call of patchPodBatchLabel not found"))
}

// ---------------------------------------------------------------- C17 R17.14 (round 8)

func r8C17(c *Ctx) {
	p := c.Prog
	c.Rule("R17.14", "the Deployment controller rolls with the strategy as stored: defaults are applied where the annotation is written", 2)
	def := p.Func("api/v1alpha1.SetDefaultDeploymentStrategy")
	if def == nil {
		c.Unresolved("R17.14", "v1alpha1.SetDefaultDeploymentStrategy")
		return
	}
	for _, cs := range p.Callers(def) {
		name := FuncName(cs.Caller)
		ok := !strings.HasPrefix(name, "pkg/controller/deployment")
		c.Ob("R17.14", name+"#SetDefaultDeploymentStrategy", cs.Instr.Pos(), ok, "defaults are applied by a writer of the strategy annotation (webhook, Initialize)",
			ifs(!ok, "the controller re-defaults the strategy it has just read: whatever the defaulting does to a partly specified rollingUpdate (today it overwrites maxUnavailable when maxSurge is absent) then governs the scaling instead of the stored values"))
	}
}

// ---------------------------------------------------------------- C11 R11.15, C07 R7.14 (round 8)

func r8C11(c *Ctx) {
	p := c.Prog
	c.Rule("R11.15", "refreshStatus records the plan hash only when none is recorded", 1)
	fn := p.Func("pkg/controller/batchrelease.refreshStatus")
	if fn == nil {
		c.Unresolved("R11.15", "batchrelease.refreshStatus")
		return
	}
	empty := FOr(FCmp("==", MLen(MField("ObservedReleasePlanHash")), MConst("0")), FCmp("==", MField("ObservedReleasePlanHash"), MConst("")))
	n := 0
	for _, st := range FieldStores([]*ssa.Function{fn}, "", "ObservedReleasePlanHash") {
		n++
		reach, _ := CanReach(Entry(fn), func(in ssa.Instruction) bool { return in == ssa.Instruction(st) }, ReachOpts{CutEdge: func(b *ssa.BasicBlock, k int) bool { return EdgeFactMatches(b, k, empty) }})
		c.Ob("R11.15", "refreshStatus#hash-only-when-empty", st.Pos(), !reach, "observedReleasePlanHash is (re)recorded only when it is empty",
			ifs(reach, "the hash is overwritten although one is recorded: a plan edit that arrives while the condition holds (a release sent back to Preparing keeps its currentBatch) is absorbed — isPlanChanged sees a matching hash, nothing is recalculated, and the executor goes on with a batch beyond the new batchPartition"))
	}
	if n == 0 {
		c.Unresolved("R11.15", "refreshStatus: store of ObservedReleasePlanHash")
	}
}

func r8C07(c *Ctx) {
	p := c.Prog
	c.Rule("R7.14", "a workload event finds its Rollout by group, kind and name — not by API version", 1)
	fn := p.Func("pkg/controller/rollout.enqueueRequestForWorkload.getRolloutForWorkload")
	if fn == nil {
		c.Unresolved("R7.14", "enqueueRequestForWorkload.getRolloutForWorkload")
		return
	}
	bad := ""
	for _, g := range samePkgClosure(p, fn) {
		for _, b := range g.Blocks {
			for _, in := range b.Instrs {
				bo, ok := in.(*ssa.BinOp)
				if !ok || (bo.Op != token.EQL && bo.Op != token.NEQ) {
					continue
				}
				ts := bo.X.Type().String()
				if strings.HasSuffix(ts, "schema.GroupVersionKind") || strings.HasSuffix(ts, "schema.GroupVersion") {
					bad = "whole " + ts[strings.LastIndex(ts, ".")+1:] + " values are compared at " + p.Pos(bo.Pos())
				}
				for _, v := range []ssa.Value{bo.X, bo.Y} {
					if t := TermOf(v); MField("Version")(t) {
						bad = "the API version is compared at " + p.Pos(bo.Pos())
					}
				}
			}
		}
	}
	// the positive part: a Rollout is returned only under group, kind and name equalities
	n := 0
	for _, ret := range returnsOf(fn) {
		if len(ret.Results) != 2 {
			continue
		}
		for _, lf := range Leaves(Forwarded(ret.Results[0]), ret.Block()) {
			if k, isC := lf.V.(*ssa.Const); isC && k.IsNil() {
				continue
			}
			n++
			fs := append(append([]Fact{}, lf.Facts...), FactsFor(fn).At(ret.Block())...)
			for _, need := range []struct {
				d string
				m FactM
			}{
				{"kind", FCmp("==", MField("Kind"), MField("Kind"))},
				{"group", FCmp("==", MField("Group"), MField("Group"))},
				{"name", FCmp("==", MField("Name"), MField("Name"))},
			} {
				if !HasFact(fs, need.m) && bad == "" {
					bad = "a Rollout is returned at " + p.Pos(ret.Pos()) + " without the " + need.d + " having been compared"
				}
			}
		}
	}
	c.Ob("R7.14", "getRolloutForWorkload#match-ignores-version", fn.Pos(), n > 0 && bad == "", "the match is group + kind + name",
		ifs(bad != "", bad+": a Rollout may name its workload through another served version of the same kind (apps.kruise.io/v1alpha1 StatefulSet, watched as v1beta1); its workload events are then dropped, and for a Healthy rollout — which asks for no requeue — nothing else starts the release")+ifs(n == 0, "no return of a matched Rollout found"))
}

// ---------------------------------------------------------------- C06 R6.10, R6.11 (round 8)

func r8C06(c *Ctx) {
	p := c.Prog
	c.Rule("R6.10", "the stable Service is restored only from a Service that was actually read", 1)
	if fn := p.Func("pkg/trafficrouting.Manager.RestoreStableService"); fn == nil {
		c.Unresolved("R6.10", "trafficrouting.Manager.RestoreStableService")
	} else {
		var get, restore ssa.Instruction
		for _, ci := range AllCalls(fn) {
			cc := ci.Common()
			if cc.IsInvoke() && cc.Method.Name() == "Get" && get == nil {
				get = ci.(ssa.Instruction)
			}
			if strings.Contains(CalleeName(cc), "grace.RunWithGraceSeconds") {
				restore = ci.(ssa.Instruction)
			}
		}
		if get == nil || restore == nil {
			c.Unresolved("R6.10", "RestoreStableService: Get of the Service / RunWithGraceSeconds")
		} else {
			// the read's error: the call's result, or the variable cell it is stored in (the closure
			// below captures `err`, so it lives in a cell)
			isReadErr := func(t *Term) bool {
				if MResultOf(get.(ssa.CallInstruction), 0)(t) {
					return true
				}
				var al *ssa.Alloc
				switch v := t.V.(type) {
				case *ssa.Alloc:
					al = v
				case *ssa.UnOp:
					al, _ = v.X.(*ssa.Alloc)
				}
				if al == nil {
					return false
				}
				for _, st := range AllocStoresOf(al) {
					if st.Addr == ssa.Value(al) && st.Val == get.(ssa.Value) {
						return true
					}
				}
				return false
			}
			ok := FNil(isReadErr)
			reach, _ := CanReach(PointAfter(get), func(in ssa.Instruction) bool { return in == restore }, ReachOpts{CutEdge: func(b *ssa.BasicBlock, k int) bool { return EdgeFactMatches(b, k, ok) }})
			c.Ob("R6.10", "RestoreStableService#restore-needs-read", restore.Pos(), !reach, "the restore step is reached only with Get(...) == nil",
				ifs(reach, "the restore step runs on a path where the read of the stable Service may have failed: the empty object has no pinned selector, 'nothing to restore' is answered, the later assignment overwrites the read error with nil, and the finalising cursor moves past the step for good — the Service stays pinned to the old revision"))
		}
	}

	c.Rule("R6.11", "the Deployment controller gives a Deployment back to the native controller only when the webhook configuration is known to be gone", 1)
	fn := p.Func("pkg/controller/deployment.ReconcileDeployment.mutatingProtectionInvalid")
	if fn == nil {
		c.Unresolved("R6.11", "ReconcileDeployment.mutatingProtectionInvalid")
		return
	}
	gone := FOr(FTrue(MCall("errors.IsNotFound")), FFalse(MCall("Time.IsZero", MField("DeletionTimestamp"))))
	isWrite := apiWrites(p)
	n := 0
	bad := ""
	for _, b := range fn.Blocks {
		for _, in := range b.Instrs {
			if !isWrite(in) {
				continue
			}
			n++
			if reach, _ := CanReach(Entry(fn), func(x ssa.Instruction) bool { return x == in }, ReachOpts{CutEdge: func(bb *ssa.BasicBlock, k int) bool { return EdgeFactMatches(bb, k, gone) }}); reach {
				bad = "the patch at " + p.Pos(in.Pos()) + " (strategy back to RollingUpdate) is reachable without IsNotFound(err) or a deletion timestamp on the webhook configuration"
			}
		}
	}
	// and 'invalid' is answered only under the same condition
	for _, r := range WalkCP(Entry(fn), nil, IsReturn, ReachOpts{CutEdge: func(bb *ssa.BasicBlock, k int) bool { return EdgeFactMatches(bb, k, gone) }}) {
		ret := r.Instr.(*ssa.Return)
		if len(ret.Results) != 2 {
			continue
		}
		if v, ok := ResolveConst(ret.Results[0], r.Env); ok && v == "true" {
			bad = "the return at " + p.Pos(ret.Pos()) + " answers 'protection invalid' without the webhook configuration being known to be gone"
		}
	}
	c.Ob("R6.11", "mutatingProtectionInvalid#only-when-gone", fn.Pos(), n > 0 && bad == "", "a failed read of the webhook configuration is an error, not 'the webhook is gone'",
		ifs(bad != "", bad+": one transient read error hands a Deployment that is mid-release back to the native controller; nothing undoes that patch, the BatchRelease finds the Deployment 'out of our control', and the rollout waits in Upgrade for ever")+ifs(n == 0, "the patch of the Deployment strategy not found"))
}

// r9C03: R3.14 — inside the Gateway provider -1 means "restore"; a step never asks for that.
func r9C03(c *Ctx) {
	p := c.Prog
	c.Rule("R3.14", "a step's weight for the Gateway provider is absent or computed from strategy.Traffic — never the restore request", 1)
	build := p.Func("pkg/trafficrouting/network/gateway.gatewayController.buildDesiredHTTPRoute")
	if build == nil {
		c.Unresolved("R3.14", "gatewayController.buildDesiredHTTPRoute")
		return
	}
	wi := -1
	for i, par := range build.Params {
		if par.Type().String() == "*int32" {
			wi = i
		}
	}
	if wi < 0 {
		c.Unresolved("R3.14", "buildDesiredHTTPRoute(weight *int32)")
		return
	}
	fromTraffic := func(v ssa.Value) bool {
		return SliceHas(v, MField("Traffic")) || SliceHasDeep(v, MField("Traffic"))
	}
	for _, site := range p.Callers(build) {
		if site.Args == nil || wi >= len(site.Args) || strings.HasSuffix(FuncName(site.Caller), ".Finalise") {
			continue
		}
		bad := ""
		for _, lf := range LeavesDeep(Forwarded(site.Args[wi]), site.Instr.Block()) {
			if t := TermOf(lf.V); t.Op == "const" && t.Name == "nil" {
				continue
			}
			var pointees []ssa.Value
			switch x := lf.V.(type) {
			case *ssa.Alloc:
				for _, st := range AllocStoresOf(x) {
					pointees = append(pointees, st.Val)
				}
			case *ssa.Call:
				if g := x.Call.StaticCallee(); g != nil && g.Pkg != nil && (strings.HasSuffix(g.Pkg.Pkg.Path(), "k8s.io/utils/pointer") || strings.HasSuffix(g.Pkg.Pkg.Path(), "k8s.io/utils/ptr")) && len(x.Call.Args) == 1 {
					pointees = append(pointees, x.Call.Args[0])
				}
			}
			if len(pointees) == 0 {
				bad = "the weight can be " + TermOf(lf.V).String() + ", which is neither nil nor a fresh pointer"
				continue
			}
			for _, v := range pointees {
				if !fromTraffic(v) {
					bad = "the weight can point to " + TermOf(v).String() + ", which is not computed from strategy.Traffic: buildDesiredHTTPRoute takes -1 for Finalise's request and answers with the restored route — a match step without weight would lose its canary routes while the rollout goes on"
				}
			}
		}
		c.Ob("R3.14", FuncName(site.Caller)+"#weight-is-the-steps", site.Instr.Pos(), bad == "", "the weight handed to buildDesiredHTTPRoute outside Finalise", bad)
	}
}

// r9C13: R13.13 — no rule of the route is dropped by leaving the rule loop early. (R13.12 is
// decided next to R13.3 in c13.go.)
func r9C13(c *Ctx) {
	p := c.Prog
	c.Rule("R13.13", "the builders of the desired HTTPRoute rules visit every rule of the route", 3)
	// every function of the provider's package that takes the route's rules and returns rules
	isRules := func(t types.Type) bool {
		ts := t.String()
		return strings.HasPrefix(ts, "[]") && strings.HasSuffix(ts, "HTTPRouteRule")
	}
	found := 0
	for _, fn := range p.RepoFuncs() {
		if fn.Pkg == nil || !strings.HasSuffix(fn.Pkg.Pkg.Path(), "pkg/trafficrouting/network/gateway") {
			continue
		}
		takes, gives := false, false
		for _, par := range fn.Params {
			if isRules(par.Type()) {
				takes = true
			}
		}
		res := fn.Signature.Results()
		for k := 0; k < res.Len(); k++ {
			if isRules(res.At(k).Type()) {
				gives = true
			}
		}
		if !takes || !gives {
			continue
		}
		bad := ""
		loops := 0
		for _, ret := range returnsOf(fn) {
			switch loopExitKind(ret.Block()) {
			case "mid-loop":
				bad = "the return at " + p.Pos(ret.Pos()) + " is reached by leaving a loop from the middle (break / return inside the loop): the rules behind that point are not copied into the desired rules, so the route loses rules its owner wrote — and Finalise cannot bring them back"
			case "exhausted":
				loops++
			}
		}
		if loops == 0 && bad == "" {
			continue // a dispatcher: no loop of its own
		}
		found++
		c.Ob("R13.13", shortName(FuncName(fn))+"#visits-every-rule", fn.Pos(), bad == "", "the rule loop ends by exhaustion only", bad)
	}
	if found == 0 {
		c.Unresolved("R13.13", "functions of the gateway package from []HTTPRouteRule to []HTTPRouteRule with a loop")
	}
}

// stepWeightNeverDropped: wherever a value is either an "absent" marker (nil for a *int32, the
// constant -1 for an integer) or a number scaled from a traffic percentage held in a *string, the
// absent marker is selected only where that *string is nil.
func stepWeightNeverDropped(c *Ctx, rule string, pkgs []string, floor int) {
	p := c.Prog
	c.Rule(rule, "a configured traffic percentage always yields a weight", floor)
	isScale := func(t *Term) bool {
		return (t.Op == "call" || t.Op == "extract") && NameMatch(t.Name, "intstr.GetScaledValueFromIntOrPercent")
	}
	// the *string values the scaled number v is computed from
	sources := func(v ssa.Value) []ssa.Value {
		if call, ok := v.(*ssa.Call); ok {
			if g := call.Call.StaticCallee(); g != nil && g.Pkg != nil && (strings.HasSuffix(g.Pkg.Pkg.Path(), "k8s.io/utils/pointer") || strings.HasSuffix(g.Pkg.Pkg.Path(), "k8s.io/utils/ptr")) && len(call.Call.Args) == 1 {
				v = call.Call.Args[0]
			}
		}
		if !SliceHas(v, isScale) && !SliceHasDeep(v, isScale) {
			return nil
		}
		var out []ssa.Value
		for x := range BackwardSlice(v) {
			if x.Type().String() == "*string" {
				out = append(out, x)
			}
		}
		return out
	}
	for _, fn := range p.RepoFuncs() {
		in := false
		for _, pk := range pkgs {
			if fn.Pkg != nil && strings.HasSuffix(fn.Pkg.Pkg.Path(), pk) {
				in = true
			}
		}
		if !in {
			continue
		}
		bad := ""
		var at token.Pos
		seenAny := false
		judge := func(lvs []Leaf, ts string, pos token.Pos) {
			var srcs []ssa.Value
			for _, lf := range lvs {
				srcs = append(srcs, sources(lf.V)...)
			}
			if len(srcs) == 0 {
				return
			}
			isSrc := func(t *Term) bool {
				for _, sv := range srcs {
					if t.V == sv || t.String() == TermOf(sv).String() {
						return true
					}
				}
				return false
			}
			if !seenAny {
				at = pos
			}
			seenAny = true
			for _, lf := range lvs {
				t := TermOf(lf.V)
				absent := t.Op == "const" && ((ts == "*int32" && t.Name == "nil") || (ts != "*int32" && t.Name == "-1"))
				if !absent {
					continue
				}
				if !HasFact(lf.Facts, FNil(isSrc)) {
					at = pos
					bad = "the weight can stay absent (" + t.Name + ") on a path where the configured traffic percentage is set: a legal percentage (\"0%\") is then treated like a step without weight — the scripts get -1, the Gateway provider builds no weight routes"
				}
			}
		}
		isW := func(ts string) bool { return ts == "*int32" || ts == "int32" || ts == "int" || ts == "int64" }
		for _, b := range fn.Blocks {
			for _, ins := range b.Instrs {
				ph, ok := ins.(*ssa.Phi)
				if !ok || !isW(ph.Type().String()) {
					continue
				}
				judge(Leaves(ph, ph.Block()), ph.Type().String(), ph.Pos())
			}
		}
		// the same choice written as stores to one field of a struct in different branches
		type cell struct {
			x ssa.Value
			f int
		}
		byCell := map[cell][]*ssa.Store{}
		var cells []cell
		for _, b := range fn.Blocks {
			for _, ins := range b.Instrs {
				st, ok := ins.(*ssa.Store)
				if !ok {
					continue
				}
				fa, ok := st.Addr.(*ssa.FieldAddr)
				if !ok || !isW(st.Val.Type().String()) {
					continue
				}
				k := cell{fa.X, fa.Field}
				if _, seen := byCell[k]; !seen {
					cells = append(cells, k)
				}
				byCell[k] = append(byCell[k], st)
			}
		}
		for _, k := range cells {
			if len(byCell[k]) < 2 {
				continue
			}
			var lvs []Leaf
			for _, st := range byCell[k] {
				for _, lf := range Leaves(st.Val, st.Block()) {
					lvs = append(lvs, lf)
				}
			}
			judge(lvs, byCell[k][0].Val.Type().String(), byCell[k][0].Pos())
		}
		// the same choice written as two returns of a helper
		if res := fn.Signature.Results(); res.Len() == 1 && isW(res.At(0).Type().String()) {
			var lvs []Leaf
			for _, ret := range returnsOf(fn) {
				if len(ret.Results) == 1 {
					lvs = append(lvs, Leaves(ret.Results[0], ret.Block())...)
				}
			}
			judge(lvs, res.At(0).Type().String(), fn.Pos())
		}
		if seenAny {
			c.Ob(rule, FuncName(fn)+"#weight-absent-only-without-traffic", at, bad == "", "the absent marker is chosen for the weight only where the traffic percentage is nil", bad)
		}
	}
}

// r9C16: R16.14 — object keys cross the boundary as strings.
func r9C16(c *Ctx) {
	p := c.Prog
	c.Rule("R16.14", "object keys are handed to the script as strings", 1)
	dv := p.Func("pkg/util/luamanager.decodeValue")
	if dv == nil {
		c.Unresolved("R16.14", "luamanager.decodeValue")
		return
	}
	n := 0
	for _, fn := range samePkgClosure(p, dv) {
		for _, ci := range AllCalls(fn) {
			name := CalleeName(ci.Common())
			if !strings.Contains(name, "gopher-lua.LTable.") {
				continue
			}
			m := name[strings.LastIndex(name, ".")+1:]
			switch m {
			case "RawSet", "RawSetH", "RawSetString", "RawSetInt", "Insert", "ForceSet":
			default:
				continue
			}
			args := ci.Common().Args
			if len(args) < 2 {
				continue
			}
			n++
			ok := false
			why := ""
			k := args[1]
			if mi, isMI := k.(*ssa.MakeInterface); isMI {
				k = mi.X
			}
			isRangeKey := func(v ssa.Value) bool {
				ex, isEx := v.(*ssa.Extract)
				if !isEx {
					return false
				}
				_, isNext := ex.Tuple.(*ssa.Next)
				return isNext && ex.Index == 1
			}
			switch x := k.(type) {
			case *ssa.ChangeType:
				ok = strings.HasSuffix(x.Type().String(), "gopher-lua.LString") && isRangeKey(x.X)
			case *ssa.Convert:
				ok = strings.HasSuffix(x.Type().String(), "gopher-lua.LString") && isRangeKey(x.X)
			default:
				ok = m == "RawSetString" && isRangeKey(k)
			}
			if !ok {
				why = "the key handed to " + m + " is " + TermOf(args[1]).String() + ", not lua.LString of the ranged key: an object key that looks like a number reaches the script as a number (obj.annotations[\"2024\"] is nil there) and comes back as a list index"
			}
			c.Ob("R16.14", FuncName(fn)+"#key("+m+")", ci.Pos(), ok, "key of a decoded JSON object", why)
		}
	}
	if n == 0 {
		c.Ob("R16.14", "decodeValue#key", dv.Pos(), false, "table setter in the object case", "anchor not found")
	}

	// R16.15: what a script returned has the shape the script chose; Go code that takes it apart
	// asserts types in the checked form only (x, ok := v.(T), or a type switch).
	c.Rule("R16.15", "no unchecked type assertion on a value a script produced", 1)
	fromScript := func(v ssa.Value) bool {
		for x := range BackwardSlice(v) {
			ts := x.Type().String()
			if strings.Contains(ts, "customNetworkProvider.Data") || strings.Contains(ts, "gopher-lua.") {
				return true
			}
		}
		return false
	}
	total, inScope := 0, 0
	var bad []string
	var badPos token.Pos
	for _, fn := range p.RepoFuncs() {
		for _, b := range fn.Blocks {
			for _, in := range b.Instrs {
				ta, ok := in.(*ssa.TypeAssert)
				if !ok || ta.CommaOk {
					continue
				}
				total++
				if fn.Pkg == nil || !(strings.HasSuffix(fn.Pkg.Pkg.Path(), "network/customNetworkProvider") || strings.HasSuffix(fn.Pkg.Pkg.Path(), "network/ingress") || strings.HasSuffix(fn.Pkg.Pkg.Path(), "util/luamanager")) {
					continue
				}
				if !fromScript(ta.X) {
					continue
				}
				inScope++
				bad = append(bad, FuncName(fn)+" at "+p.Pos(ta.Pos())+": "+TermOf(ta.X).String()+".("+ta.AssertedType.String()+")")
				badPos = ta.Pos()
			}
		}
	}
	// the matcher must see the unchecked assertions the repository has elsewhere (self-check of a rule whose expected count is zero)
	c.Ob("R16.15", "matcher#sees-unchecked-assertions", dv.Pos(), total > 0, "unchecked type assertions are visible to the matcher ("+strconv.Itoa(total)+" in the repository)", ifs(total == 0, "no unchecked type assertion found anywhere: the matcher is broken"))
	if len(bad) > 0 {
		c.Ob("R16.15", "script-result#unchecked-assertion", badPos, false, "type assertions on script results are checked", strings.Join(bad, "; ")+": a script that returns another shape (no spec, an empty table — encoded as null —, a string) panics the reconcile worker instead of failing this one rollout")
	}
}

// r9C15: R15.15 — a script belongs to group + kind.
func r9C15(c *Ctx) {
	p := c.Prog
	c.Rule("R15.15", "a resource is rewritten by the script of its own group and kind", 1)
	fn := p.Func("pkg/trafficrouting/network/customNetworkProvider.customController.getLuaScript")
	if fn == nil {
		c.Unresolved("R15.15", "customController.getLuaScript")
		return
	}
	has := func(v ssa.Value, f string) bool { return SliceHas(v, MField(f)) || SliceHasDeep(v, MField(f)) }
	for _, ret := range returnsOf(fn) {
		if len(ret.Results) != 2 {
			continue
		}
		for _, lf := range Leaves(ret.Results[0], ret.Block()) {
			if t := TermOf(lf.V); t.Op == "const" {
				continue
			}
			k, g := has(lf.V, "Kind"), has(lf.V, "APIVersion")
			c.Ob("R15.15", "getLuaScript#script-of(group,kind)", ret.Pos(), k && g, "the script returned is looked up under group and kind",
				ifs(!(k && g), "the script returned here is computed "+ifs(!k, "without ref.Kind")+ifs(!g, "without ref.APIVersion")+": two references of the same kind in different API groups (or the reverse) get one another's script, and the resource is rewritten by a script that is not its own"))
		}
	}
}

// r9C18: R18.13 — the Rollout's marker on a TrafficRouting is gone when the Rollout says so.
func r9C18(c *Ctx) {
	p := c.Prog
	c.Rule("R18.13", "the progressing finalizer on a TrafficRouting is released before the Rollout reports it released", 1)
	fn := p.Func("pkg/controller/rollout.RolloutReconciler.finalizeTrafficRouting")
	if fn == nil {
		c.Unresolved("R18.13", "RolloutReconciler.finalizeTrafficRouting")
		return
	}
	anchored := false
	for _, g := range samePkgClosure(p, fn) {
		if len(CallsIn(g, "util.UpdateFinalizer")) > 0 {
			anchored = true
		}
	}
	if !anchored {
		c.Unresolved("R18.13", "finalizeTrafficRouting: UpdateFinalizer(Remove, progressing finalizer)")
		return
	}
	// a helper of the package that fetches the object and answers a nil object only for not-found
	nilObjMeansNotFound := func(h *ssa.Function) bool {
		if h == nil || len(h.Blocks) == 0 || h.Pkg != fn.Pkg || h.Signature.Results().Len() != 2 {
			return false
		}
		okAll, n := true, 0
		for _, ret := range returnsOf(h) {
			if len(ret.Results) != 2 {
				continue
			}
			for _, lf := range Leaves(ret.Results[0], ret.Block()) {
				if t := TermOf(lf.V); !(t.Op == "const" && t.Name == "nil") {
					continue
				}
				n++
				errNonNil := true
				for _, le := range Leaves(ret.Results[1], ret.Block()) {
					if t := TermOf(le.V); t.Op == "const" && t.Name == "nil" {
						errNonNil = false
					}
				}
				if !errNonNil && !HasFact(lf.Facts, FTrue(MCall("errors.IsNotFound"))) {
					okAll = false
				}
			}
		}
		return okAll && n > 0
	}
	released := func(fs []Fact) bool {
		if HasFact(fs, FTrue(MCall("errors.IsNotFound"))) || HasFact(fs, FFalse(MCall("controllerutil.ContainsFinalizer"))) || HasFact(fs, FNil(MResult("util.UpdateFinalizer", 0))) {
			return true
		}
		// the name of the TrafficRouting is empty: there is none
		if HasFact(fs, FOr(FCmp("==", func(t *Term) bool { return t.Op == "param" && t.V != nil && t.V.Type().String() == "string" }, MConst("")),
			FCmp("==", MLen(func(t *Term) bool { return t.Op == "param" && t.V != nil && t.V.Type().String() == "string" }), MConst("0")))) {
			return true
		}
		// the object handed back by a fetch helper is nil: not found
		return HasFact(fs, FNil(func(t *Term) bool {
			if t.Op != "extract" || t.Idx != 0 || t.Call == nil {
				return false
			}
			return nilObjMeansNotFound(t.Call.Call.StaticCallee())
		}))
	}
	bad := ""
	n := 0
	for _, ret := range returnsOf(fn) {
		if len(ret.Results) != 1 {
			continue
		}
		for _, lf := range LeavesDeep(Forwarded(ret.Results[0]), ret.Block()) {
			t := TermOf(lf.V)
			if !(t.Op == "const" && t.Name == "nil") {
				continue
			}
			n++
			if !released(lf.Facts) {
				bad = "the nil returned at " + p.Pos(ret.Pos()) + " is reached although the TrafficRouting was found, may still carry progressing.rollouts.kruise.io/<rollout>, and no removal succeeded: the Rollout finishes its teardown and drops its own finalizer while its marker stays on the TrafficRouting, which can then never be deleted"
			}
		}
	}
	c.Ob("R18.13", "finalizeTrafficRouting#nil-means-released", fn.Pos(), n > 0 && bad == "", "nil only for not-found / finalizer absent / removal succeeded", bad+ifs(n == 0, "no nil return found"))
}
