package rules

// Rules added after the second round of seeded changes. Each is attached to its property's
// rule set by wrapping the registered Run function (file order: this file initialises last).

import (
	"fmt"
	"go/constant"
	"go/types"
	"strings"

	"golang.org/x/tools/go/ssa"

	. "verif/rcheck/engine"
	"verif/rcheck/luafront"
)

func init() {
	extend := func(id string, expl string, extra func(c *Ctx)) {
		pr := Registry[id]
		if pr == nil {
			panic("round2: unknown property " + id)
		}
		old := pr.Run
		pr.Run = func(c *Ctx) { old(c); extra(c) }
		pr.Explanation += " " + expl
	}
	extend("C01", "(R1.7) every replica base handed to CalculateBatchReplicas / ParseIntegerAsPercentageIfPossible is the workload's spec size, never an observed status count (the workload controller evaluates percentages against spec.replicas); (R1.8) the partition-style Deployment Initialize writes a strategy whose partition is the constant zero on every path — a new release never inherits the partition of an earlier one.", extraC01)
	imp := func(id, from string, mapping map[string]string, expl string) {
		extend(id, expl, func(c *Ctx) {
			importFrom(c, from, mapping)
		})
	}
	imp("C03", "C13", map[string]string{"R13.3": "R3.3g"}, "(R3.3g = C13 R13.3) the Gateway provider's desired/current comparison is not vacuous: the backendRef helpers never alias or edit in place the route object that was read — otherwise a changed weight is 'verified' without ever being written.")
	imp("C03", "C14", map[string]string{"R14.1": "R3.6"}, "(R3.6 = C14 R14.1) every built-in ingress class script clears each key it may set before deciding the current step's values, so the weight / match of an earlier step cannot survive into a step that does not set it.")
	imp("C06", "C05", map[string]string{"R5.2": "R6.6"}, "(R6.6 = C05 R5.2) a multi-write teardown is repaired after a crash or fault between its writes: the paired undo (RestoreHPA, canary Delete) is not guarded by a marker that an earlier write of the same pass already flipped, and is passed on every success return.")
	imp("C07", "C01", map[string]string{"R1.5": "R7.6"}, "(R7.6 = C01 R1.5) target and readiness arithmetic round the same way (roundUp=true at every replica percentage, including the no-op guard of UpgradeBatch): otherwise the update target falls one short of what readiness demands and the batch never becomes ready.")
	extend("C03", "(R3.5) the step's weight reaches the Ingress annotation unmodified: EnsureRoutes scales strategy.traffic against 100 with roundUp, a fresh canary Ingress is created with weight 0, executeLuaForCanary renders exactly that integer (or the -1 sentinel) into the script input, and every built-in class script assigns obj.weight itself to its weight annotation (Gateway: C13 R13.2, custom provider: C15 R15.5).", extraC03)
	extend("C04", "(R4.7) inside the route-withdrawal chain (everything reachable from Manager.RestoreGateway, FinalisingTrafficRouting, RemoveCanaryService and the providers' Finalise) no error of a call that can fail at the API server is lost: a swallowed error reads as 'routes withdrawn' and the canary Service is removed while routes still point at it.", extraC04)
	extend("C14", "(R14.7) no API error of the Ingress provider is lost (a swallowed read error in Finalise reads as 'canary Ingress already gone').", extraC14)
	extend("C05", "(R5.1d) what Initialize saves is merged with what was saved before: the value serialised into the original-setting / deployment-strategy annotation depends on the previously saved annotation, so re-initialising a held-back workload cannot overwrite the user's settings with the hold-back values.", extraC05)
	extend("C07", "(R7.5) a plan change is consumed: every success return of handleRolloutPlanChanged has stored the new rollout hash into the status, otherwise isRolloutPlanChanged stays true and every reconcile re-enters the handler.", extraC07)
	extend("C08", "(R8.6) in the admission closure no map is built and filled but never attached or read (a hold-back value written into an orphan map never reaches the object).", extraC08)
	extend("C09", "(R9.2b) in the validating handler every path from decoding the object to an allowed response passes the spec validator, and on Update every path from decoding the old object passes the update validator; (R9.1g) where a site guards a cursor-derived index against len() itself, the guard is exact (strict upper bound on the index actually used); (R9.1h) the same for every index in pkg/ and api/ whose guard compares it with len() of the very slice it indexes.", extraC09)
	extend("C10", "(R10.5) the transition to the success-finalising reason is reachable from doProgressingInRolling only under the negation of the rollback and supersession predicates; (R10.1c) the finders' rollback detection compares two observed status counters (sibling agreement between the CloneSet and the StatefulSet-like finder).", extraC10)
	extend("C13", "(R13.1b) a canary match that combines one of the rule's own matches with a step match starts from a complete copy of the rule's match (whole-struct copy, or a literal assigning every field of HTTPRouteMatch), so no condition of the original rule (method, path, headers, query) is dropped.", extraC13)
	extend("C15", "(R15.3b) what compareAndUpdateObject writes is the script output: spec and labels handed to the Update derive from the script result and not from the live object, annotations only carry the snapshot annotation over.", extraC15)
	extend("C16", "(R16.6) numbers cross the Lua bridge as float64: no float-to-integer conversion in the bridge package; (R16.7) nothing RunLuaScript calls directly can terminate the process (static call closure including goroutines started by the callee, e.g. LState.SetMx's watchdog calling os.Exit).", extraC16)
	extend("C17", "(R17.5) scaling-event detection reads the desired-replicas annotation of active ReplicaSets only (a retired ReplicaSet keeps a stale annotation and would turn every sync into a scaling event).", extraC17)
	extend("C18", "(R18.5) the canary-style BatchRelease reports its teardown done only after the generated canary Deployments' finalizers were released (Delete passed on every success return, NotFound-to-nil conversions included).", extraC18)
	extend("C19", "(R19.5) no object obtained from a DisableDeepCopy list is written through one of its references (map update, slice element, pointer target), in the listing function, in functions it is passed to, or in callers it is returned to; (R19.3u) a UID used as a shared-cache key is read from an object that a client Get filled in, not from a locally built stub (whose UID is always empty, i.e. one key for everybody).", extraC19)
}

// ---------------------------------------------------------------- C01

func extraC01(c *Ctx) {
	p := c.Prog
	c.Rule("R1.7", "replica bases of plan arithmetic are the spec size, not an observed count", 5)
	c.Rule("R1.8", "partition-style Deployment: a release starts from partition 0", 1)
	for _, fn := range p.RepoFuncs() {
		if !strings.HasPrefix(FuncName(fn), "pkg/controller/batchrelease/control") {
			continue
		}
		for _, ci := range AllCalls(fn) {
			cn := CalleeName(ci.Common())
			var base ssa.Value
			switch {
			case NameMatch(cn, "control.CalculateBatchReplicas"):
				base = ci.Common().Args[1]
			case NameMatch(cn, "control.ParseIntegerAsPercentageIfPossible"):
				base = ci.Common().Args[1]
			default:
				continue
			}
			var bad, good []string
			TermOf(base).Walk(func(t *Term) bool {
				if t.Op == "field" {
					_, path := t.FieldPath()
					ps := strings.Join(path, ".")
					leaf := path[len(path)-1]
					observed := leaf == "Replicas" || leaf == "ReadyReplicas" || leaf == "AvailableReplicas" || leaf == "UpdatedReplicas" || leaf == "UpdatedReadyReplicas" || leaf == "CurrentReplicas"
					if observed && len(path) >= 2 && path[len(path)-2] == "Status" {
						bad = append(bad, ps)
					} else if leaf == "Replicas" {
						good = append(good, ps)
					}
					return false
				}
				return true
			})
			ok := len(bad) == 0 && len(good) > 0
			c.Ob("R1.7", FuncName(fn)+"#base("+shortName(cn)+")", ci.Pos(), ok, "replica base "+TermOf(base).String(), ifs(len(bad) > 0, "the base reads an observed status count ("+strings.Join(bad, ", ")+"): while pods of a scale-down or a surge still exist it is larger than spec.replicas, and the knob admits more new pods than the step allows")+ifs(len(bad) == 0 && len(good) == 0, "the base is not recognisably the workload size"))
		}
	}
	if fn := p.Func("pkg/controller/batchrelease/control/partitionstyle/deployment.realController.Initialize"); fn == nil {
		c.Unresolved("R1.8", "partitionstyle/deployment Initialize")
	} else {
		// the strategy object serialised into the annotation
		var dump ssa.CallInstruction
		for _, ci := range CallsIn(fn, "util.DumpJSON") {
			if strings.Contains(TermOf(ci.Common().Args[0]).String(), "strategy") || dump == nil {
				for x := range BackwardSlice(ci.Common().Args[0]) {
					if a, ok := x.(*ssa.Alloc); ok && strings.HasSuffix(a.Type().String(), "v1alpha1.DeploymentStrategy") {
						dump = ci
					}
				}
			}
		}
		if dump == nil {
			c.Ob("R1.8", "partition/Deployment.Initialize#start-partition", fn.Pos(), false, "strategy written by Initialize", "anchor not found: no DeploymentStrategy is serialised")
		} else {
			zero := false
			detail := "no store of the strategy's Partition precedes the serialisation: it keeps the value decoded from the previous release's annotation"
			for _, b := range fn.Blocks {
				for _, in := range b.Instrs {
					st, ok := in.(*ssa.Store)
					if !ok {
						continue
					}
					fa, ok := st.Addr.(*ssa.FieldAddr)
					if !ok {
						continue
					}
					if n, owner := FieldOf(fa); n != "Partition" || !strings.HasSuffix(owner, "DeploymentStrategy") {
						continue
					}
					if !instrDominates(st, dump.(ssa.Instruction)) {
						continue
					}
					t := TermOf(st.Val)
					isZero := false
					if t.Op == "call" && len(t.Args) == 1 && t.Args[0].Op == "const" && (NameMatch(t.Name, "intstr.FromInt") || NameMatch(t.Name, "intstr.FromInt32")) && t.Args[0].Name == "0" {
						isZero = true
					}
					if t.Op == "call" && len(t.Args) == 1 && t.Args[0].Op == "const" && NameMatch(t.Name, "intstr.FromString") && (t.Args[0].Name == "0" || t.Args[0].Name == "0%") {
						isZero = true
					}
					if isZero {
						zero = true
					} else {
						detail = "Partition is set to " + t.String() + ", not to zero"
					}
				}
			}
			if !zero {
				// equivalent form: the strategy is replaced as a whole by a fresh literal that leaves Partition at its zero value
				for x := range BackwardSlice(dump.Common().Args[0]) {
					a, ok := x.(*ssa.Alloc)
					if !ok || !strings.HasSuffix(a.Type().String(), "v1alpha1.DeploymentStrategy") {
						continue
					}
					for _, st := range AllocStoresOf(a) {
						if st.Addr != ssa.Value(a) || !instrDominates(st, dump.(ssa.Instruction)) {
							continue
						}
						ld, ok := st.Val.(*ssa.UnOp)
						if !ok {
							continue
						}
						lit, ok := ld.X.(*ssa.Alloc)
						if !ok || !strings.Contains(lit.Comment, "complit") {
							continue
						}
						touched := false
						for _, ls := range AllocStoresOf(lit) {
							if fa, ok := ls.Addr.(*ssa.FieldAddr); ok {
								if n, _ := FieldOf(fa); n == "Partition" {
									touched = true
								}
							}
						}
						if !touched {
							zero = true
						}
					}
				}
			}
			c.Ob("R1.8", "partition/Deployment.Initialize#start-partition", dump.Pos(), zero, "the strategy written at the start of a release has partition 0 (no new pods yet)", ifs(!zero, detail))
		}
	}
}

// ---------------------------------------------------------------- C05

func extraC05(c *Ctx) {
	p := c.Prog
	c.Rule("R5.1d", "saved settings survive re-initialisation (what is saved depends on what was saved before)", 3)
	cp := "pkg/controller/batchrelease/control/"
	for _, s := range []struct{ name, fn, getter, annoConstPkg, annoConst string }{
		{"partition/Deployment", cp + "partitionstyle/deployment.realController.Initialize", "util.GetDeploymentStrategy", "github.com/openkruise/rollouts/api/v1alpha1", "DeploymentStrategyAnnotation"},
		{"bluegreen/Deployment", cp + "bluegreenstyle/deployment.realController.patchDeployment", "control.GetOriginalSetting", "github.com/openkruise/rollouts/api/v1beta1", "OriginalDeploymentStrategyAnnotation"},
		{"bluegreen/CloneSet", cp + "bluegreenstyle/cloneset.realController.Initialize", "control.GetOriginalSetting", "github.com/openkruise/rollouts/api/v1beta1", "OriginalDeploymentStrategyAnnotation"},
	} {
		fn := p.Func(s.fn)
		k := p.ConstObj(s.annoConstPkg, s.annoConst)
		if fn == nil || k == nil {
			c.Unresolved("R5.1d", s.fn)
			continue
		}
		found := false
		for _, ci := range CallsIn(fn, "patch.CommonPatch.InsertAnnotation") {
			key, ok := ci.Common().Args[1].(*ssa.Const)
			if !ok || key.Value == nil || constant.StringVal(key.Value) != ConstVal(k) {
				continue
			}
			found = true
			ok2 := SliceHas(ci.Common().Args[2], MCall(s.getter))
			c.Ob("R5.1d", s.name+"#save-merges-previous", ci.Pos(), ok2, "the saved settings are computed from the previously saved ones ("+s.getter+")",
				ifs(!ok2, "the annotation is written without reading the previous one: a second Initialize on a workload that is already held back saves the hold-back values as if they were the user's"))
		}
		if !found {
			c.Ob("R5.1d", s.name+"#save-merges-previous", fn.Pos(), false, "save site", "anchor not found: the annotation "+s.annoConst+" is not inserted here")
		}
	}
}

// ---------------------------------------------------------------- C07

func extraC07(c *Ctx) {
	p := c.Prog
	c.Rule("R7.5", "a plan change is consumed: the status hash is refreshed on every success return of the handler", 1)
	fn := p.Func("pkg/controller/rollout.RolloutReconciler.handleRolloutPlanChanged")
	if fn == nil {
		c.Unresolved("R7.5", "handleRolloutPlanChanged")
		return
	}
	isHash := func(in ssa.Instruction) bool {
		st, ok := in.(*ssa.Store)
		if !ok {
			return false
		}
		fa, ok := st.Addr.(*ssa.FieldAddr)
		if !ok {
			return false
		}
		n, _ := FieldOf(fa)
		return n == "RolloutHash" && TermOf(st.Val).Any(func(t *Term) bool { return t.Op == "lookup" })
	}
	n := mustPassOnSuccess(c, "R7.5", "handleRolloutPlanChanged#hash-refreshed", fn, isHash, "success only after status.rolloutHash was set from the rollout-hash annotation")
	if n < 1 { // (a single-exit form has one success return for both the step-ready and the jump case)
		c.Ob("R7.5", "handleRolloutPlanChanged#success-returns", fn.Pos(), false, "success returns of the handler", fmt.Sprintf("found %d", n))
	}
}

// ---------------------------------------------------------------- C08

func extraC08(c *Ctx) {
	p := c.Prog
	c.Rule("R8.6", "no map is filled and then dropped in the admission closure", 1)
	var roots []*ssa.Function
	for _, n := range []string{"pkg/webhook/workload/mutating.WorkloadHandler.Handle", "pkg/webhook/workload/mutating.UnifiedWorkloadHandler.Handle"} {
		if f := p.Func(n); f != nil {
			roots = append(roots, f)
		} else {
			c.Unresolved("R8.6", n)
		}
	}
	scanned, orphans := 0, 0
	for fn := range p.ReachableFrom(roots...) {
		for _, b := range fn.Blocks {
			for _, in := range b.Instrs {
				mm, ok := in.(*ssa.MakeMap)
				if !ok {
					continue
				}
				scanned++
				written, used := false, false
				seen := map[ssa.Value]bool{}
				var visit func(v ssa.Value)
				visit = func(v ssa.Value) {
					if seen[v] || v.Referrers() == nil {
						return
					}
					seen[v] = true
					for _, r := range *v.Referrers() {
						switch x := r.(type) {
						case *ssa.MapUpdate:
							if x.Map == v {
								written = true
							} else {
								used = true // stored into another map
							}
						case *ssa.Phi:
							visit(x)
						case *ssa.ChangeType:
							visit(x)
						case *ssa.DebugRef:
						default:
							used = true // read, passed, returned, stored, converted to interface, ...
						}
					}
				}
				visit(mm)
				if written && !used {
					orphans++
					c.Ob("R8.6", FuncName(fn)+"#orphan-map", mm.Pos(), false, "a map is filled but never attached, read or returned", "values written into this map are lost: if it carries a hold-back knob (partition, paused) the admitted object is not held back")
				}
			}
		}
	}
	c.Ob("R8.6", "admission-closure#maps", 0, orphans == 0 && scanned >= 3, fmt.Sprintf("%d map constructions in the admission closure, none orphaned", scanned), ifs(scanned < 3, "fewer maps than expected: the closure is no longer seen"))
}

// ---------------------------------------------------------------- C09

func extraC09(c *Ctx) {
	p := c.Prog
	c.Rule("R9.2b", "every allowed admission response has passed the spec validator, and on Update the update validator", 4)
	c.Rule("R9.1g", "a local len() guard of a cursor-derived index is exact", 1)
	c.Rule("R9.1h", "every index guarded against len() of the slice it indexes is guarded strictly (repository-wide)", 3)
	checkLenGuards(c)
	if fn := p.Func("pkg/webhook/rollout/validating.RolloutCreateUpdateHandler.Handle"); fn == nil {
		c.Unresolved("R9.2b", "RolloutCreateUpdateHandler.Handle")
	} else {
		isAllow := func(in ssa.Instruction) bool {
			ci, ok := in.(ssa.CallInstruction)
			if !ok {
				return false
			}
			cn := CalleeName(ci.Common())
			if NameMatch(cn, "admission.Allowed") {
				return true
			}
			if NameMatch(cn, "admission.ValidationResponse") {
				k, isC := ci.Common().Args[0].(*ssa.Const)
				return !isC || constText(k) == "true"
			}
			return false
		}
		calls := func(sub ...string) func(ssa.Instruction) bool {
			return func(in ssa.Instruction) bool {
				ci, ok := in.(ssa.CallInstruction)
				if !ok {
					return false
				}
				cn := CalleeName(ci.Common())
				for _, s := range sub {
					if strings.HasSuffix(cn, "."+s) {
						return true
					}
				}
				return false
			}
		}
		for _, ci := range AllCalls(fn) {
			cn := CalleeName(ci.Common())
			switch {
			case strings.HasSuffix(cn, "Decoder.DecodeRaw"):
				reach, _ := CanReach(PointAfter(ci.(ssa.Instruction)), isAllow, ReachOpts{CutInstr: calls("validateRolloutUpdate", "validateV1alpha1RolloutUpdate")})
				c.Ob("R9.2b", "Handle#update-validated", ci.Pos(), !reach, "an Update is allowed only after the update validator ran", ifs(reach, "an allowed response is reachable after decoding the old object without validate…Update: immutability during a release (style annotation, workload reference, step count) is not enforced on that path"))
			case strings.HasSuffix(cn, "Decoder.Decode"):
				reach, _ := CanReach(PointAfter(ci.(ssa.Instruction)), isAllow, ReachOpts{CutInstr: calls("validateRollout", "validateV1alpha1Rollout")})
				c.Ob("R9.2b", "Handle#spec-validated", ci.Pos(), !reach, "an object is allowed only after the spec validator ran", ifs(reach, "an allowed response is reachable after decoding the object without the spec validator"))
			}
		}
	}
	// R9.1g
	for _, fn := range p.RepoFuncs() {
		name := FuncName(fn)
		if !(strings.HasPrefix(name, "pkg/controller/") || strings.HasPrefix(name, "pkg/trafficrouting")) {
			continue
		}
		for _, b := range fn.Blocks {
			for _, in := range b.Instrs {
				ia, ok := in.(*ssa.IndexAddr)
				if !ok {
					continue
				}
				cursor := false
				for v := range BackwardSlice(ia.Index) {
					if u, ok := v.(*ssa.UnOp); ok {
						if fa, ok := u.X.(*ssa.FieldAddr); ok {
							if n, _ := FieldOf(fa); n == "CurrentStepIndex" || n == "NextStepIndex" || n == "CurrentBatch" {
								cursor = true
							}
						}
					}
				}
				if !cursor {
					continue
				}
				idx := stripConv(TermOf(ia.Index)).String()
				var lenFacts []Fact
				for _, f := range FactsAtInstr(in) {
					l, r := stripConv(f.L).String(), stripConv(f.R).String()
					if (l == idx && f.R.Any(MLen(MAny()))) || (r == idx && f.L.Any(MLen(MAny()))) {
						lenFacts = append(lenFacts, f)
					}
				}
				if len(lenFacts) == 0 {
					continue // no local guard on this very value: discharged by the protocol rules of R9.1
				}
				exact := false
				for _, f := range lenFacts {
					l := stripConv(f.L).String()
					if (l == idx && f.Op == "<") || (l != idx && f.Op == ">") {
						exact = true
					}
				}
				c.Ob("R9.1g", name+"#len-guard", ia.Pos(), exact, "index "+idx+" is guarded against len() at the site", ifs(!exact, "the guard relating the index to len() is not a strict upper bound ("+strings.Join(FactStrings(lenFacts), "; ")+"): index == len panics")).WithFacts(lenFacts)
			}
		}
	}
}

// checkLenGuards: R9.1h — wherever an index (or slice bound) is compared with len() of the very
// slice it indexes, the comparison that guards the access must exclude index == len.
func checkLenGuards(c *Ctx) {
	p := c.Prog
	n := 0
	for _, fn := range p.RepoFuncs() {
		name := FuncName(fn)
		if !(strings.HasPrefix(name, "pkg/") || strings.HasPrefix(name, "api/")) || strings.HasPrefix(name, "pkg/controller/deployment") {
			continue
		}
		for _, b := range fn.Blocks {
			for _, in := range b.Instrs {
				var base, index ssa.Value
				switch x := in.(type) {
				case *ssa.IndexAddr:
					base, index = x.X, x.Index
				case *ssa.Index:
					base, index = x.X, x.Index
				default:
					continue
				}
				if _, isConst := index.(*ssa.Const); isConst {
					continue
				}
				if isRangeIndex(index) {
					continue // compiler-generated range loop: strict by construction
				}
				idxT := stripConv(TermOf(index))
				idx := idxT.String()
				bs := TermOf(base).String()
				// terms are position-free: two loop counters print alike, so identity is by SSA value
				// where both sides have one
				isIdx := func(t *Term) bool {
					if t.V != nil && idxT.V != nil {
						return t.V == idxT.V
					}
					return t.String() == idx
				}
				var rel []Fact
				for _, f := range FactsAtInstr(in) {
					l, r := stripConv(f.L), stripConv(f.R)
					isLenOfBase := func(t *Term) bool {
						return t.Op == "len" && t.Name == "len" && len(t.Args) == 1 && t.Args[0].String() == bs
					}
					if (isIdx(l) && isLenOfBase(r)) || (isIdx(r) && isLenOfBase(l)) {
						rel = append(rel, f)
					}
				}
				if len(rel) == 0 {
					continue
				}
				n++
				exact := false
				for _, f := range rel {
					lIsIdx := isIdx(stripConv(f.L))
					if (lIsIdx && f.Op == "<") || (!lIsIdx && f.Op == ">") {
						exact = true
					}
				}
				c.Ob("R9.1h", name+"#len-guard", in.Pos(), exact, "index "+idx+" into "+bs+" is guarded against len("+bs+")", ifs(!exact, "the guard is not a strict upper bound ("+strings.Join(FactStrings(rel), "; ")+"): index == len panics")).WithFacts(rel)
			}
		}
	}
	c.Extra["len_guarded_index_sites"] = n
}

// isRangeIndex recognises go/ssa's lowering of `for i := range s`: i = phi(-1, i) + 1.
func isRangeIndex(v ssa.Value) bool {
	b, ok := v.(*ssa.BinOp)
	if !ok || b.Op.String() != "+" {
		return false
	}
	if k, ok := b.Y.(*ssa.Const); !ok || constText(k) != "1" {
		return false
	}
	phi, ok := b.X.(*ssa.Phi)
	if !ok {
		return false
	}
	for _, e := range phi.Edges {
		if k, ok := e.(*ssa.Const); ok && constText(k) == "-1" {
			return true
		}
	}
	return false
}

func stripConv(t *Term) *Term {
	for t != nil && (t.Op == "convert" || (t.Op == "unop" && t.Name == "convert") || t.Op == "changetype") && len(t.Args) == 1 {
		t = t.Args[0]
	}
	return t
}

// ---------------------------------------------------------------- C10

func extraC10(c *Ctx) {
	p := c.Prog
	c.Rule("R10.5", "success finalising is entered only when no rollback / supersession predicate holds", 1)
	c.Rule("R10.1c", "rollback detection in the finders compares two status counters", 2)
	pst := p.Func("pkg/controller/rollout.progressingStateTransition")
	kFin := p.ConstObj("api/v1alpha1", "ProgressingReasonFinalising")
	if pst == nil || kFin == nil {
		c.Unresolved("R10.5", "progressingStateTransition / ProgressingReasonFinalising")
	} else {
		n := 0
		for _, cs := range p.Callers(pst) {
			if len(cs.Args) < 3 {
				continue
			}
			if r := TermOf(cs.Args[2]); !(r.Op == "const" && r.Name == ConstVal(kFin)) {
				continue
			}
			var facts [][]Fact
			if cs.Caller.Name() == "doProgressingInRolling" {
				facts = append(facts, FactsAtInstr(cs.Instr))
			} else {
				for _, cp := range p.CallPaths(cs.Caller, func(f *ssa.Function) bool { return f.Name() == "doProgressingInRolling" }, 3) {
					facts = append(facts, PathFacts(cp, cs.Instr))
				}
			}
			if len(facts) == 0 {
				continue // not beneath the rolling dispatcher (e.g. the initial transition)
			}
			n++
			ok := true
			var missing []string
			for _, fs := range facts {
				for _, pred := range []string{"rollout.isRollingBackDirectly", "rollout.isRollingBackInBatches", "rollout.isContinuousRelease"} {
					if !HasFact(fs, FFalse(MCall(pred))) {
						ok = false
						missing = append(missing, shortName(pred)+"()==false")
					}
				}
			}
			c.Ob("R10.5", FuncName(cs.Caller)+"#transition(Finalising)", cs.Instr.Pos(), ok, "the release is closed as a success only when it is neither rolled back nor superseded",
				ifs(!ok, "reachable without "+strings.Join(missing, ", ")+": a rollback or a new revision observed in the Completed sub-state would be finalised as a success (traffic stays on the canary, Succeeded=True)"))
		}
		if n == 0 {
			c.Ob("R10.5", "transition(Finalising)", 0, false, "success-finalising transition beneath doProgressingInRolling", "anchor not found")
		}
	}
	for _, fnName := range []string{"pkg/util.ControllerFinder.getKruiseCloneSet", "pkg/util.ControllerFinder.getStatefulSetLikeWorkload"} {
		fn := p.Func(fnName)
		if fn == nil {
			c.Unresolved("R10.1c", fnName)
			continue
		}
		found := false
		for _, st := range StoresToField(fn, func(fa *ssa.FieldAddr) bool { n, _ := FieldOf(fa); return n == "IsInRollback" }) {
			if v, isC := StoredConst(st); !isC || v != "true" {
				continue
			}
			found = true
			fs := FactsAtInstr(st)
			under := func(t *Term, leaf string) bool {
				if t.Op != "field" || t.Name != leaf {
					return false
				}
				_, path := t.FieldPath()
				return len(path) >= 2 && path[len(path)-2] == "Status"
			}
			_ = under
			status := func(t *Term) bool {
				if t.Op != "field" {
					return false
				}
				_, path := t.FieldPath()
				return len(path) >= 2 && path[len(path)-2] == "Status" && strings.Contains(path[len(path)-1], "Replicas")
			}
			ok := HasFact(fs, func(f Fact) bool { return f.Op == "!=" && status(f.L) && status(f.R) })
			c.Ob("R10.1c", shortName(fnName)+"#rollback-detected", st.Pos(), ok, "rollback = revisions equal and two observed status counters differ", ifs(!ok, "the counter comparison is not between two status counters: with surged pods (blue-green) a revert is then read as a new release and refused")).WithFacts(fs)
		}
		if !found {
			c.Ob("R10.1c", shortName(fnName)+"#rollback-detected", fn.Pos(), false, "IsInRollback = true", "anchor not found")
		}
	}
}

// ---------------------------------------------------------------- C15

func extraC15(c *Ctx) {
	p := c.Prog
	c.Rule("R15.3b", "compareAndUpdateObject writes the script output, not the live object's previous values", 2)
	fn := p.Func("pkg/trafficrouting/network/customNetworkProvider.customController.compareAndUpdateObject")
	if fn == nil {
		c.Unresolved("R15.3b", "compareAndUpdateObject")
		return
	}
	fromLive := func(v ssa.Value, getter string) bool {
		for x := range BackwardSlice(v) {
			if call, ok := x.(*ssa.Call); ok && strings.HasSuffix(CalleeName(&call.Call), "."+getter) {
				return true
			}
		}
		return false
	}
	fromData := func(v ssa.Value) bool {
		return SliceHas(v, func(t *Term) bool { return t.Op == "param" && t.Name == "data" })
	}
	n := 0
	// v, an operand of the instruction pr.in, seen from compareAndUpdateObject: itself when the
	// instruction is its own; for an instruction of a same-package helper, the arguments passed
	// for the helper parameters v is computed from
	seenFrom := func(v ssa.Value, pr instrAt) []ssa.Value {
		if pr.in == pr.site {
			return []ssa.Value{v}
		}
		call, ok := pr.site.(ssa.CallInstruction)
		if !ok {
			return nil
		}
		h := call.Common().StaticCallee()
		var out []ssa.Value
		sl := BackwardSlice(v)
		for i, hp := range h.Params {
			if sl[hp] && i < len(call.Common().Args) {
				out = append(out, call.Common().Args[i])
			}
		}
		return out
	}
	specLive := func(v ssa.Value) bool {
		for x := range BackwardSlice(v) {
			if lk, ok := x.(*ssa.Lookup); ok {
				if k, isC := lk.Index.(*ssa.Const); isC && k.Value != nil && k.Value.Kind() == constant.String && constant.StringVal(k.Value) == "spec" {
					return true
				}
			}
		}
		return false
	}
	for _, pr := range withHelperInstrs(fn) {
		// labels
		if ci, isCall := pr.in.(ssa.CallInstruction); isCall && strings.HasSuffix(CalleeName(ci.Common()), "Unstructured.SetLabels") {
			n++
			vs := seenFrom(ci.Common().Args[1], pr)
			ok := len(vs) > 0
			for _, v := range vs {
				if !(fromData(v) && !fromLive(v, "GetLabels")) {
					ok = false
				}
			}
			if pr.in != pr.site && fromLive(ci.Common().Args[1], "GetLabels") {
				ok = false
			}
			c.Ob("R15.3b", "compareAndUpdateObject#labels", pr.site.Pos(), ok, "labels written = labels returned by the script", ifs(!ok, "the labels written depend on the live object's labels (or not on the script result): labels of an earlier step survive into later steps"))
			continue
		}
		// spec: obj["spec"] = v, or SetNestedMap / SetNestedField(obj, v, "spec")
		var specVal ssa.Value
		switch x := pr.in.(type) {
		case *ssa.MapUpdate:
			if k, isC := x.Key.(*ssa.Const); isC && k.Value != nil && k.Value.Kind() == constant.String && constant.StringVal(k.Value) == "spec" {
				specVal = x.Value
			}
		case ssa.CallInstruction:
			cn := CalleeName(x.Common())
			if (strings.HasSuffix(cn, "unstructured.SetNestedMap") || strings.HasSuffix(cn, "unstructured.SetNestedField")) && len(x.Common().Args) >= 3 &&
				SliceHasDeep(x.Common().Args[2], func(t *Term) bool { return t.Op == "const" && strings.Trim(t.Name, "`\"") == "spec" }) {
				specVal = x.Common().Args[1]
			}
		}
		if specVal == nil {
			continue
		}
		n++
		vs := seenFrom(specVal, pr)
		ok2 := len(vs) > 0
		for _, v := range vs {
			if !(fromData(v) && !specLive(v)) {
				ok2 = false
			}
		}
		if pr.in != pr.site && specLive(specVal) {
			ok2 = false
		}
		c.Ob("R15.3b", "compareAndUpdateObject#spec", pr.site.Pos(), ok2, "spec written = spec returned by the script", ifs(!ok2, "the spec written depends on the live object's spec"))
	}
	if n < 2 {
		c.Ob("R15.3b", "compareAndUpdateObject#writes", fn.Pos(), false, "spec and labels writes", fmt.Sprintf("found %d of 2", n))
	}
}

// ---------------------------------------------------------------- C16

func extraC16(c *Ctx) {
	p := c.Prog
	c.Rule("R16.6", "no float-to-integer conversion in the Lua bridge", 1)
	c.Rule("R16.7", "nothing RunLuaScript calls directly can terminate the process", 5)
	conv, bad := 0, 0
	for _, fn := range p.RepoFuncs() {
		if !strings.HasPrefix(FuncName(fn), "pkg/util/luamanager") {
			continue
		}
		for _, b := range fn.Blocks {
			for _, in := range b.Instrs {
				cv, ok := in.(*ssa.Convert)
				if !ok {
					continue
				}
				src, sok := cv.X.Type().Underlying().(*types.Basic)
				dst, dok := cv.Type().Underlying().(*types.Basic)
				if !sok || !dok || src.Info()&types.IsNumeric == 0 || dst.Info()&types.IsNumeric == 0 {
					continue
				}
				conv++
				if src.Info()&types.IsFloat != 0 && dst.Info()&types.IsInteger != 0 {
					bad++
					c.Ob("R16.6", FuncName(fn)+"#float-to-int", cv.Pos(), false, "numeric conversion "+src.String()+" -> "+dst.String(), "a Lua number (float64) is narrowed to an integer: values beyond the integer range and infinities silently become a different number")
				}
			}
		}
	}
	c.Ob("R16.6", "luamanager#numeric-conversions", 0, bad == 0 && conv >= 1, fmt.Sprintf("%d numeric conversions in the bridge, none narrows a float", conv), ifs(conv < 1, "no numeric conversion seen: the bridge is no longer analysed"))

	run := p.Func("pkg/util/luamanager.LuaManager.RunLuaScript")
	if run == nil {
		c.Unresolved("R16.7", "RunLuaScript")
		return
	}
	isExit := func(name string) bool {
		return name == "os.Exit" || name == "syscall.Exit" || strings.HasPrefix(name, "log.Fatal") || name == "runtime.Goexit"
	}
	seenCallee := map[*ssa.Function]bool{}
	for _, ci := range AllCalls(run) {
		callee := ci.Common().StaticCallee()
		if callee == nil || seenCallee[callee] || callee.Pkg == nil || isStdPkg(callee.Pkg.Pkg.Path()) {
			continue
		}
		seenCallee[callee] = true
		if n := callee.Name(); n == "DoString" || n == "DoFile" || n == "PCall" || n == "CallByParam" || n == "Call" {
			continue // enters the VM: what the VM can do is R16.1 (registered functions)
		}
		chain := stdReach(callee, isExit, map[*ssa.Function]bool{}, 0)
		c.Ob("R16.7", "RunLuaScript#callee("+shortName(FuncName(callee))+")", ci.Pos(), chain == nil, "callee cannot terminate the process", ifs(chain != nil, "reaches "+strings.Join(chain, " -> ")+": the controller exits instead of returning an error for one rollout"))
	}
}

// stdReach returns a static call chain from fn to a standard-library function whose name satisfies pred.
func stdReach(fn *ssa.Function, pred func(string) bool, seen map[*ssa.Function]bool, depth int) []string {
	if fn == nil || seen[fn] || depth > 10 {
		return nil
	}
	seen[fn] = true
	for _, b := range fn.Blocks {
		for _, in := range b.Instrs {
			ci, ok := in.(ssa.CallInstruction)
			if !ok {
				continue
			}
			callee := ci.Common().StaticCallee()
			if callee == nil {
				// go func(){...}() / defer of a closure
				if mc, ok := ci.Common().Value.(*ssa.MakeClosure); ok {
					if f, ok := mc.Fn.(*ssa.Function); ok {
						if chain := stdReach(f, pred, seen, depth+1); chain != nil {
							return append([]string{FuncName(fn)}, chain...)
						}
					}
				}
				continue
			}
			var pkgPath string
			if callee.Pkg != nil {
				pkgPath = callee.Pkg.Pkg.Path()
			} else if callee.Object() != nil && callee.Object().Pkg() != nil {
				pkgPath = callee.Object().Pkg().Path()
			}
			name := FuncName(callee)
			if isStdPkg(pkgPath) {
				if pred(name) {
					return []string{FuncName(fn), name}
				}
				continue
			}
			if chain := stdReach(callee, pred, seen, depth+1); chain != nil {
				return append([]string{FuncName(fn)}, chain...)
			}
		}
	}
	for _, an := range fn.AnonFuncs {
		if chain := stdReach(an, pred, seen, depth+1); chain != nil {
			return append([]string{FuncName(fn)}, chain...)
		}
	}
	return nil
}

// ---------------------------------------------------------------- C17

func extraC17(c *Ctx) {
	p := c.Prog
	c.Rule("R17.5", "scaling-event detection looks at active ReplicaSets only", 1)
	fn := p.Func("pkg/controller/deployment.DeploymentController.isScalingEvent")
	if fn == nil {
		c.Unresolved("R17.5", "isScalingEvent")
		return
	}
	calls := CallsIn(fn, "util.GetReplicasAnnotation")
	if len(calls) == 0 {
		c.Ob("R17.5", "isScalingEvent#annotation-read", fn.Pos(), false, "desired-replicas annotation read", "anchor not found")
	}
	for _, ci := range calls {
		ok := SliceHas(ci.Common().Args[0], MCall("util.FilterActiveReplicaSets"))
		c.Ob("R17.5", "isScalingEvent#annotation-read", ci.Pos(), ok, "the annotation is read from ReplicaSets filtered by FilterActiveReplicaSets", ifs(!ok, "retired (0-replica) ReplicaSets are consulted: their desired-replicas annotation is never refreshed, so after any resize every later sync is a 'scaling event' and the rolling limits are bypassed by proportional scaling"))
	}
}

// ---------------------------------------------------------------- C18

func extraC18(c *Ctx) {
	p := c.Prog
	c.Rule("R18.5", "canary-style teardown reports done only after the canary Deployments' finalizers were released", 1)
	fin := p.Func("pkg/controller/batchrelease/control/canarystyle.realCanaryController.Finalize")
	if fin == nil {
		c.Unresolved("R18.5", "canarystyle control plane Finalize")
		return
	}
	isDelete := MustDo(func(in ssa.Instruction) bool {
		ci, ok := in.(ssa.CallInstruction)
		return ok && ci.Common().IsInvoke() && ci.Common().Method.Name() == "Delete" && strings.Contains(ci.Common().Value.Type().String(), "CanaryInterface")
	})
	found := false
	for _, ci := range AllCalls(fin) {
		if isDelete(ci.(ssa.Instruction)) {
			found = true
		}
	}
	c.Ob("R18.5", "canary/control-plane#Delete-called", fin.Pos(), found, "Finalize releases the canary Deployments", ifs(!found, "no canary Delete call"))
	mustPassOnSuccess(c, "R18.5", "canary/control-plane#Delete", fin, isDelete, "success only after the canary Deployments' finalizers were removed")
}

// ---------------------------------------------------------------- C19

func extraC19(c *Ctx) {
	p := c.Prog
	c.Rule("R19.3u", "a UID used as a cache key belongs to an object filled in by a client Get", 3)
	c.Rule("R19.5", "objects listed with DisableDeepCopy are not written through their references (maps, slices, pointers shared with the informer cache)", 1)
	{
		writes, lists := SharedCacheWrites(p)
		c.Extra["no_deep_copy_lists"] = lists
		for _, w := range writes {
			c.Ob("R19.5", FuncName(w.Fn)+"#shared-write", w.Instr.Pos(), false, "write through a reference of a shared-cache object", w.What+" ("+w.Via+"): the informer cache is modified in place while other workers read it")
		}
		c.Ob("R19.5", "no-deep-copy-lists", 0, lists >= 8, fmt.Sprintf("%d List calls with DisableDeepCopy followed through locals, results and callees (summaries to a fixed point)", lists), ifs(lists < 8, "fewer no-deep-copy lists than the 11 of the pinned tree: the rule no longer sees them"))
	}
	for _, fn := range p.RepoFuncs() {
		if strings.Contains(FuncName(fn), "pkg/util/grace") {
			continue
		}
		for _, ci := range AllCalls(fn) {
			if !NameMatch(CalleeName(ci.Common()), "grace.RunWithGraceSeconds") {
				continue
			}
			for x := range BackwardSlice(ci.Common().Args[0]) {
				fa, ok := x.(*ssa.FieldAddr)
				if !ok {
					continue
				}
				if n, _ := FieldOf(fa); n != "UID" {
					continue
				}
				root := rootOfObject(fa.X)
				// a variable captured by the grace closure lives in a cell: look through it
				for i := 0; i < 4; i++ {
					cell, ok := root.(*ssa.Alloc)
					if !ok {
						break
					}
					if _, isPtr := cell.Type().(*types.Pointer).Elem().Underlying().(*types.Pointer); !isPtr {
						break
					}
					sts := AllocStoresOf(cell)
					if len(sts) != 1 {
						break
					}
					root = rootOfObject(sts[0].Val)
				}
				al, isAlloc := root.(*ssa.Alloc)
				if !isAlloc {
					c.Ob("R19.3u", FuncName(fn)+"#uid-source", ci.Pos(), true, "UID of an object received from the caller ("+TermOf(root).String()+")", "")
					continue
				}
				fetched := false
				for _, g := range AllCalls(fn) {
					if !(g.Common().IsInvoke() && g.Common().Method.Name() == "Get") {
						continue
					}
					for _, a := range g.Common().Args {
						ra := rootOfObject(a)
						for i := 0; i < 4; i++ {
							cell, ok := ra.(*ssa.Alloc)
							if !ok || cell == al {
								break
							}
							if _, isPtr := cell.Type().(*types.Pointer).Elem().Underlying().(*types.Pointer); !isPtr {
								break
							}
							sts := AllocStoresOf(cell)
							if len(sts) != 1 {
								break
							}
							ra = rootOfObject(sts[0].Val)
						}
						if ra == ssa.Value(al) && instrDominates(g.(ssa.Instruction), ci.(ssa.Instruction)) {
							fetched = true
						}
					}
				}
				c.Ob("R19.3u", FuncName(fn)+"#uid-source", ci.Pos(), fetched, "UID of a locally declared object", ifs(!fetched, "the object whose UID keys the timer is built locally and never fetched: its UID is empty, so every rollout shares this one key"))
			}
		}
	}
}

// ---------------------------------------------------------------- C13

func extraC13(c *Ctx) {
	p := c.Prog
	c.Rule("R13.1b", "combined canary matches keep every condition of the rule's own match", 1)
	fn := p.Func("pkg/trafficrouting/network/gateway.gatewayController.buildCanaryHeaderHttpRoutes")
	if fn == nil {
		c.Unresolved("R13.1b", "buildCanaryHeaderHttpRoutes")
		return
	}
	fromRuleMatches := func(v ssa.Value) bool {
		for x := range BackwardSlice(v) {
			if fa, ok := x.(*ssa.FieldAddr); ok {
				if n, owner := FieldOf(fa); n == "Matches" && strings.HasSuffix(owner, "HTTPRouteRule") {
					return true
				}
			}
		}
		return false
	}
	// the combination may be done by a helper of the package: there the rule's matches are the
	// parameter that every call site fills with them
	fromRuleMatches0 := fromRuleMatches
	fromRuleMatches = func(v ssa.Value) bool {
		if fromRuleMatches0(v) {
			return true
		}
		sl := BackwardSlice(v)
		var g *ssa.Function
		for x := range sl {
			if par, ok := x.(*ssa.Parameter); ok {
				g = par.Parent()
			}
		}
		if g == nil || g == fn {
			return false
		}
		for i, par := range g.Params {
			if !sl[par] {
				continue
			}
			sites := p.Callers(g)
			all := len(sites) > 0
			for _, cs := range sites {
				if cs.Args == nil || i >= len(cs.Args) || !fromRuleMatches0(cs.Args[i]) {
					all = false
				}
			}
			if all {
				return true
			}
		}
		return false
	}
	n := 0
	var scanBlocks []*ssa.BasicBlock
	for _, g := range samePkgClosure(p, fn) {
		scanBlocks = append(scanBlocks, g.Blocks...)
	}
	for _, b := range scanBlocks {
		for _, in := range b.Instrs {
			al, ok := in.(*ssa.Alloc)
			if !ok {
				continue
			}
			st, ok := al.Type().(*types.Pointer).Elem().Underlying().(*types.Struct)
			if !ok || !strings.HasSuffix(al.Type().String(), "HTTPRouteMatch") {
				continue
			}
			whole, fields, dep := false, map[string]bool{}, false
			for _, s := range AllocStoresOf(al) {
				if fromRuleMatches(s.Val) {
					dep = true
				}
				if s.Addr == ssa.Value(al) {
					if _, isLoad := s.Val.(*ssa.UnOp); isLoad && fromRuleMatches(s.Val) {
						whole = true
					}
					continue
				}
				if fa, ok := s.Addr.(*ssa.FieldAddr); ok && fa.X == ssa.Value(al) {
					fields[st.Field(fa.Field).Name()] = true
				}
			}
			if !dep {
				continue // built from the step's own match only
			}
			n++
			var missing []string
			for i := 0; i < st.NumFields(); i++ {
				if !fields[st.Field(i).Name()] {
					missing = append(missing, st.Field(i).Name())
				}
			}
			ok2 := whole || len(missing) == 0
			c.Ob("R13.1b", "buildCanaryHeaderHttpRoutes#combined-match", al.Pos(), ok2, "the combined match starts from a complete copy of the rule's own match", ifs(!ok2, "the combined match is assembled field by field and leaves out "+strings.Join(missing, ", ")+": the canary rule accepts requests the original rule never accepted"))
		}
	}
	if n == 0 {
		c.Ob("R13.1b", "buildCanaryHeaderHttpRoutes#combined-match", fn.Pos(), false, "a match combined from the rule's own matches", "anchor not found")
	}
}

// ---------------------------------------------------------------- C04 / C14: error discipline of the traffic teardown

func apiReaching(p *Program) (map[*ssa.Function]bool, func(ssa.CallInstruction) bool) {
	api := map[*ssa.Function]bool{}
	isClient := func(ci ssa.CallInstruction) bool {
		return strings.Contains(CalleeName(ci.Common()), "controller-runtime/pkg/client.")
	}
	for changed := true; changed; {
		changed = false
		for _, fn := range p.RepoFuncs() {
			if api[fn] {
				continue
			}
			for _, ci := range AllCalls(fn) {
				hit := isClient(ci)
				for _, cal := range p.Callees(ci) {
					if api[cal] {
						hit = true
					}
				}
				if hit {
					api[fn] = true
					changed = true
					break
				}
			}
		}
	}
	return api, func(ci ssa.CallInstruction) bool {
		if isClient(ci) {
			return true
		}
		for _, cal := range p.Callees(ci) {
			if api[cal] {
				return true
			}
		}
		return false
	}
}

func extraC04(c *Ctx) {
	p := c.Prog
	c.Rule("R4.7", "no API error is lost inside the route-withdrawal chain", 12)
	var roots []*ssa.Function
	for _, n := range []string{"pkg/trafficrouting.Manager.RestoreGateway", "pkg/trafficrouting.Manager.FinalisingTrafficRouting", "pkg/trafficrouting.Manager.RemoveCanaryService", "pkg/trafficrouting.Manager.RestoreStableService"} {
		if f := p.Func(n); f != nil {
			roots = append(roots, f)
		} else {
			c.Unresolved("R4.7", n)
		}
	}
	closure := p.ReachableFrom(roots...)
	_, sel := apiReaching(p)
	checkErrorDisciplineF(c, "R4.7", func(fn *ssa.Function) bool { return closure[fn] }, sel)
}

func extraC14(c *Ctx) {
	p := c.Prog
	c.Rule("R14.7", "no API error of the Ingress provider is lost", 6)
	_, sel := apiReaching(p)
	checkErrorDisciplineF(c, "R14.7", func(fn *ssa.Function) bool {
		return strings.HasPrefix(FuncName(fn), "pkg/trafficrouting/network/ingress.")
	}, sel)
}

// ---------------------------------------------------------------- C03: R3.5 (Ingress)

func extraC03(c *Ctx) {
	p := c.Prog
	c.Rule("R3.5", "the step's weight reaches the Ingress annotation unmodified", 5)
	ens := p.Func("pkg/trafficrouting/network/ingress.ingressController.EnsureRoutes")
	exe := p.Func("pkg/trafficrouting/network/ingress.ingressController.executeLuaForCanary")
	if ens == nil || exe == nil {
		c.Unresolved("R3.5", "ingress EnsureRoutes / executeLuaForCanary")
		return
	}
	// the calls may sit in EnsureRoutes or in helpers extracted from it (same package)
	var luaCalls []ssa.CallInstruction
	for _, f := range samePkgClosure(p, ens) {
		if f != exe {
			luaCalls = append(luaCalls, CallsIn(f, "ingress.ingressController.executeLuaForCanary")...)
		}
	}
	for _, ci := range luaCalls {
		w := ci.Common().Args[2]
		t := TermOf(w)
		if t.Op == "call" && NameMatch(t.Name, "pointer.Int32") && len(t.Args) == 1 && t.Args[0].Op == "const" {
			ok := t.Args[0].Name == "0"
			c.Ob("R3.5", "ingress.EnsureRoutes#create-weight", ci.Pos(), ok, "a new canary Ingress starts with weight 0", ifs(!ok, "created with weight "+t.Args[0].Name))
			continue
		}
		// every definition the weight can have (followed into a helper of the repository that
		// computes it); nil is the absent weight
		scaled, arith := true, false
		nDefs := 0
		for _, lf := range LeavesDeep(Forwarded(w), ci.Block()) {
			if lt := TermOf(lf.V); lt.Op == "const" && lt.Name == "nil" {
				continue
			}
			nDefs++
			sc := false
			for x := range BackwardSlice(lf.V) {
				call, ok := x.(*ssa.Call)
				if !ok || !NameMatch(CalleeName(&call.Call), "intstr.GetScaledValueFromIntOrPercent") {
					continue
				}
				a := call.Call.Args
				if k1, ok1 := a[1].(*ssa.Const); ok1 && constText(k1) == "100" {
					if k2, ok2 := a[2].(*ssa.Const); ok2 && constText(k2) == "true" && (SliceHas(a[0], MField("Traffic")) || SliceHas(a[0], func(t *Term) bool { return t.Op == "param" && t.V != nil && (t.V.Type().String() == "*string" || t.V.Type().String() == "string") })) {
						sc = true
					}
				}
			}
			if !sc {
				scaled = false
			}
			for x := range BackwardSlice(lf.V) {
				if b, ok := x.(*ssa.BinOp); ok {
					switch b.Op.String() {
					case "+", "-", "*", "/", "%":
						arith = true
					}
				}
			}
		}
		if nDefs == 0 {
			scaled = false
		}
		c.Ob("R3.5", "ingress.EnsureRoutes#step-weight", ci.Pos(), scaled && !arith, "the weight handed to the script is strategy.traffic scaled against 100 (roundUp), with no further arithmetic", ifs(!scaled, "not GetScaledValueFromIntOrPercent(traffic, 100, true); ")+ifs(arith, "arithmetic is applied to the weight"))
	}
	// executeLuaForCanary: Weight = Sprintf("%d", *weight), weight = parameter or the -1 sentinel
	n := 0
	var weightStores []*ssa.Store
	for _, g := range samePkgClosure(p, exe) { // the input may be packed by a helper
		weightStores = append(weightStores, StoresToField(g, func(fa *ssa.FieldAddr) bool { nm, _ := FieldOf(fa); return nm == "Weight" })...)
	}
	for _, st := range weightStores {
		n++
		// the rendering may be done by a helper: judge what the helper returns
		okFmt, okSrc := true, true
		var slices []map[ssa.Value]bool
		for _, lf := range LeavesDeep(Forwarded(st.Val), st.Block()) {
			t := TermOf(lf.V)
			if !(t.Op == "call" && NameMatch(t.Name, "fmt.Sprintf") && len(t.Args) >= 1 && t.Args[0].Op == "const" && t.Args[0].Name == "%d") {
				okFmt = false
			}
			// the *int32 weight parameter of the function that renders (identified by type, not name) …
			sl := BackwardSlice(lf.V)
			slices = append(slices, sl)
			src := false
			if in, isIn := lf.V.(ssa.Instruction); isIn {
				for _, par := range in.Parent().Params {
					if par.Type().String() == "*int32" && sl[par] {
						src = true
					}
				}
				// … which, when that is a helper, is fed from the packing function's own weight parameter
				if src && in.Parent() != st.Parent() {
					src = false
					for _, par := range st.Parent().Params {
						if par.Type().String() == "*int32" && BackwardSlice(st.Val)[par] {
							src = true
						}
					}
				}
			}
			if !src {
				okSrc = false
			}
		}
		if len(slices) == 0 {
			okFmt, okSrc = false, false
		}
		bad := ""
		all := map[ssa.Value]bool{}
		for _, sl := range slices {
			for x := range sl {
				all[x] = true
			}
		}
		for x := range all {
			if b, ok := x.(*ssa.BinOp); ok {
				switch b.Op.String() {
				case "+", "-", "*", "/", "%":
					bad = "arithmetic (" + b.Op.String() + ") is applied to the weight"
				}
			}
			if k, ok := x.(*ssa.Const); ok && k.Value != nil && k.Value.Kind() == constant.Int && constText(k) != "-1" && constText(k) != "0" && constText(k) != "1" {
				bad = "constant " + constText(k) + " flows into the weight"
			}
		}
		c.Ob("R3.5", "ingress.executeLuaForCanary#render", st.Pos(), okFmt && okSrc && bad == "", "script input weight = the integer weight rendered with %d (or the -1 sentinel)", ifs(!okFmt, "not rendered with \"%d\"; ")+ifs(!okSrc, "does not derive from the weight parameter; ")+bad)
	}
	if n == 0 {
		c.Ob("R3.5", "ingress.executeLuaForCanary#render", exe.Pos(), false, "LuaData.Weight store", "anchor not found")
	}
	// class scripts
	dir := p.Dir + "/lua_configuration/trafficrouting_ingress"
	for _, name := range []string{"nginx.lua", "aliyun-alb.lua", "higress.lua", "mse.lua"} {
		src, err := p.ReadFile(dir + "/" + name)
		if err != nil {
			c.Ob("R3.5", name+"#weight", 0, false, "class script readable", err.Error())
			continue
		}
		sc, err := luafront.ParseBytes(dir+"/"+name, src)
		if err != nil {
			c.Ob("R3.5", name+"#weight", 0, false, "class script parses", err.Error())
			continue
		}
		found, bad := false, ""
		for _, a := range sc.Assigns {
			if a.Table != "annotations" || !strings.HasSuffix(a.Key, "canary-weight") || a.Nil {
				continue
			}
			found = true
			if a.Rhs != "obj.weight" && a.Rhs != `obj["weight"]` {
				bad = fmt.Sprintf("line %d assigns %s", a.Line, a.Rhs)
			}
		}
		c.Ob("R3.5", name+"#weight", 0, found && bad == "", "the weight annotation is assigned obj.weight itself", ifs(!found, "no weight annotation assignment found; ")+bad)
	}
}

// importDepth > 0 while a property's rule set is being run as the *source* of an import: the
// source's own imports are then skipped (an imported clause is always one of the source's own
// rules), which also keeps mutually importing properties from recursing.
var importDepth int

func importFrom(c *Ctx, from string, mapping map[string]string) {
	if importDepth > 0 {
		return
	}
	importDepth++
	defer func() { importDepth-- }()
	t := NewCtx(c.Prog, from, c.Tier, c.OutDir)
	Registry[from].Run(t)
	c.Import(t, mapping, " (= "+from+"'s rule, a necessary condition of this property too)")
}
