package rules

import (
	"fmt"
	"path/filepath"
	"sort"
	"strings"

	"golang.org/x/tools/go/ssa"

	. "verif/rcheck/engine"
	"verif/rcheck/luafront"
)

func init() {
	register(&Prop{
		ID:  "C14",
		Run: runC14,
		Explanation: "Decides the structural clauses behind 'the canary Ingress reflects the current step only': (R14.1) for each built-in ingress class script (parsed with the Lua parser the controller embeds; exhaustive over the scripts' constant keys) every annotation key the script may set conditionally is also cleared unconditionally at top level before it is set, or set unconditionally to a constant — so the result cannot depend on annotations left by an earlier step; assignments with computed keys are 'unrecognised' and fail; " +
			"(R14.2) a path enters the canary Ingress only under Backend.Service.Name == stable Service, and its backend is re-targeted to the canary Service; (R14.3) every client write of the ingress provider targets the canary Ingress (built by buildCanaryIngress, whose name derives from canaryIngressName, or fetched under the canary name) — the stable Ingress is only read; " +
			"(R14.4) optional blocks of the stable Ingress (rule.http, backend.service) are dereferenced only under a nil check; (R14.5) Finalise deletes the object fetched under the canary name and reports modified; (R14.6) the builder does not recycle a backing array across rules (no x[:0] re-slicing).",
		NotDecided:  "annotation values; history independence beyond R14.1 (a script could still read a key it does not set); behaviour of user-supplied scripts from the ConfigMap.",
		Assumptions: []string{"the result table of the class scripts is the global `annotations`"},
	})
}

func runC14(c *Ctx) {
	p := c.Prog
	c.Rule("R14.1", "class scripts clear every key they may set (exhaustive over constant keys)", 14)
	c.Rule("R14.2", "only stable-Service paths enter the canary Ingress, re-targeted to the canary Service", 2)
	c.Rule("R14.3", "every write of the ingress provider targets the canary Ingress", 4)
	c.Rule("R14.4", "optional Ingress blocks are dereferenced only under a nil check", 1)
	c.Rule("R14.5", "Finalise deletes the canary Ingress and reports it", 2)
	c.Rule("R14.6", "no backing-array reuse across rules in the builder", 1)

	// ---- R14.1
	scripts, _ := filepath.Glob(filepath.Join(p.Dir, "lua_configuration/trafficrouting_ingress/*.lua"))
	sort.Strings(scripts)
	if len(scripts) < 4 {
		c.Ob("R14.1", "scripts", 0, false, "built-in ingress class scripts", fmt.Sprintf("anchor: expected >= 4 scripts, found %d", len(scripts)))
	}
	for _, path := range scripts {
		rel := strings.TrimPrefix(path, p.Dir+"/")
		src, rerr := p.ReadFile(path)
		if rerr != nil {
			c.Ob("R14.1", rel+"#read", 0, false, "script readable", rerr.Error())
			continue
		}
		sc, err := luafront.ParseBytes(path, src)
		if err != nil {
			c.Ob("R14.1", rel+"#parse", 0, false, "script parses", err.Error())
			continue
		}
		set, clear, konst := sc.KeySets("annotations")
		var keys []string
		for k := range set {
			keys = append(keys, k)
		}
		sort.Strings(keys)
		for _, k := range keys {
			cl, cleared := clear[k]
			_, isConst := konst[k]
			ok := isConst || (cleared && cl < set[k])
			c.Ob("R14.1", rel+"#key("+k+")", 0, ok, fmt.Sprintf("%s sets %s (line %d)", rel, k, set[k]),
				ifs(!ok, "the key is set conditionally but never cleared unconditionally before: a value written by an earlier step survives into later steps"))
		}
		for _, ln := range sc.DynamicKeyAssigns {
			c.Ob("R14.1", rel+"#dynamic-key", 0, false, fmt.Sprintf("%s line %d assigns a computed key", rel, ln), "unrecognised idiom: the set of keys cleared / set cannot be read from the script")
		}
		if len(keys) == 0 {
			c.Ob("R14.1", rel+"#keys", 0, false, "keys set by "+rel, "anchor not found: the script sets no constant key on `annotations`")
		}
	}
	c.Extra["exhaustive_scripts"] = true

	build := p.Func("pkg/trafficrouting/network/ingress.ingressController.buildCanaryIngress")
	if build == nil {
		c.Unresolved("R14.2", "ingressController.buildCanaryIngress")
		return
	}
	// ---- R14.2
	nApp := 0
	var appendCalls []ssa.CallInstruction
	for _, g := range samePkgClosure(p, build) { // the path loop may be a helper of the builder
		for _, call := range AllCalls(g) {
			if CalleeName(call.Common()) == "append" && strings.HasSuffix(call.Value().Type().String(), "HTTPIngressPath") {
				appendCalls = append(appendCalls, call)
			}
		}
	}
	for _, call := range appendCalls {
		build := call.Parent()
		nApp++
		fs := FactsAtInstr(call.(ssa.Instruction))
		ok := HasFact(fs, FCmp("==", MField("Service", "Name"), MField("StableService")))
		c.Ob("R14.2", "buildCanaryIngress#append(path)", call.Pos(), ok, "a path is copied only if it points at the stable Service", ifs(!ok, "append not dominated by Backend.Service.Name == conf.StableService")).WithFacts(fs)
		// re-target store precedes the append
		retarget := false
		for _, st := range FieldStores([]*ssa.Function{build}, "", "Name") {
			if TermOf(st.Val).Any(MField("CanaryService")) {
				if r, _ := CanReach(PointAfter(st), func(in ssa.Instruction) bool { return in == call.(ssa.Instruction) }, ReachOpts{}); r {
					if r2, _ := CanReach(Entry(build), func(in ssa.Instruction) bool { return in == call.(ssa.Instruction) }, ReachOpts{CutInstr: func(in ssa.Instruction) bool { return in == ssa.Instruction(st) }}); !r2 {
						retarget = true
					}
				}
			}
		}
		c.Ob("R14.2", "buildCanaryIngress#retarget", call.Pos(), retarget, "the copied path's backend is set to the canary Service before it is appended", ifs(!retarget, "no store Backend.Service.Name = conf.CanaryService on every path to the append"))
	}
	if nApp == 0 {
		c.Ob("R14.2", "buildCanaryIngress#append(path)", build.Pos(), false, "copy of paths", "anchor not found")
	}

	// ---- R14.3 / R14.5
	for _, fn := range p.RepoFuncs() {
		if !strings.HasPrefix(FuncName(fn), "pkg/trafficrouting/network/ingress.") {
			continue
		}
		for _, call := range AllCalls(fn) {
			kind, isW := isClientWrite(call)
			if !isW {
				continue
			}
			obj := call.Common().Args[1]
			var isCanaryObj func(f *ssa.Function, v ssa.Value, depth int) bool
			isCanaryObj = func(f *ssa.Function, v ssa.Value, depth int) bool {
				if SliceHas(v, MCall("ingressController.buildCanaryIngress")) {
					return true
				}
				// the object is the out-argument of a Get whose key name derives from the canary name
				for _, g := range AllCalls(f) {
					if !strings.HasSuffix(CalleeName(g.Common()), "client.Reader.Get") || len(g.Common().Args) < 3 {
						continue
					}
					if !sameObject(g.Common().Args[2], v) {
						continue
					}
					if SliceHas(g.Common().Args[1], func(t *Term) bool {
						return (t.Op == "field" && t.Name == "canaryIngressName") || (t.Op == "call" && NameMatch(t.Name, "ingress.defaultCanaryIngressName"))
					}) {
						return true
					}
				}
				// the object is handed in by the callers: every caller must pass the canary Ingress
				if depth < 2 {
					root := rootOfObject(Forwarded(v))
					for i, q := range f.Params {
						if ssa.Value(q) != root {
							continue
						}
						cs := p.Callers(f)
						if len(cs) == 0 {
							return false
						}
						for _, site := range cs {
							if site.Kind == "closure" || i >= len(site.Args) || !isCanaryObj(site.Caller, site.Args[i], depth+1) {
								return false
							}
						}
						return true
					}
				}
				return false
			}
			fromBuild := isCanaryObj(fn, obj, 0)
			fromCanaryGet := false
			ok := fromBuild || fromCanaryGet
			rule := "R14.3"
			c.Ob(rule, FuncName(fn)+"#"+kind, call.Pos(), ok, kind+" targets the canary Ingress", ifs(!ok, "the written object is neither built by buildCanaryIngress nor fetched under the canary Ingress name: the stable Ingress may be modified"))
		}
	}
	nameOK := false
	for _, st := range FieldStores([]*ssa.Function{build}, "", "Name") {
		if fa, ok := st.Addr.(*ssa.FieldAddr); ok {
			if _, owner := FieldOf(fa); strings.HasSuffix(owner, "ObjectMeta") && TermOf(st.Val).Any(MField("canaryIngressName")) {
				nameOK = true
			}
		}
	}
	c.Ob("R14.3", "buildCanaryIngress#name", build.Pos(), nameOK, "the object built is named canaryIngressName", ifs(!nameOK, "ObjectMeta.Name does not derive from canaryIngressName"))

	if fn := p.Func("pkg/trafficrouting/network/ingress.ingressController.Finalise"); fn == nil {
		c.Unresolved("R14.5", "ingressController.Finalise")
	} else {
		dels := CallsIn(fn, "client.Writer.Delete")
		if len(dels) == 0 {
			c.Ob("R14.5", "Finalise#Delete", fn.Pos(), false, "deletion of the canary Ingress", "anchor not found")
		}
		for _, d := range dels {
			bad := ""
			for _, r := range WalkCP(PointAfter(d.(ssa.Instruction)), nil, IsReturn, ReachOpts{CutEdge: func(b *ssa.BasicBlock, k int) bool {
				return EdgeFactMatches(b, k, FNotNil(MResultOf(d, -1)))
			}}) {
				ret := r.Instr.(*ssa.Return)
				if v, ok := ResolveConst(ret.Results[0], r.Env); !ok || v != "true" {
					bad = "after the successful delete modified=true is not reported"
				}
			}
			c.Ob("R14.5", "Finalise#reports-delete", d.Pos(), bad == "", "a successful delete is reported as modified", bad)
		}
		for _, ret := range returnsOf(fn) {
			for _, lf := range Leaves(ret.Results[0], ret.Block()) {
				if t := TermOf(lf.V); t.Op == "const" && t.Name == "true" {
					ok := false
					for _, d := range dels {
						if HasFact(lf.Facts, FNil(MResultOf(d, -1))) {
							ok = true
						}
					}
					c.Ob("R14.5", "Finalise#modified-only-after-delete", ret.Pos(), ok, "modified=true only after a successful delete", ifs(!ok, "return true without a successful delete"))
				}
			}
		}
	}

	// ---- R14.4
	derefs := OptionalDerefs(build, func(owner, field string) bool { return field == "HTTP" || field == "Service" || field == "Resource" })
	if len(derefs) == 0 {
		c.Ob("R14.4", "buildCanaryIngress#optional-blocks", build.Pos(), true, "rule.http and backend.service are dereferenced only under a nil check", "")
	}
	for _, d := range derefs {
		c.Ob("R14.4", "buildCanaryIngress#deref("+d.Field.Name()+")", d.Instr.Pos(), false, "optional block "+d.Field.Name()+" dereferenced",
			"no dominating check "+d.Ptr.String()+" != nil: an Ingress rule without an http section / a path with a non-Service backend crashes the controller")
	}

	// ---- R14.6
	reuse := ""
	for _, b := range build.Blocks {
		for _, in := range b.Instrs {
			if sl, ok := in.(*ssa.Slice); ok && sl.High != nil {
				if _, fresh := sl.X.(*ssa.Alloc); fresh {
					continue // make([]T, 0): a fresh array
				}
				if k, ok := sl.High.(*ssa.Const); ok && k.Value != nil && k.Value.ExactString() == "0" {
					reuse = "re-slicing to length 0 at " + p.Pos(sl.Pos()) + " keeps the backing array: paths stored in an earlier rule are overwritten by later rules"
				}
			}
		}
	}
	c.Ob("R14.6", "buildCanaryIngress#fresh-slices", build.Pos(), reuse == "", "each canary rule gets its own path slice", reuse)
}

// sameObject reports whether two call arguments denote the same object (same value, or interface wrappers of it).
func sameObject(a, b ssa.Value) bool {
	strip := func(v ssa.Value) ssa.Value {
		for {
			switch x := v.(type) {
			case *ssa.MakeInterface:
				v = x.X
			case *ssa.ChangeInterface:
				v = x.X
			default:
				return v
			}
		}
	}
	return strip(a) == strip(b)
}
