package rules

import (
	"fmt"
	"go/types"
	"strings"

	"golang.org/x/tools/go/ssa"

	. "verif/rcheck/engine"
)

func init() {
	register(&Prop{
		ID:  "C03",
		Run: runC03,
		Explanation: "Decides the ordering clauses behind 'traffic rules are written only after the step's pods are ready, and a step reported routed was verified unchanged': " +
			"(R3.0) every store that enters the TrafficRouting sub-state is dominated by doCanaryUpgrade done, or is a jump between steps whose replicas are compared against the step that was current before the cursor moved; " +
			"(R3.1) Manager.DoTrafficRouting is called only from the TrafficRouting case of the step machines and from the TrafficRouting controller's Progressing case (closed-world caller enumeration incl. interface invokes); " +
			"(R3.2) inside DoTrafficRouting the provider's EnsureRoutes is reachable only after the grace wait, with non-empty revisions, an existing canary Service, and never in the same pass as a Service create/patch (constant-flag-folding reachability), and done is returned only after EnsureRoutes verified; " +
			"(R3.3) in every NetworkProvider.EnsureRoutes implementation (discovered via types.Implements) no path that performed a route write can return verified=true, and compareAndUpdateObject reports updated on every successful write; " +
			"(R3.4) in both step machines, when the first step configures traffic, the Upgrade state is reachable only through PatchStableService's success edges (err==nil, retry==false) unless canary Service generation is disabled.",
		NotDecided:  "that the gateway implementation honours the configured weight; numeric equality 'share equals the step value' (the (100-w,w) form is decided under C13 R13.2); Lua-computed shares (C15).",
		Assumptions: []string{"route writes are calls of controller-runtime client Create/Update/Patch/Delete (also inside closures handed to retry helpers) found through the resolved callee; customController.storeObject is exempt by symbol: it snapshots the original into an annotation and does not alter routing"},
	})
}

// isClientWrite reports whether the call is a controller-runtime client write.
func isClientWrite(ci ssa.CallInstruction) (string, bool) {
	n := CalleeName(ci.Common())
	for _, m := range []string{"Create", "Update", "Patch", "Delete", "DeleteAllOf"} {
		if NameMatch(n, "client.Writer."+m) || NameMatch(n, "client.StatusWriter."+m) || NameMatch(n, "client.SubResourceWriter."+m) || NameMatch(n, "client.Client."+m) {
			return m, true
		}
	}
	return "", false
}

// containsWrite reports whether fn (or closures it creates / same-package static callees up to depth) performs a client write.
func containsWrite(fn *ssa.Function, depth int, exempt func(*ssa.Function) bool, seen map[*ssa.Function]bool) bool {
	if fn == nil || fn.Blocks == nil || seen[fn] || (exempt != nil && exempt(fn)) {
		return false
	}
	seen[fn] = true
	for _, ci := range AllCalls(fn) {
		if _, ok := isClientWrite(ci); ok {
			return true
		}
		if depth > 0 {
			if callee := ci.Common().StaticCallee(); callee != nil && callee.Pkg == fn.Pkg {
				if containsWrite(callee, depth-1, exempt, seen) {
					return true
				}
			}
		}
	}
	for _, anon := range fn.AnonFuncs {
		if containsWrite(anon, depth, exempt, seen) {
			return true
		}
	}
	return false
}

// writeSitesIn lists the instructions of fn that are route writes: direct client writes, calls that are
// handed a closure containing a write, and calls to same-package helpers that write (depth 2), minus exempt/reporting helpers.
func writeSitesIn(fn *ssa.Function, exempt func(*ssa.Function) bool) []ssa.CallInstruction {
	var out []ssa.CallInstruction
	for _, ci := range AllCalls(fn) {
		if _, ok := isClientWrite(ci); ok {
			out = append(out, ci)
			continue
		}
		hit := false
		for _, a := range ci.Common().Args {
			if mc, ok := a.(*ssa.MakeClosure); ok {
				if cf, ok := mc.Fn.(*ssa.Function); ok && containsWrite(cf, 1, exempt, map[*ssa.Function]bool{}) {
					hit = true
				}
			}
		}
		if callee := ci.Common().StaticCallee(); callee != nil && callee.Pkg == fn.Pkg && !(exempt != nil && exempt(callee)) {
			if containsWrite(callee, 2, exempt, map[*ssa.Function]bool{}) {
				hit = true
			}
		}
		if hit {
			out = append(out, ci)
		}
	}
	return out
}

func runC03(c *Ctx) {
	p := c.Prog
	c.Rule("R3.0", "the TrafficRouting sub-state is entered only after upgrade-done, or by a jump between steps of equal replicas", 3)
	c.Rule("R3.0j", "the jump compares the target step with the step that was current before the cursor moved", 2)
	c.Rule("R3.1", "who may route: DoTrafficRouting is called only from the TrafficRouting case / Progressing phase", 3)
	c.Rule("R3.2", "DoTrafficRouting: EnsureRoutes only after grace wait, revisions known, canary Service present, and not in the same pass as a Service write", 6)
	c.Rule("R3.3", "verified means unchanged: after a route write no EnsureRoutes implementation can return true", 4)
	c.Rule("R3.4", "first traffic step: stable Service pinned successfully before the Upgrade state is entered", 2)

	sc, ok := loadStepConsts(c, "R3.0")
	if !ok {
		return
	}
	checkStepStores(c, sc, "R3.0", "R3.0", "R3.0", map[string]bool{sc.routing: true})
	checkJumpCompare(c, "R3.0j")

	// ---- R3.1
	dtr := p.Func("pkg/trafficrouting.Manager.DoTrafficRouting")
	if dtr == nil {
		c.Unresolved("R3.1", "Manager.DoTrafficRouting")
		return
	}
	phaseProgressing := ConstVal(p.ConstObj("api/v1alpha1", "TrafficRoutingPhaseProgressing"))
	for _, cs := range p.Callers(dtr) {
		fs := FactsAtInstr(cs.Instr)
		name := FuncName(cs.Caller)
		ok := false
		why := ""
		switch {
		case cs.Caller.Name() == "runCanary" && cs.Caller.Signature.Recv() != nil:
			reach, _ := CanReach(Entry(cs.Caller), func(in ssa.Instruction) bool { return in == cs.Instr }, ReachOpts{CutEdge: func(b *ssa.BasicBlock, k int) bool {
				return EdgeFactMatches(b, k, stateIs(sc.routing))
			}})
			ok = !reach
			why = "call reachable without CurrentStepState == " + sc.routing
		case NameMatch(name, "TrafficRoutingReconciler.Reconcile"):
			ok = HasFact(fs, FCmp("==", MField("Phase"), MConst(phaseProgressing)))
			why = "call outside phase Progressing"
		default:
			why = "caller is not a step machine nor the TrafficRouting controller"
		}
		c.Ob("R3.1", name+"#DoTrafficRouting", cs.Instr.Pos(), ok, "caller of DoTrafficRouting", ifs(!ok, why)).WithFacts(fs)
	}

	// ---- R3.2
	checkDoTrafficRouting(c, dtr)

	// ---- R3.3
	npT := p.NamedType("pkg/trafficrouting/network", "NetworkProvider")
	if npT == nil {
		c.Unresolved("R3.3", "interface network.NetworkProvider")
	} else {
		impls := p.Implementations(npT.Underlying().(*types.Interface), "EnsureRoutes")
		if len(impls) < 4 {
			c.Ob("R3.3", "EnsureRoutes#implementations", 0, false, "implementations of NetworkProvider.EnsureRoutes", fmt.Sprintf("expected >= 4 (ingress, gateway, custom, composite), found %d", len(impls)))
		}
		exempt := func(f *ssa.Function) bool {
			return NameMatch(FuncName(f), "customController.storeObject") || NameMatch(FuncName(f), "customController.compareAndUpdateObject")
		}
		for _, fn := range impls {
			checkVerifiedMeansUnchanged(c, fn, exempt)
		}
		// compareAndUpdateObject reports every successful write
		if fn := p.Func("pkg/trafficrouting/network/customNetworkProvider.customController.compareAndUpdateObject"); fn == nil {
			c.Unresolved("R3.3", "customController.compareAndUpdateObject")
		} else {
			for _, w := range writeSitesIn(fn, nil) {
				bad := ""
				for _, r := range WalkCP(PointAfter(w.(ssa.Instruction)), nil, IsReturn, ReachOpts{CutEdge: func(b *ssa.BasicBlock, k int) bool {
					return EdgeFactMatches(b, k, FNotNil(MResultOf(w, -1)))
				}}) {
					ret := r.Instr.(*ssa.Return)
					if v, ok := ResolveConst(ret.Results[0], r.Env); !ok || v != "true" {
						bad = "a path after the successful write returns updated != true at " + p.Pos(ret.Pos())
					}
				}
				c.Ob("R3.3", "customController.compareAndUpdateObject#after-write", w.Pos(), bad == "", "a successful Update is reported as updated=true", bad)
			}
			for _, ret := range returnsOf(fn) {
				for _, lf := range Leaves(ret.Results[0], ret.Block()) {
					if t := TermOf(lf.V); t.Op == "const" && t.Name == "true" {
						okw := false
						for _, w := range writeSitesIn(fn, nil) {
							if HasFact(lf.Facts, FNil(MResultOf(w, -1))) {
								okw = true
							}
						}
						c.Ob("R3.3", "customController.compareAndUpdateObject#return(updated)", ret.Pos(), okw, "updated=true only after a successful write", ifs(!okw, "return true without a successful Update")).WithFacts(lf.Facts)
					}
				}
			}
		}
	}

	// ---- R3.4
	// From the entry of the step machine the Init -> Upgrade store is reachable only through
	// PatchStableService's success edges (err == nil AND retry == false; one query each), or for a
	// step other than the first, a step without weight, or a configuration without generated canary
	// Service. The cut is one disjunction, so a pin step that lives in a helper
	// (`wait, err := m.pinStableService…(…)`) is judged by what each of the helper's ways of saying
	// "go on" has passed.
	for _, fn := range p.FuncsMatching("runCanary") {
		if fn.Signature.Recv() == nil {
			continue
		}
		var upStores []*ssa.Store
		for _, st := range FieldStores([]*ssa.Function{fn}, "", "CurrentStepState") {
			if v, ok := StoredConst(st); ok && v == sc.upgrade {
				upStores = append(upStores, st)
			}
		}
		isUp := func(in ssa.Instruction) bool {
			for _, s := range upStores {
				if in == ssa.Instruction(s) {
					return true
				}
			}
			return false
		}
		pinned := false
		for _, g := range samePkgClosure(p, fn) {
			if len(CallsIn(g, "trafficrouting.Manager.PatchStableService")) > 0 {
				pinned = true
			}
		}
		if len(upStores) == 0 {
			c.Ob("R3.4", FuncName(fn)+"#pin-stable-before-first-upgrade[anchor]", fn.Pos(), false, "Init -> Upgrade store", "anchor not found")
			continue
		}
		ok := pinned
		det := "no PatchStableService call in the step machine"
		if ok {
			other := FOr(
				FTrue(MField("DisableGenerateCanaryService")),
				FCmp("!=", MField("CurrentStepIndex"), MConst("1")),
				FNil(MField("Traffic")),
			)
			var by []string
			for i, need := range []FactM{FNil(MResult("PatchStableService", 1)), FFalse(MResult("PatchStableService", 0))} {
				cut := FOr(need, other)
				reach, _ := CanReachCP(Entry(fn), isUp, ReachOpts{CutEdge: func(bb *ssa.BasicBlock, kk int) bool {
					return EdgeFactMatches(bb, kk, cut)
				}})
				if reach {
					by = append(by, []string{"err == nil", "retry == false"}[i])
				}
			}
			ok = len(by) == 0
			det = ifs(!ok, "Upgrade state reachable for a first step with a weight without PatchStableService "+strings.Join(by, ", "))
		}
		c.Ob("R3.4", FuncName(fn)+"#pin-stable-before-first-upgrade", upStores[0].Pos(), ok, "stable Service pinned before the first traffic step creates pods", det)
	}
}

// checkDoTrafficRouting decides R3.2 on the function that calls the provider's EnsureRoutes.
func checkDoTrafficRouting(c *Ctx, fn *ssa.Function) {
	p := c.Prog
	ers := CallsIn(fn, "network.NetworkProvider.EnsureRoutes")
	if len(ers) != 1 {
		c.Ob("R3.2", "DoTrafficRouting#EnsureRoutes", fn.Pos(), false, "exactly one EnsureRoutes call expected", fmt.Sprintf("found %d", len(ers)))
		return
	}
	er := ers[0]
	isER := func(in ssa.Instruction) bool { return in == er.(ssa.Instruction) }
	noSvc := []FactM{FTrue(MField("OnlyTrafficRouting")), FTrue(MField("DisableGenerateCanaryService"))}
	cutAny := func(ms ...FactM) func(*ssa.BasicBlock, int) bool {
		return func(b *ssa.BasicBlock, k int) bool {
			return EdgeFactMatches(b, k, FOr(ms...))
		}
	}
	type req struct {
		key, what string
		cuts      []FactM
	}
	reqs := []req{
		{"grace-wait", "the grace period since the last workload/Service change has elapsed (or there was no change)",
			[]FactM{FNil(MField("LastUpdateTime")), FFalse(MCall("time.Time.After", MHas(MField("LastUpdateTime"))))}},
		{"stable-revision-known", "stable revision known before Services are pinned", append([]FactM{FCmp("!=", MField("StableRevision"), MConst(""))}, noSvc...)},
		{"canary-revision-known", "canary revision known before Services are pinned", append([]FactM{FCmp("!=", MField("CanaryRevision"), MConst(""))}, noSvc...)},
		{"canary-service-present", "the canary Service was found (not just created) before routes point to it", append([]FactM{FFalse(MCall("errors.IsNotFound"))}, noSvc...)},
		{"traffic-configured", "the step configures traffic", []FactM{FNotNil(MField("Strategy", "Traffic")), FCmp("!=", MLen(MField("Strategy", "Matches")), MConst("0"))}},
	}
	for _, r := range reqs {
		reach, _ := CanReachCP(Entry(fn), isER, ReachOpts{CutEdge: cutAny(r.cuts...)})
		c.Ob("R3.2", "DoTrafficRouting#EnsureRoutes-needs("+r.key+")", er.Pos(), !reach, "EnsureRoutes only when "+r.what, ifs(reach, "EnsureRoutes reachable without that condition"))
	}
	// never in the same pass as a Service write
	nw := 0
	for _, w := range writeSitesIn(fn, nil) {
		if w == er {
			continue
		}
		nw++
		// a helper that reports through a boolean result whether it wrote: its `false` means no write happened
		noWrite := []FactM{}
		if callee := w.Common().StaticCallee(); callee != nil {
			if i, ok := writeReportedBy(callee); ok {
				noWrite = append(noWrite, FFalse(MResultOf(w, i)))
			}
		}
		reach, _ := CanReachCP(PointAfter(w.(ssa.Instruction)), isER, ReachOpts{CutEdge: func(b *ssa.BasicBlock, k int) bool {
			return EdgeFactMatches(b, k, FOr(append([]FactM{FNotNil(MResultOf(w, -1))}, noWrite...)...))
		}})
		c.Ob("R3.2", "DoTrafficRouting#no-routes-after("+shortCallee(w)+")", w.Pos(), !reach, "a Service create/patch ends the pass (grace wait) before routes are written",
			ifs(reach, "EnsureRoutes reachable in the same pass after the successful write"))
	}
	if nw < 3 {
		c.Ob("R3.2", "DoTrafficRouting#service-writes", fn.Pos(), false, "canary Service create, canary selector patch and stable selector patch", fmt.Sprintf("anchor: expected >= 3 Service writes, found %d", nw))
	}
	// done results
	for _, ret := range returnsOf(fn) {
		for _, lf := range BoolLeaves(ret.Results[0], ret.Block()) {
			t := TermOf(lf.V)
			if t.Op != "const" {
				c.Ob("R3.2", "DoTrafficRouting#return(non-constant)", ret.Pos(), false, "done result is not a constant", "undecided: "+t.String())
				continue
			}
			if t.Name != "true" {
				continue
			}
			ok := HasFact(lf.Facts, FCmp("==", MLen(MField("ObjectRef")), MConst("0"))) ||
				(HasFact(lf.Facts, FNil(MField("Strategy", "Traffic"))) && HasFact(lf.Facts, FCmp("==", MLen(MField("Strategy", "Matches")), MConst("0")))) ||
				(HasFact(lf.Facts, FTrue(MResultOf(er, 0))) && HasFact(lf.Facts, FNil(MResultOf(er, 1))))
			c.Ob("R3.2", "DoTrafficRouting#return(done)", ret.Pos(), ok, "routed is reported only after EnsureRoutes verified (or there is nothing to route)",
				ifs(!ok, "return true without EnsureRoutes()==(true,nil)")).WithFacts(lf.Facts)
		}
	}
	_ = p
}

// checkVerifiedMeansUnchanged: in an EnsureRoutes implementation no path after a route write returns true.
func checkVerifiedMeansUnchanged(c *Ctx, fn *ssa.Function, exempt func(*ssa.Function) bool) {
	checkVerifiedMeansUnchangedAs(c, "R3.3", fn, exempt)
}

var verifiedHelperSeen = map[string]bool{}

func isBoolType(t types.Type) bool {
	b, ok := t.Underlying().(*types.Basic)
	return ok && b.Kind() == types.Bool
}

func checkVerifiedMeansUnchangedAs(c *Ctx, rule string, fn *ssa.Function, exempt func(*ssa.Function) bool) {
	p := c.Prog
	name := FuncName(fn)
	n := 0
	check := func(label string, pos ssa.Instruction, from Point, cut func(*ssa.BasicBlock, int) bool) {
		n++
		bad := ""
		for _, r := range WalkCP(from, nil, IsReturn, ReachOpts{CutEdge: cut}) {
			ret := r.Instr.(*ssa.Return)
			if v, ok := ResolveConst(ret.Results[0], r.Env); !ok || v != "false" {
				got := "a value the analysis cannot resolve to false"
				if ok {
					got = v
				}
				bad = "after the write a return at " + p.Pos(ret.Pos()) + " yields " + got
			}
		}
		c.Ob(rule, name+"#after("+label+")", pos.Pos(), bad == "", "no 'verified' after a write in the same pass", bad)
	}
	for _, w := range writeSitesIn(fn, exempt) {
		w := w
		// a same-package helper with the same (verified, error) result whose answer is handed on
		// unchanged is judged on its own: after a write inside it, it must answer false
		if g := w.Common().StaticCallee(); g != nil && g.Blocks != nil && g.Pkg == fn.Pkg && g != fn &&
			g.Signature.Results().Len() == fn.Signature.Results().Len() && g.Signature.Results().Len() == 2 && isBoolType(g.Signature.Results().At(0).Type()) {
			handedOn := true
			for _, r := range WalkCP(PointAfter(w.(ssa.Instruction)), nil, IsReturn, ReachOpts{}) {
				ret := r.Instr.(*ssa.Return)
				v := Forwarded(Resolve(ret.Results[0], r.Env))
				ex, ok := v.(*ssa.Extract)
				if !ok || ex.Tuple != w.(ssa.Value) || ex.Index != 0 {
					handedOn = false
				}
			}
			if hk := c.Prop + "|" + rule + "|" + FuncName(g); handedOn && !verifiedHelperSeen[hk] {
				verifiedHelperSeen[hk] = true
				n++
				checkVerifiedMeansUnchangedAs(c, rule, g, exempt)
				continue
			} else if handedOn {
				n++
				continue
			}
		}
		check(shortCallee(w), w.(ssa.Instruction), PointAfter(w.(ssa.Instruction)), func(b *ssa.BasicBlock, k int) bool {
			// the error edge is R6.1's business; follow only the success continuation
			return EdgeFactMatches(b, k, FNotNil(MResultOf(w, -1)))
		})
	}
	// helpers that report whether they wrote: the 'true' edge counts as a write
	for _, ci := range AllCalls(fn) {
		cn := CalleeName(ci.Common())
		reporting := NameMatch(cn, "customController.compareAndUpdateObject")
		innerVerify := NameMatch(cn, "network.NetworkProvider.EnsureRoutes")
		if !reporting && !innerVerify {
			continue
		}
		for _, b := range fn.Blocks {
			for k := range b.Succs {
				var m FactM
				if reporting {
					m = FTrue(MResultOf(ci, 0))
				} else {
					m = FFalse(MResultOf(ci, 0))
				}
				if EdgeFactMatches(b, k, m) {
					check(shortCallee(ci)+map[bool]string{true: "==updated", false: "==not-verified"}[reporting], b.Instrs[len(b.Instrs)-1], Point{Block: b.Succs[k]}, nil)
				}
			}
		}
	}
	if n == 0 {
		c.Ob(rule, name+"#writes", fn.Pos(), false, "route writes of this provider", "anchor not found: no write site / reporting helper recognised in this EnsureRoutes implementation")
	}
}

// writeReportedBy: callee has a boolean result that is the constant true on every return reachable
// after one of its client writes succeeded. Its value false in the caller then means "nothing was written".
func writeReportedBy(callee *ssa.Function) (int, bool) {
	if callee == nil || callee.Blocks == nil {
		return 0, false
	}
	res := callee.Signature.Results()
	for i := 0; i < res.Len(); i++ {
		b, ok := res.At(i).Type().Underlying().(*types.Basic)
		if !ok || b.Kind() != types.Bool {
			continue
		}
		writes := 0
		good := true
		for _, ci := range AllCalls(callee) {
			if _, isW := isClientWrite(ci); !isW {
				continue
			}
			writes++
			for _, r := range WalkCP(PointAfter(ci.(ssa.Instruction)), nil, IsReturn, ReachOpts{CutEdge: func(b *ssa.BasicBlock, k int) bool {
				return EdgeFactMatches(b, k, FNotNil(MResultOf(ci, -1)))
			}}) {
				ret := r.Instr.(*ssa.Return)
				if v, isC := ResolveConst(ret.Results[i], r.Env); !isC || v != "true" {
					good = false
				}
			}
		}
		if writes > 0 && good {
			return i, true
		}
	}
	return 0, false
}
