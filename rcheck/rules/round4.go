package rules

// Rules added in the fourth round (defects followed up from the "also seen" list, and the misses
// of the fourth round of seeded changes).

import (
	"strings"

	"golang.org/x/tools/go/ssa"

	. "verif/rcheck/engine"
)

func init() {
	extend := func(id string, expl string, extra func(c *Ctx)) {
		pr := Registry[id]
		old := pr.Run
		pr.Run = func(c *Ctx) { old(c); extra(c) }
		pr.Explanation += " " + expl
	}
	extend("C05", "(R5.8) neither finalising entry point can report 'done' on a path that has not removed the in-progress marker from the workload (a release that ends before its sub-status exists still unmarks the workload); (R5.9) the resume-workload task reports 'done' only after it saw a BatchRelease that completed the release, or after a write of its own: the webhook pauses the workload at admission, before any BatchRelease exists.", r4C05)
}

// markerRemovers: functions of the rollout controller package that build a merge patch deleting
// the in-progress annotation (the key constant and a `:null` body in the same function).
func markerRemovers(p *Program) map[*ssa.Function]bool {
	out := map[*ssa.Function]bool{}
	k := p.ConstObj("github.com/openkruise/rollouts/pkg/util", "InRolloutProgressingAnnotation")
	if k == nil {
		return out
	}
	key := ConstVal(k)
	for _, fn := range p.RepoFuncs() {
		if !strings.HasPrefix(FuncName(fn), "pkg/controller/rollout.") {
			continue
		}
		cs := constStringsIn([]*ssa.Function{fn})
		if !cs[key] {
			continue
		}
		for s := range cs {
			if strings.Contains(s, `"annotations":{"%s":null`) {
				out[fn] = true
			}
		}
	}
	return out
}

func r4C05(c *Ctx) {
	p := c.Prog
	c.Rule("R5.8", "'done' is reported by a finalising entry point only after the in-progress marker was removed", 2)
	removers := markerRemovers(p)
	if len(removers) == 0 {
		c.Unresolved("R5.8", "function deleting util.InRolloutProgressingAnnotation by merge patch")
	}
	reachesRemover := func(in ssa.Instruction) bool {
		ci, ok := in.(ssa.CallInstruction)
		if !ok {
			return false
		}
		for _, callee := range p.Callees(ci) {
			if removers[callee] {
				return true
			}
			if callee.Pkg != nil && callee.Pkg == in.Parent().Pkg {
				for _, f := range samePkgClosure(p, callee) {
					if removers[f] {
						return true
					}
				}
			}
		}
		return false
	}
	for _, m := range []string{"pkg/controller/rollout.canaryReleaseManager.doCanaryFinalising", "pkg/controller/rollout.blueGreenReleaseManager.doCanaryFinalising"} {
		fn := p.Func(m)
		if fn == nil {
			c.Unresolved("R5.8", m)
			continue
		}
		// the marker may also have been removed by every caller before the call (hoisted form)
		hoisted := false
		if cs := p.Callers(fn); len(cs) > 0 {
			hoisted = true
			for _, site := range cs {
				in := site.Instr
				if in == nil || site.Kind == "closure" {
					hoisted = false
					break
				}
				r, _ := CanReach(Entry(in.Parent()), func(x ssa.Instruction) bool { return x == in }, ReachOpts{CutInstr: reachesRemover})
				if r {
					hoisted = false
				}
			}
		}
		bad := ""
		if !hoisted {
			for _, r := range WalkCP(Entry(fn), nil, IsReturn, ReachOpts{CutInstr: reachesRemover}) {
				ret := r.Instr.(*ssa.Return)
				if ret.Block() == fn.Recover || len(ret.Results) < 2 {
					continue
				}
				if v, ok := ResolveConst(ret.Results[0], r.Env); ok && v == "false" {
					continue
				}
				if v, ok := ResolveConst(ret.Results[len(ret.Results)-1], r.Env); ok && v != "nil" {
					continue
				}
				if _, isConst := Resolve(ret.Results[len(ret.Results)-1], r.Env).(*ssa.Const); !isConst {
					// a non-constant error returned before the marker call is the error of an earlier step
					continue
				}
				bad = "the return at " + p.Pos(ret.Pos()) + " can report done although no call removing " + "the in-progress annotation lies on the path to it"
			}
		}
		c.Ob("R5.8", shortName(m)+"#done-after-unmark", fn.Pos(), bad == "", "every done-return is preceded by the removal of the in-progress marker", bad)
	}

	c.Rule("R5.9", "the resume-workload task reports done only on evidence that the workload was released", 1)
	fn := p.Func("pkg/controller/rollout.finalizingBatchRelease")
	if fn == nil {
		c.Unresolved("R5.9", "rollout.finalizingBatchRelease")
		return
	}
	_, apiCall := apiReaching(p)
	isWrite := func(in ssa.Instruction) bool {
		ci, ok := in.(ssa.CallInstruction)
		if !ok || !apiCall(ci) {
			return false
		}
		cn := CalleeName(ci.Common())
		if strings.Contains(cn, "controller-runtime/pkg/client.") {
			m := ci.Common().Method
			return m != nil && (m.Name() == "Patch" || m.Name() == "Update" || m.Name() == "Create" || m.Name() == "Delete")
		}
		// a repository helper that reaches the API: count it as a write unless it is a pure fetch
		for _, callee := range p.Callees(ci) {
			for f := range p.ReachableFrom(callee) {
				for _, x := range AllCalls(f) {
					if x.Common().IsInvoke() && strings.Contains(x.Common().Value.Type().String(), "client.") {
						switch x.Common().Method.Name() {
						case "Patch", "Update", "Create", "Delete":
							return true
						}
					}
				}
			}
		}
		return false
	}
	completed := FCmp("==", MField("Phase"), MConst(ConstVal(p.ConstObj("api/v1beta1", "RolloutPhaseCompleted"))))
	n := 0
	seenRet := map[*ssa.Return]bool{}
	for _, r := range WalkCP(Entry(fn), nil, IsReturn, ReachOpts{CutInstr: isWrite}) {
		ret := r.Instr.(*ssa.Return)
		if ret.Block() == fn.Recover || len(ret.Results) < 2 || seenRet[ret] {
			continue
		}
		if v, ok := ResolveConst(ret.Results[0], r.Env); !ok || v != "false" {
			continue // retry requested
		}
		if v, ok := ResolveConst(ret.Results[1], r.Env); !ok || v != "nil" {
			continue
		}
		n++
		seenRet[ret] = true
		fs := FactsAtInstr(ret)
		ok := HasFact(fs, completed)
		why := "this path answers 'done, nothing to retry' without having seen a completed BatchRelease and without any write"
		label := "other"
		for _, f := range fs {
			if fs := f.String(); strings.Contains(fs, "IsNotFound(") && strings.HasSuffix(fs, "== `true`") {
				label = "IsNotFound"
				why = "no BatchRelease exists (NotFound): the task answers done, but the admission webhook paused the workload when the change was admitted and only a BatchRelease's Finalize resumes it — a Rollout deleted / disabled after admission and before the first BatchRelease is created leaves the workload paused for good"
			}
		}
		c.Ob("R5.9", "finalizingBatchRelease#done-without-release("+label+")", ret.Pos(), ok, "done is answered under a 'BatchRelease completed' fact or after a write", ifs(!ok, why)).WithFacts(fs)
	}
	if n == 0 {
		c.Ob("R5.9", "finalizingBatchRelease#done-returns", fn.Pos(), false, "at least one done-return is analysed", "no return of (false, nil) found")
	}
}
