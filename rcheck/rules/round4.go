package rules

// Rules added in the fourth round (defects followed up from the "also seen" list, and the misses
// of the fourth round of seeded changes).

import (
	"fmt"
	"go/constant"
	"go/token"
	"go/types"
	"os"
	"path/filepath"
	"sort"
	"strings"
	"verif/rcheck/luafront"

	"golang.org/x/tools/go/ssa"

	. "verif/rcheck/engine"
)

func init() {
	extend := func(id string, expl string, extra func(c *Ctx)) {
		pr := Registry[id]
		old := pr.Run
		pr.Run = func(c *Ctx) { old(c); extra(c) }
		pr.Explanation += " " + expl
	}
	extend("C05", "(R5.8) neither finalising entry point can report 'done' on a path that has not removed the in-progress marker from the workload (a release that ends before its sub-status exists still unmarks the workload); (R5.9) the resume-workload task reports 'done' only after it saw a BatchRelease that completed the release, or after a write of its own: the webhook pauses the workload at admission, before any BatchRelease exists.", r4C05)
	extend("C05", "(R5.10) Finalize of the five in-place controllers answers success without writing only when the workload is absent or provably not held (control annotation empty or not paused).", r4C05b)
	imp := func(id, from string, mapping map[string]string, expl string) {
		extend(id, expl, func(c *Ctx) {
			importFrom(c, from, mapping)
		})
	}
	extend("C18", "(R18.6) the loop that strips the controllers' finalizer from generated objects sees terminating objects too: neither it nor the listing it uses filters on the deletion timestamp (a terminating object is exactly the one waiting for its finalizer).", r4C18)
	imp("C05", "C18", map[string]string{"R18.6": "R5.11"}, "(R5.11 = C18 R18.6) a generated canary Deployment that is already terminating still loses its finalizer at Finalize, so it does not outlive the release.")
	extend("C03", "(R3.7) PatchStableService answers 'pinned, no retry' without having examined the Service selector only for configurations that have no Service to pin (no reference, traffic-routing-only, no generated canary Service) — never because a read failed; (R3.8) the admission validator and every consumer turn a step's traffic string into a number with the same parsing function, so what was validated is what gets routed.", r4C03)
	extend("C15", "(R15.7) the annotations and labels written to a custom network resource are the script's result (or a fresh map), never the live object's own map: otherwise what an earlier step wrote survives into a step whose script sets nothing; (R15.8) Finalise answers without error only after the loop over all referenced resources has ended.", r4C15)
	imp("C18", "C15", map[string]string{"R15.8": "R18.7"}, "(R18.7 = C15 R15.8) the custom provider's Finalise visits every referenced resource before it can report done, so the finalizer is not dropped with a resource still unrestored.")
	imp("C05", "C15", map[string]string{"R15.8": "R5.12"}, "(R5.12 = C15 R15.8) every referenced custom resource is restored before Finalise reports done.")
	extend("C16", "(R16.8) every loop of the Lua/JSON bridge whose condition depends on a cursor advances the cursor on every way round (a `continue` before the advance spins forever inside a Go call no Lua deadline can interrupt); (R16.9) Decode does not switch the JSON decoder to json.Number while DecodeValue turns json.Number into a Lua string (numbers would reach scripts as strings).", r4C16)
	extend("C17", "(R17.7) every call of ResolveFenceposts passes both the strategy's maxSurge and its maxUnavailable: the zero/zero correction depends on both.", r4C17)
	extend("C17", "(R17.8) in the advanced deployment controller no list of ReplicaSets is sorted in place while another list that may share its backing array (the two sides of `all := append(old, new)`) is still read: the sort would move the new ReplicaSet into the old-ReplicaSet list.", r4C17b)
	extend("C19", "(R19.7) every List issued by the controllers, webhooks and finders is restricted to one namespace (InNamespace or ListOptions.Namespace), directly or by every caller that supplies the options — a label that carries only an object name matches same-named objects of other namespaces; (R19.8) UpdateFinalizer computes the new finalizer list from the object it has just fetched, not from the caller's (possibly stale) copy: two rollouts sharing a TrafficRouting would overwrite each other's finalizers.", r4C19)
	imp("C18", "C19", map[string]string{"R19.8": "R18.8"}, "(R18.8 = C19 R19.8) a finalizer is added or removed on the fresh list, so no other holder's finalizer is dropped or resurrected.")
	extend("C20", "(R20.5) an early successful return of a converter that is taken because an optional block of the source is absent skips only writes that depend on that block: everything else (conditions, phase, message …) has been written before the return is possible.", r4C20)
	imp("C09", "C20", map[string]string{"R20.5": "R9.5"}, "(R9.5 = C20 R20.5) a write through the other API version cannot strip status.conditions from a stored Rollout whose canaryStatus is still empty: the controllers read the condition that belongs to the phase without a nil check.")
	extend("C07", "(R7.7) the template comparison that recognises the canary Deployment created earlier removes the ignored label keys from the labels and the ignored annotation keys from the annotations (a canary that is never recognised is created again on every reconcile); (R7.8) the grace wrapper asks for a retry only together with a positive wait: the branch that answers (retry, graceSeconds·s) is taken under graceSeconds != 0.", r4C07)
	imp("C02", "C11", map[string]string{"R11.6": "R2.6", "R11.2": "R2.7"}, "(R2.6 = C11 R11.6, R2.7 = C11 R11.2) the BatchRelease half of the step gate: a plan change restarts the batch state machine before Ready can be read for the new plan, and Ready is computed against the batch's own updated pods.")
	imp("C10", "C09", map[string]string{"R9.2": "R10.7"}, "(R10.7 = C09 R9.2) traffic-routing references cannot be edited while a release is progressing, so rollback restores the resources the release actually modified.")
	extend("C08", "(R8.8) the StatefulSet-like and DaemonSet handlers leave an update untouched only for the reasons that mean 'not a release change of a workload with a live Rollout' (no replicas / not a rolling update, templates absent, rollout-id unchanged or template equal, no matching Rollout, empty strategy): every other (false, nil) answer lets a release change through unfrozen.", r4C08)
	imp("C10", "C08", map[string]string{"R8.8": "R10.8"}, "(R10.8 = C08 R8.8) a rollback or a new revision pushed mid-release to a StatefulSet / DaemonSet is re-frozen at admission whatever the number of pod revisions, so no pod is replaced before traffic was put back.")
	extend("C11", "(R11.8) the release-plan hash is computed over the whole plan (batchPartition included): lowering the partition alone must count as a plan change; (R11.9) blue-green Deployment: only ReplicaSets that are controlled by the Deployment and not terminating are candidates for 'the new ReplicaSet' whose ready pods are reported.", r4C11)
	extend("C09", "(R9.6) the finalising path runs from every phase (a Rollout can be deleted before any release started), so everything reachable from doFinalising dereferences the canary / blue-green sub-status only under a nil check of that very pointer — a predicate over the other sub-status does not count.", r4C09)
	extend("C12", "(R12.8) the ordered filter sorts the pods by ordinal before it classifies them: the truncated prefix of the low-priority list must not depend on list order.", r4C12)
}

// markerRemovers: functions of the rollout controller package that build a merge patch deleting
// the in-progress annotation (the key constant and a `:null` body in the same function).
func markerRemovers(p *Program) map[*ssa.Function]bool {
	out := map[*ssa.Function]bool{}
	k := p.ConstObj("github.com/openkruise/rollouts/pkg/util", "InRolloutProgressingAnnotation")
	if k == nil {
		return out
	}
	key := ConstVal(k)
	for _, fn := range p.RepoFuncs() {
		if !strings.HasPrefix(FuncName(fn), "pkg/controller/rollout.") {
			continue
		}
		cs := constStringsIn([]*ssa.Function{fn})
		if !cs[key] {
			continue
		}
		for s := range cs {
			if strings.Contains(s, `"annotations":{"%s":null`) {
				out[fn] = true
			}
		}
	}
	return out
}

// apiWrites returns a predicate for instructions that write to the API server: a client
// Patch / Update / Create / Delete (also through Status()), or a call of a repository function
// that reaches one.
func apiWrites(p *Program) func(ssa.Instruction) bool {
	direct := func(ci ssa.CallInstruction) bool {
		cc := ci.Common()
		if !cc.IsInvoke() || !strings.Contains(cc.Value.Type().String(), "client.") {
			return false
		}
		switch cc.Method.Name() {
		case "Patch", "Update", "Create", "Delete", "DeleteAllOf":
			return true
		}
		return false
	}
	writes := map[*ssa.Function]bool{}
	for changed := true; changed; {
		changed = false
		for _, fn := range p.RepoFuncs() {
			if writes[fn] {
				continue
			}
			for _, ci := range AllCalls(fn) {
				hit := direct(ci)
				for _, cal := range p.Callees(ci) {
					if writes[cal] {
						hit = true
					}
				}
				if hit {
					writes[fn] = true
					changed = true
					break
				}
			}
		}
	}
	return func(in ssa.Instruction) bool {
		ci, ok := in.(ssa.CallInstruction)
		if !ok {
			return false
		}
		if direct(ci) {
			return true
		}
		for _, cal := range p.Callees(ci) {
			if writes[cal] {
				return true
			}
		}
		return false
	}
}

// successReturn: a return whose last (error) result can be nil.
func successReturn(fn *ssa.Function) func(ssa.Instruction) bool {
	return func(in ssa.Instruction) bool {
		ret, ok := in.(*ssa.Return)
		if !ok || ret.Block() == fn.Recover || len(ret.Results) == 0 {
			return false
		}
		for _, lf := range Leaves(ret.Results[len(ret.Results)-1], ret.Block()) {
			if k, ok := lf.V.(*ssa.Const); ok && k.IsNil() {
				return true
			}
		}
		return false
	}
}

func r4C05(c *Ctx) {
	p := c.Prog
	c.Rule("R5.8", "'done' is reported by a finalising entry point only after the in-progress marker was removed", 2)
	removers := markerRemovers(p)
	if len(removers) == 0 {
		c.Unresolved("R5.8", "function deleting util.InRolloutProgressingAnnotation by merge patch")
	}
	reachesRemover := func(in ssa.Instruction) bool {
		ci, ok := in.(ssa.CallInstruction)
		if !ok {
			return false
		}
		for _, callee := range p.Callees(ci) {
			if removers[callee] {
				return true
			}
			if callee.Pkg != nil && callee.Pkg == in.Parent().Pkg {
				for _, f := range samePkgClosure(p, callee) {
					if removers[f] {
						return true
					}
				}
			}
		}
		return false
	}
	for _, m := range []string{"pkg/controller/rollout.canaryReleaseManager.doCanaryFinalising", "pkg/controller/rollout.blueGreenReleaseManager.doCanaryFinalising"} {
		fn := p.Func(m)
		if fn == nil {
			c.Unresolved("R5.8", m)
			continue
		}
		// the marker may also have been removed by every caller before the call (hoisted form)
		hoisted := false
		if cs := p.Callers(fn); len(cs) > 0 {
			hoisted = true
			for _, site := range cs {
				in := site.Instr
				if in == nil || site.Kind == "closure" {
					hoisted = false
					break
				}
				r, _ := CanReach(Entry(in.Parent()), func(x ssa.Instruction) bool { return x == in }, ReachOpts{CutInstr: reachesRemover})
				if r {
					hoisted = false
				}
			}
		}
		bad := ""
		if !hoisted {
			for _, r := range WalkCP(Entry(fn), nil, IsReturn, ReachOpts{CutInstr: reachesRemover}) {
				ret := r.Instr.(*ssa.Return)
				if ret.Block() == fn.Recover || len(ret.Results) < 2 {
					continue
				}
				if v, ok := ResolveConst(ret.Results[0], r.Env); ok && v == "false" {
					continue
				}
				if v, ok := ResolveConst(ret.Results[len(ret.Results)-1], r.Env); ok && v != "nil" {
					continue
				}
				if _, isConst := Resolve(ret.Results[len(ret.Results)-1], r.Env).(*ssa.Const); !isConst {
					// a non-constant error returned before the marker call is the error of an earlier step
					continue
				}
				bad = "the return at " + p.Pos(ret.Pos()) + " can report done although no call removing " + "the in-progress annotation lies on the path to it"
			}
		}
		c.Ob("R5.8", shortName(m)+"#done-after-unmark", fn.Pos(), bad == "", "every done-return is preceded by the removal of the in-progress marker", bad)
	}

	c.Rule("R5.9", "the resume-workload task reports done only on evidence that the workload was released", 1)
	fn := p.Func("pkg/controller/rollout.finalizingBatchRelease")
	if fn == nil {
		c.Unresolved("R5.9", "rollout.finalizingBatchRelease")
		return
	}
	isWrite := apiWrites(p)
	completed := FCmp("==", MField("Phase"), MConst(ConstVal(p.ConstObj("api/v1beta1", "RolloutPhaseCompleted"))))
	n := 0
	seenRet := map[*ssa.Return]bool{}
	for _, r := range WalkCP(Entry(fn), nil, IsReturn, ReachOpts{CutInstr: isWrite}) {
		ret := r.Instr.(*ssa.Return)
		if ret.Block() == fn.Recover || len(ret.Results) < 2 || seenRet[ret] {
			continue
		}
		if v, ok := ResolveConst(ret.Results[0], r.Env); !ok || v != "false" {
			continue // retry requested
		}
		if v, ok := ResolveConst(ret.Results[1], r.Env); !ok || v != "nil" {
			continue
		}
		n++
		seenRet[ret] = true
		fs := FactsAtInstr(ret)
		ok := HasFact(fs, completed)
		why := "this path answers 'done, nothing to retry' without having seen a completed BatchRelease and without any write"
		label := "other"
		for _, f := range fs {
			if fs := f.String(); strings.Contains(fs, "IsNotFound(") && strings.HasSuffix(fs, "== `true`") {
				label = "IsNotFound"
				why = "no BatchRelease exists (NotFound): the task answers done, but the admission webhook paused the workload when the change was admitted and only a BatchRelease's Finalize resumes it — a Rollout deleted / disabled after admission and before the first BatchRelease is created leaves the workload paused for good"
			}
		}
		c.Ob("R5.9", "finalizingBatchRelease#done-without-release("+label+")", ret.Pos(), ok, "done is answered under a 'BatchRelease completed' fact or after a write", ifs(!ok, why)).WithFacts(fs)
	}
	if n == 0 {
		c.Ob("R5.9", "finalizingBatchRelease#done-returns", fn.Pos(), false, "at least one done-return is analysed", "no return of (false, nil) found")
	}
}

// r4C05b: R5.10 — Finalize of the in-place controllers answers success without a write only
// when the workload is absent or provably not held.
func r4C05b(c *Ctx) {
	p := c.Prog
	c.Rule("R5.10", "Finalize answers success without writing only when the workload is absent or not held (no control annotation / not paused)", 5)
	ctrlAnno := ""
	if k := p.ConstObj("github.com/openkruise/rollouts/pkg/util", "BatchReleaseControlAnnotation"); k != nil {
		ctrlAnno = ConstVal(k)
	} else {
		c.Unresolved("R5.10", "util.BatchReleaseControlAnnotation")
		return
	}
	annoLookup := func(t *Term) bool {
		return t.Op == "lookup" && len(t.Args) == 2 && MField("Annotations")(t.Args[0]) && MConst(ctrlAnno)(t.Args[1])
	}
	notHeld := FOr(
		FNil(MField("object")), FNil(MField("stableObject")),
		FCmp("==", annoLookup, MConst("")),
		FFalse(MField("Paused")),
	)
	isWrite := apiWrites(p)
	cp := "pkg/controller/batchrelease/control/"
	for _, name := range []string{
		cp + "partitionstyle/cloneset.realController.Finalize", cp + "partitionstyle/daemonset.realController.Finalize",
		cp + "partitionstyle/statefulset.realController.Finalize", cp + "partitionstyle/deployment.realController.Finalize",
		cp + "canarystyle/deployment.realStableController.Finalize",
	} {
		fn := p.Func(name)
		if fn == nil {
			c.Unresolved("R5.10", name)
			continue
		}
		reach, at := CanReach(Entry(fn), successReturn(fn), ReachOpts{CutInstr: isWrite, CutEdge: func(b *ssa.BasicBlock, k int) bool {
			return EdgeFactMatches(b, k, notHeld)
		}})
		detail := ""
		if reach {
			detail = "the return at " + p.Pos(at.Pos()) + " answers success although nothing was written and the path does not establish that the workload is absent, carries no control annotation, or is not paused: a workload that is still held stays held while the BatchRelease reports Completed"
		}
		c.Ob("R5.10", shortName(name)+"#success-needs-write-or-not-held", fn.Pos(), !reach, "success without a write only for an absent or not-held workload", detail)
	}
}

// ---------------------------------------------------------------- C18 R18.6

func r4C18(c *Ctx) {
	p := c.Prog
	c.Rule("R18.6", "finalizer-stripping loops over generated objects do not skip terminating objects", 1)
	uf := p.Func("pkg/util.UpdateFinalizer")
	if uf == nil {
		c.Unresolved("R18.6", "pkg/util.UpdateFinalizer")
		return
	}
	for _, cs := range p.Callers(uf) {
		if cs.Kind != "static" || len(cs.Args) < 4 {
			continue
		}
		if op := TermOf(cs.Args[2]); op.Op != "const" || op.Name != "Remove" {
			continue
		}
		// only loops over listed objects: the object argument is an element of a slice
		obj := TermOf(cs.Args[1])
		inLoop := false
		for x := range BackwardSlice(cs.Args[1]) {
			switch x.(type) {
			case *ssa.IndexAddr, *ssa.Index, *ssa.Next, *ssa.Range:
				inLoop = true
			}
		}
		if !inLoop {
			continue
		}
		_ = obj
		bad := ""
		for _, f := range samePkgClosure(p, cs.Caller) {
			for _, b := range f.Blocks {
				for _, in := range b.Instrs {
					if fa, ok := in.(*ssa.FieldAddr); ok {
						if n, _ := FieldOf(fa); n == "DeletionTimestamp" {
							bad = "reads DeletionTimestamp at " + p.Pos(fa.Pos()) + " (" + shortName(FuncName(f)) + ")"
						}
					}
					if fv, ok := in.(*ssa.Field); ok {
						if st, ok2 := fv.X.Type().Underlying().(*types.Struct); ok2 && st.Field(fv.Field).Name() == "DeletionTimestamp" {
							bad = "reads DeletionTimestamp at " + p.Pos(fv.Pos()) + " (" + shortName(FuncName(f)) + ")"
						}
					}
					if ci, ok := in.(ssa.CallInstruction); ok {
						cn := CalleeName(ci.Common())
						if NameMatch(cn, "util.FilterActiveDeployment") || strings.HasSuffix(cn, ".GetDeletionTimestamp") {
							bad = "calls " + shortName(cn) + " at " + p.Pos(ci.Pos()) + " (" + shortName(FuncName(f)) + ")"
						}
					}
				}
			}
		}
		c.Ob("R18.6", shortName(FuncName(cs.Caller))+"#strip-sees-terminating", cs.Instr.Pos(), bad == "", "the objects offered to the finalizer-stripping loop are not filtered by deletion timestamp",
			ifs(bad != "", "the function (or the listing helper it uses) "+bad+": an object that is already terminating is skipped and keeps the finalizer for good"))
	}
}

// ---------------------------------------------------------------- C03 R3.7, R3.8

func r4C03(c *Ctx) {
	p := c.Prog
	c.Rule("R3.7", "PatchStableService answers 'no retry' before the pin step only for configurations with nothing to pin", 1)
	if fn := p.Func("pkg/trafficrouting.Manager.PatchStableService"); fn == nil {
		c.Unresolved("R3.7", "trafficrouting.Manager.PatchStableService")
	} else {
		// the pin step: the grace-wrapped closure, or any API write
		isWrite := apiWrites(p)
		isPin := func(in ssa.Instruction) bool {
			if isWrite(in) {
				return true
			}
			if ci, ok := in.(ssa.CallInstruction); ok && strings.Contains(CalleeName(ci.Common()), "grace.RunWithGraceSeconds") {
				return true
			}
			return false
		}
		nothingToPin := FOr(
			FCmp("==", MLen(MField("ObjectRef")), MConst("0")),
			FTrue(MField("OnlyTrafficRouting")), FTrue(MField("DisableGenerateCanaryService")),
		)
		n := 0
		seen := map[*ssa.Return]bool{}
		for _, r := range WalkCP(Entry(fn), nil, IsReturn, ReachOpts{CutInstr: isPin, CutEdge: func(b *ssa.BasicBlock, k int) bool {
			return EdgeFactMatches(b, k, nothingToPin)
		}}) {
			ret := r.Instr.(*ssa.Return)
			if ret.Block() == fn.Recover || len(ret.Results) < 2 || seen[ret] {
				continue
			}
			if v, ok := ResolveConst(ret.Results[1], r.Env); !ok || v != "nil" {
				continue // an error is returned: the caller retries
			}
			if v, ok := ResolveConst(ret.Results[0], r.Env); ok && v == "true" {
				continue // retry requested
			}
			seen[ret] = true
			n++
			c.Ob("R3.7", "PatchStableService#no-retry-without-pin", ret.Pos(), false, "no-retry answered before the pin step",
				"this return answers (no retry, no error) although the selector was neither examined nor written and the configuration does have a Service to pin: the first step starts with the stable Service selecting new pods").WithFacts(FactsAtInstr(ret))
		}
		if n == 0 {
			c.Ob("R3.7", "PatchStableService#no-retry-without-pin", fn.Pos(), true, "every no-retry answer before the pin step is for a configuration with nothing to pin", "")
		}
	}

	c.Rule("R3.8", "validator and consumers parse a step's traffic string with the same function", 3)
	type site struct {
		fn     *ssa.Function
		callee string
		pos    ssa.Instruction
	}
	var sites []site
	for _, fn := range p.RepoFuncs() {
		for _, ci := range AllCalls(fn) {
			cn := CalleeName(ci.Common())
			if !(strings.HasSuffix(cn, "intstr.FromString") || strings.HasSuffix(cn, "intstr.Parse")) || len(ci.Common().Args) != 1 {
				continue
			}
			if t := TermOf(ci.Common().Args[0]); !(MField("Traffic")(t) || t.Any(MField("Traffic"))) {
				continue
			}
			sites = append(sites, site{fn, cn, ci.(ssa.Instruction)})
		}
	}
	count := map[string]int{}
	for _, s := range sites {
		count[s.callee]++
	}
	major := ""
	for k, v := range count {
		if v > count[major] || (v == count[major] && k < major) {
			major = k
		}
	}
	for _, s := range sites {
		ok := s.callee == major
		c.Ob("R3.8", shortName(FuncName(s.fn))+"#traffic-parse", s.pos.Pos(), ok, "traffic string parsed with "+shortName(major)+" like every other site",
			ifs(!ok, "this site uses "+shortName(s.callee)+" while the other "+fmt.Sprint(count[major])+" sites use "+shortName(major)+": a value such as \"20\" is a number for one and an (invalid) percentage for the other, so the admitted value is not the routed one"))
	}
}

// ---------------------------------------------------------------- C12 R12.8

func r4C12(c *Ctx) {
	p := c.Prog
	c.Rule("R12.8", "the ordered pod filter sorts before it classifies", 1)
	fn := p.Func("pkg/controller/batchrelease/labelpatch.FilterPodsForOrderedUpdate")
	if fn == nil {
		c.Unresolved("R12.8", "labelpatch.FilterPodsForOrderedUpdate")
		return
	}
	if len(fn.Params) == 0 {
		c.Unresolved("R12.8", "labelpatch.FilterPodsForOrderedUpdate: pods parameter")
		return
	}
	pods := fn.Params[0]
	// does the function truncate a list it built (slice with a non-constant bound)?
	truncates := false
	for _, b := range fn.Blocks {
		for _, in := range b.Instrs {
			if sl, ok := in.(*ssa.Slice); ok && sl.High != nil {
				if _, isC := sl.High.(*ssa.Const); !isC {
					truncates = true
				}
			}
			// or hands a list it built to a helper that truncates it
			if call, ok := in.(*ssa.Call); ok {
				if bi, isB := call.Call.Value.(*ssa.Builtin); isB && bi.Name() == "append" && flowsIntoTruncation(call) {
					truncates = true
				}
			}
		}
	}
	if !truncates {
		c.Ob("R12.8", "FilterPodsForOrderedUpdate#sort-before-classify", fn.Pos(), true, "no list is truncated: order is irrelevant", "")
		return
	}
	sorts := func(in ssa.Instruction) bool {
		ci, ok := in.(ssa.CallInstruction)
		if !ok {
			return false
		}
		usesPods := false
		for _, a := range ci.Common().Args {
			if Forwarded(a) == ssa.Value(pods) || a == ssa.Value(pods) {
				usesPods = true
			}
		}
		if !usesPods {
			return false
		}
		cn := CalleeName(ci.Common())
		if strings.HasPrefix(cn, "sort.") || strings.HasPrefix(cn, "slices.Sort") {
			return true
		}
		for _, cal := range p.Callees(ci) {
			for f := range p.ReachableFrom(cal) {
				for _, x := range AllCalls(f) {
					xn := CalleeName(x.Common())
					if strings.HasPrefix(xn, "sort.") || strings.HasPrefix(xn, "slices.Sort") {
						return true
					}
				}
			}
		}
		return false
	}
	readsElem := func(in ssa.Instruction) bool {
		switch x := in.(type) {
		case *ssa.IndexAddr:
			return x.X == ssa.Value(pods)
		case *ssa.Index:
			return x.X == ssa.Value(pods)
		case *ssa.Range:
			return x.X == ssa.Value(pods)
		}
		return false
	}
	reach, at := CanReach(Entry(fn), readsElem, ReachOpts{CutInstr: sorts})
	detail := ""
	if reach {
		detail = "the pods are read at " + p.Pos(at.Pos()) + " before any sort of the list: which low-priority pods fall into the truncated prefix then depends on the order the informer returned them in, so a pod labelled on one pass can be filtered out on the next"
	}
	c.Ob("R12.8", "FilterPodsForOrderedUpdate#sort-before-classify", fn.Pos(), !reach, "a sort of the pods precedes the first read of an element", detail)
}

// ---------------------------------------------------------------- C15 R15.7, R15.8

// loopBlocks: blocks that lie on a cycle through b.
func loopBlocks(b *ssa.BasicBlock) map[*ssa.BasicBlock]bool {
	fwd := reachBlocks(b, false)
	bwd := reachBlocks(b, true)
	out := map[*ssa.BasicBlock]bool{}
	for x := range fwd {
		if bwd[x] {
			out[x] = true
		}
	}
	return out
}

// isLoopExitFact: the fact was established by the edge that leaves a loop from its header
// (the other edge of the same test stays in the loop).
func isLoopExitFact(f Fact) bool {
	if f.If == nil {
		return false
	}
	hb := f.If.Block()
	if f.Succ < 0 || f.Succ >= len(hb.Succs) {
		return false
	}
	lb := loopBlocks(hb)
	if !lb[hb] {
		return false
	}
	return !lb[hb.Succs[f.Succ]] && lb[hb.Succs[1-f.Succ]]
}

func r4C15(c *Ctx) {
	p := c.Prog
	c.Rule("R15.7", "annotations / labels written to a custom resource do not alias the live object's maps", 2)
	cu := p.Func("pkg/trafficrouting/network/customNetworkProvider.customController.compareAndUpdateObject")
	if cu == nil {
		c.Unresolved("R15.7", "customController.compareAndUpdateObject")
	} else {
		isGetterCall := func(v ssa.Value, getter string) (*ssa.Call, bool) {
			call, ok := v.(*ssa.Call)
			if !ok {
				return nil, false
			}
			cn := ""
			if call.Call.IsInvoke() {
				cn = call.Call.Method.Name()
			} else if f := call.Call.StaticCallee(); f != nil {
				cn = f.Name()
			}
			return call, cn == getter
		}
		for _, pr := range withHelperInstrs(cu) {
			ci, isCall := pr.in.(ssa.CallInstruction)
			if !isCall {
				continue
			}
			cc := ci.Common()
			var m string
			if cc.IsInvoke() {
				m = cc.Method.Name()
			} else if f := cc.StaticCallee(); f != nil {
				m = f.Name()
			}
			if m != "SetAnnotations" && m != "SetLabels" {
				continue
			}
			arg := cc.Args[len(cc.Args)-1]
			getter := "Get" + strings.TrimPrefix(m, "Set")
			bad := ""
			if pr.in != pr.site {
				// the write sits in a helper of the package: what compareAndUpdateObject stores into the
				// struct (or passes as the map) it hands to the helper must not be the live object's map
				site := pr.site.(ssa.CallInstruction)
				h := site.Common().StaticCallee()
				sl := BackwardSlice(arg)
				for i, hp := range h.Params {
					if !sl[hp] || i >= len(site.Common().Args) {
						continue
					}
					a := site.Common().Args[i]
					cands := []ssa.Value{a}
					if ld, ok := a.(*ssa.UnOp); ok {
						if al, ok := ld.X.(*ssa.Alloc); ok {
							for _, st := range AllocStoresOf(al) {
								cands = append(cands, st.Val)
							}
						}
					}
					for _, cv := range cands {
						for _, lf := range Leaves(Forwarded(cv), site.Block()) {
							if call, is := isGetterCall(lf.V, getter); is {
								bad = "one of the values that reach " + m + " is the live object's own " + getter + "() map (" + p.Pos(call.Pos()) + ")"
							}
						}
					}
				}
				c.Ob("R15.7", "compareAndUpdateObject#"+m, pr.site.Pos(), bad == "", "the map handed to "+m+" is the script's result or a fresh map",
					ifs(bad != "", bad+": keys written for an earlier step stay in place when the script's output for this step has none, so steps accumulate"))
				continue
			}
			for _, lf := range Leaves(Forwarded(arg), ci.Block()) {
				if call, ok := lf.V.(*ssa.Call); ok {
					cn := ""
					if call.Call.IsInvoke() {
						cn = call.Call.Method.Name()
					} else if f := call.Call.StaticCallee(); f != nil {
						cn = f.Name()
					}
					if cn == getter {
						bad = "one of the values that reach " + m + " is the live object's own " + getter + "() map (" + p.Pos(call.Pos()) + ")"
					}
				}
			}
			c.Ob("R15.7", "compareAndUpdateObject#"+m, ci.Pos(), bad == "", "the map handed to "+m+" is the script's result or a fresh map",
				ifs(bad != "", bad+": keys written for an earlier step stay in place when the script's output for this step has none, so steps accumulate"))
		}
	}

	c.Rule("R15.8", "Finalise of the custom provider cannot answer without error from inside the loop over the referenced resources", 1)
	fin := p.Func("pkg/trafficrouting/network/customNetworkProvider.customController.Finalise")
	if fin == nil {
		c.Unresolved("R15.8", "customController.Finalise")
		return
	}
	var inLoop map[*ssa.BasicBlock]bool
	for _, b := range fin.Blocks {
		for _, in := range b.Instrs {
			switch x := in.(type) {
			case *ssa.IndexAddr, *ssa.Index:
				var base ssa.Value
				if ia, ok := x.(*ssa.IndexAddr); ok {
					base = ia.X
				} else {
					base = x.(*ssa.Index).X
				}
				if t := TermOf(base); MField("TrafficConf")(t) || t.Any(MField("TrafficConf")) {
					inLoop = loopBlocks(b)
				}
			}
		}
	}
	if inLoop == nil {
		c.Unresolved("R15.8", "customController.Finalise: loop over conf.TrafficConf")
		return
	}
	bad := ""
	succ0 := successReturn(fin)
	// errList.ToAggregate() is nil whenever nothing was collected: such a return can report success too
	succ := func(in ssa.Instruction) bool {
		if succ0(in) {
			return true
		}
		ret, ok := in.(*ssa.Return)
		if !ok || ret.Block() == fin.Recover || len(ret.Results) == 0 {
			return false
		}
		for _, lf := range Leaves(Forwarded(ret.Results[len(ret.Results)-1]), ret.Block()) {
			v := lf.V
			if ci, ok := v.(*ssa.ChangeInterface); ok {
				v = Forwarded(ci.X)
			}
			if call, ok := v.(*ssa.Call); ok && call.Call.StaticCallee() != nil && call.Call.StaticCallee().Name() == "ToAggregate" {
				return true
			}
		}
		return false
	}
	for b := range inLoop {
		for _, in := range b.Instrs {
			if succ(in) {
				bad = "the return at " + p.Pos(in.Pos()) + " lies inside the loop and can carry a nil error"
			}
		}
	}
	// early exits: edges that leave the loop from a block other than its header (break / return in the body)
	header := map[*ssa.BasicBlock]bool{}
	for b := range inLoop {
		for _, pr := range b.Preds {
			if !inLoop[pr] {
				header[b] = true
			}
		}
	}
	for lb := range inLoop {
		if header[lb] {
			continue
		}
		for _, sblk := range lb.Succs {
			if inLoop[sblk] {
				continue
			}
			if r, at := CanReach(Point{Block: sblk}, succ, ReachOpts{}); r {
				bad = "the return at " + p.Pos(at.Pos()) + " is reached by leaving the loop body early (from " + p.Pos(firstPos(lb)) + ") and can carry a nil error"
			}
		}
	}
	c.Ob("R15.8", "customController.Finalise#no-success-inside-loop", fin.Pos(), bad == "", "success is answered only after every referenced resource was visited",
		ifs(bad != "", bad+": the resources listed after the current one are never restored, yet the caller is told the step is complete"))
}

func firstPos(b *ssa.BasicBlock) token.Pos {
	for _, in := range b.Instrs {
		if in.Pos() != token.NoPos {
			return in.Pos()
		}
	}
	return token.NoPos
}

// ---------------------------------------------------------------- C16 R16.8, R16.9

func r4C16(c *Ctx) {
	p := c.Prog
	c.Rule("R16.8", "cursor-driven loops of the Lua/JSON bridge advance the cursor on every iteration", 2)
	n := 0
	var usesNumber ssa.Instruction
	for _, fn := range p.RepoFuncs() {
		if !strings.HasPrefix(FuncName(fn), "pkg/util/luamanager.") {
			continue
		}
		for _, ci := range AllCalls(fn) {
			if strings.HasSuffix(CalleeName(ci.Common()), "json.Decoder.UseNumber") {
				usesNumber = ci.(ssa.Instruction)
			}
		}
		for _, b := range fn.Blocks {
			loop := loopBlocks(b)
			if !loop[b] {
				continue
			}
			for _, in := range b.Instrs {
				ph, ok := in.(*ssa.Phi)
				if !ok {
					break
				}
				// the phi must feed the condition that decides whether the loop goes on
				feeds := false
				for _, lb := range fn.Blocks {
					if !loop[lb] || len(lb.Instrs) == 0 {
						continue
					}
					iff, ok := lb.Instrs[len(lb.Instrs)-1].(*ssa.If)
					if !ok {
						continue
					}
					exits := false
					for _, s := range lb.Succs {
						if !loop[s] {
							exits = true
						}
					}
					if exits && BackwardSlice(iff.Cond)[ph] {
						feeds = true
					}
				}
				if !feeds {
					continue
				}
				n++
				bad := ""
				for i, e := range ph.Edges {
					pred := b.Preds[i]
					if !loop[pred] {
						continue
					}
					v := e
					for k := 0; k < 8; k++ {
						q, ok := v.(*ssa.Phi)
						if !ok || q == ph {
							break
						}
						// a phi that merges only ph itself is no progress either
						same := true
						for _, qe := range q.Edges {
							if qe != ssa.Value(ph) {
								same = false
							}
						}
						if same {
							v = ph
						}
						break
					}
					if v == ssa.Value(ph) {
						bad = "on the way back from block " + fmt.Sprint(pred.Index) + " the cursor " + ph.Comment + " is unchanged"
					}
				}
				c.Ob("R16.8", shortName(FuncName(fn))+"#loop("+ph.Comment+")", ph.Pos(), bad == "", "the loop cursor changes on every back edge",
					ifs(bad != "", bad+": the loop spins forever inside a Go call, which the script's context deadline cannot interrupt"))
			}
		}
	}
	if n == 0 {
		c.Unresolved("R16.8", "cursor-driven loops in pkg/util/luamanager")
	}

	c.Rule("R16.9", "numbers decoded from JSON reach scripts as Lua numbers", 1)
	dv := p.Func("pkg/util/luamanager.DecodeValue")
	if dv == nil {
		c.Unresolved("R16.9", "luamanager.DecodeValue")
		return
	}
	numberAsString := false
	for _, b := range dv.Blocks {
		for _, in := range b.Instrs {
			ta, ok := in.(*ssa.TypeAssert)
			if !ok || !strings.HasSuffix(ta.AssertedType.String(), "encoding/json.Number") {
				continue
			}
			// what is built from the asserted value?
			for _, b2 := range dv.Blocks {
				for _, in2 := range b2.Instrs {
					if cv, ok := in2.(*ssa.ChangeType); ok && strings.HasSuffix(cv.Type().String(), "lua.LString") && BackwardSlice(cv.X)[ta] {
						numberAsString = true
					}
					if cv, ok := in2.(*ssa.Convert); ok && strings.HasSuffix(cv.Type().String(), "lua.LString") && BackwardSlice(cv.X)[ta] {
						numberAsString = true
					}
				}
			}
		}
	}
	ok := !(usesNumber != nil && numberAsString)
	pos := dv.Pos()
	if usesNumber != nil {
		pos = usesNumber.Pos()
	}
	c.Ob("R16.9", "luamanager.Decode#numbers-stay-numbers", pos, ok, "the decoder's number representation is one DecodeValue maps to a Lua number",
		ifs(!ok, "the JSON decoder is switched to json.Number, and DecodeValue converts json.Number to a Lua string: every decoded number reaches the script as a string"))
}

// ---------------------------------------------------------------- C17 R17.7

func r4C17(c *Ctx) {
	p := c.Prog
	c.Rule("R17.7", "ResolveFenceposts is given both rolling-update bounds", 2)
	rf := p.Func("pkg/controller/deployment/util.ResolveFenceposts")
	if rf == nil {
		c.Unresolved("R17.7", "deployment/util.ResolveFenceposts")
		return
	}
	for _, cs := range p.Callers(rf) {
		if cs.Kind != "static" || len(cs.Args) < 2 {
			continue
		}
		a0, a1 := TermOf(cs.Args[0]), TermOf(cs.Args[1])
		has := func(t *Term, f string) bool { return MField(f)(t) || t.Any(MField(f)) }
		ok := has(a0, "MaxSurge") && has(a1, "MaxUnavailable")
		c.Ob("R17.7", shortName(FuncName(cs.Caller))+"#ResolveFenceposts-args", cs.Instr.Pos(), ok, "maxSurge and maxUnavailable are both passed",
			ifs(!ok, "called with ("+a0.String()+", "+a1.String()+"): with one bound hidden the zero/zero correction turns a maxUnavailable of 0 into 1 although maxSurge is positive, so one available pod too many may be taken down"))
	}
}

// ---------------------------------------------------------------- C19 R19.7, R19.8

func r4C19(c *Ctx) {
	p := c.Prog
	c.Rule("R19.7", "List calls are restricted to one namespace", 10)
	exempt := map[string]string{
		"pkg/util/client.": "delegating client: forwards the caller's options unchanged",
		"pkg/controller/deployment.MutatingWebhookEventHandler.enqueue": "webhook-configuration event fans out to every advanced Deployment of the cluster, each enqueued under its own namespaced key",
	}
	var nsIn func(v ssa.Value, fn *ssa.Function, depth int) bool
	nsIn = func(v ssa.Value, fn *ssa.Function, depth int) bool {
		for x := range BackwardSlice(v) {
			ts := x.Type().String()
			if strings.HasSuffix(ts, "controller-runtime/pkg/client.InNamespace") {
				return true
			}
			if al, ok := x.(*ssa.Alloc); ok && strings.HasSuffix(al.Type().String(), "client.ListOptions") {
				for _, st := range AllocStoresOf(al) {
					if fa, ok := st.Addr.(*ssa.FieldAddr); ok {
						if n, _ := FieldOf(fa); n == "Namespace" {
							return true
						}
					}
				}
			}
			if par, ok := x.(*ssa.Parameter); ok && depth < 2 && strings.Contains(par.Type().String(), "ListOption") {
				// options supplied by the callers: every caller must restrict
				idx := -1
				for i, q := range fn.Params {
					if q == par {
						idx = i
					}
				}
				cs := p.Callers(fn)
				if idx < 0 || len(cs) == 0 {
					continue
				}
				all := true
				for _, site := range cs {
					if site.Kind == "closure" || idx >= len(site.Args) || !nsIn(site.Args[idx], site.Caller, depth+1) {
						all = false
					}
				}
				if all {
					return true
				}
			}
		}
		return false
	}
	for _, fn := range p.RepoFuncs() {
		name := FuncName(fn)
		if !(strings.HasPrefix(name, "pkg/")) {
			continue
		}
		why := ""
		for pre, w := range exempt {
			if strings.HasPrefix(name, pre) {
				why = w
			}
		}
		for _, ci := range AllCalls(fn) {
			cc := ci.Common()
			if !cc.IsInvoke() || cc.Method.Name() != "List" || !strings.Contains(cc.Value.Type().String(), "client.") || len(cc.Args) < 3 {
				continue
			}
			if why != "" {
				c.Ob("R19.7", shortName(name)+"#List(exempt)", ci.Pos(), true, "cluster-wide by design: "+why, "")
				continue
			}
			ok := nsIn(cc.Args[len(cc.Args)-1], fn, 0)
			c.Ob("R19.7", shortName(name)+"#List("+strings.TrimPrefix(TermOf(cc.Args[1]).String(), "&")+")", ci.Pos(), ok, "the list options name a namespace",
				ifs(!ok, "no InNamespace / ListOptions.Namespace among the options (nor supplied by every caller): objects of other namespaces that carry the same label values are returned, and a same-named workload of another tenant is taken for this rollout's"))
		}
	}

	c.Rule("R19.8", "UpdateFinalizer edits the finalizer list of the object it fetched", 1)
	uf := p.Func("pkg/util.UpdateFinalizer")
	if uf == nil {
		c.Unresolved("R19.8", "pkg/util.UpdateFinalizer")
		return
	}
	fns := samePkgClosure(p, uf)
	found := false
	for _, f := range fns {
		for _, ci := range AllCalls(f) {
			cc := ci.Common()
			if !cc.IsInvoke() || cc.Method.Name() != "SetFinalizers" {
				continue
			}
			found = true
			recv := rootOfObject(Forwarded(cc.Value))
			bad := ""
			srcs, foreign := finalizerSources(p, cc.Args[0], 0)
			for _, src := range srcs {
				if src != recv {
					bad = "the list handed to SetFinalizers is built from " + TermOf(src).String() + ".GetFinalizers(), not from the object that is written"
				}
			}
			if foreign != "" {
				bad = "the list handed to SetFinalizers is built from " + foreign + ", not from the object that is written"
			}
			if len(srcs) == 0 && foreign == "" {
				bad = "the list handed to SetFinalizers does not derive from the fetched object's GetFinalizers()"
			}
			c.Ob("R19.8", "util.UpdateFinalizer#list-from-fetched-object", ci.Pos(), bad == "", "the new finalizer list derives from the freshly fetched object",
				ifs(bad != "", bad+": the update carries the fresh resourceVersion, so the conflict check passes while finalizers added or removed by another worker since the caller's read are overwritten"))
		}
	}
	if !found {
		c.Unresolved("R19.8", "pkg/util.UpdateFinalizer: SetFinalizers call")
	}
}

// ---------------------------------------------------------------- C20 R20.5

func r4C20(c *Ctx) {
	p := c.Prog
	c.Rule("R20.5", "early returns on an absent optional block skip only writes that depend on that block", 0)
	for _, name := range []string{"api/v1alpha1.Rollout.ConvertTo", "api/v1alpha1.Rollout.ConvertFrom", "api/v1alpha1.BatchRelease.ConvertTo", "api/v1alpha1.BatchRelease.ConvertFrom"} {
		fn := p.Func(name)
		if fn == nil {
			c.Unresolved("R20.5", name)
			continue
		}
		succ := successReturn(fn)
		for _, ret := range returnsOf(fn) {
			if !succ(ret) {
				continue
			}
			// nil-guards on source fields under which this return is taken
			var guards []string
			for _, f := range FactsAtInstr(ret) {
				if f.Op == "==" && f.R.Op == "const" && f.R.Name == "nil" && f.L.Op == "field" {
					guards = append(guards, f.L.Name)
				}
			}
			if len(guards) == 0 {
				continue
			}
			dependsOnGuard := func(t *Term) bool {
				for _, g := range guards {
					if MField(g)(t) || t.Any(MField(g)) {
						return true
					}
				}
				return false
			}
			bad := ""
			for _, b := range fn.Blocks {
				for _, in := range b.Instrs {
					var addr, val ssa.Value
					switch x := in.(type) {
					case *ssa.Store:
						addr, val = x.Addr, x.Val
					case *ssa.MapUpdate:
						addr, val = x.Map, x.Value
					default:
						continue
					}
					// only writes into the destination object (not into local temporaries)
					root := addr
					for i := 0; i < 32; i++ {
						switch y := root.(type) {
						case *ssa.IndexAddr:
							root = y.X
							continue
						case *ssa.FieldAddr:
							root = y.X
							continue
						case *ssa.UnOp:
							root = y.X
							continue
						case *ssa.Slice:
							root = y.X
							continue
						}
						break
					}
					if _, isAlloc := root.(*ssa.Alloc); isAlloc {
						continue
					}
					if in.Block() == ret.Block() {
						continue
					}
					// can the return still be reached after this write? then the write is not skipped by it
					if r, _ := CanReach(PointAfter(in), func(y ssa.Instruction) bool { return y == ssa.Instruction(ret) }, ReachOpts{}); r {
						continue
					}
					// writes on the error / other-type branches do not count: the write must be reachable from where the guard is tested
					if r, _ := CanReach(Entry(fn), func(y ssa.Instruction) bool { return y == in }, ReachOpts{CutInstr: func(y ssa.Instruction) bool { return y == ssa.Instruction(ret) }}); !r {
						continue
					}
					if dependsOnGuard(TermOf(addr)) || SliceHas(val, func(t *Term) bool { return dependsOnGuard(t) }) {
						continue
					}
					bad = "the write to " + TermOf(addr).String() + " at " + p.Pos(in.Pos()) + " does not depend on " + strings.Join(guards, "/") + " but happens only after the early return at " + p.Pos(ret.Pos())
				}
			}
			c.Ob("R20.5", name+"#early-return("+strings.Join(guards, ",")+" == nil)", ret.Pos(), bad == "", "the early return skips only what depends on the absent block",
				ifs(bad != "", bad+": an object whose optional block is absent loses that field in conversion"))
		}
	}
}

// ---------------------------------------------------------------- C07 R7.7, R7.8

func r4C07(c *Ctx) {
	p := c.Prog
	c.Rule("R7.7", "ignored label keys are removed from labels, ignored annotation keys from annotations", 2)
	if fn := p.Func("pkg/util.EqualIgnoreSpecifyMetadata"); fn == nil {
		c.Unresolved("R7.7", "util.EqualIgnoreSpecifyMetadata")
	} else {
		var pl, pa *ssa.Parameter
		// the two []string parameters, in declaration order: label keys first, annotation keys second
		for _, q := range fn.Params {
			if q.Type().String() != "[]string" {
				continue
			}
			if pl == nil {
				pl = q
			} else if pa == nil {
				pa = q
			}
		}
		if pl == nil || pa == nil {
			c.Unresolved("R7.7", "util.EqualIgnoreSpecifyMetadata: ignoreLabels / ignoreAnno parameters")
		} else {
			seen := map[string]bool{}
			var scan func(g *ssa.Function, gl, ga *ssa.Parameter, depth int)
			scan = func(g *ssa.Function, gl, ga *ssa.Parameter, depth int) {
				for _, ci := range AllCalls(g) {
					bi, ok := ci.Common().Value.(*ssa.Builtin)
					if !ok || bi.Name() != "delete" || len(ci.Common().Args) != 2 {
						// the two key lists handed on to a helper of the package: judged there
						if h := ci.Common().StaticCallee(); h != nil && h.Pkg == g.Pkg && h.Blocks != nil && depth < 2 {
							var hl, ha *ssa.Parameter
							for ai, a := range ci.Common().Args {
								if ai >= len(h.Params) {
									break
								}
								as := BackwardSlice(a)
								if as[gl] && !as[ga] {
									hl = h.Params[ai]
								}
								if as[ga] && !as[gl] {
									ha = h.Params[ai]
								}
							}
							if hl != nil && ha != nil {
								scan(h, hl, ha, depth+1)
							}
						}
						continue
					}
					m, k := ci.Common().Args[0], ci.Common().Args[1]
					ks := BackwardSlice(k)
					want := ""
					switch {
					case ks[ga] && !ks[gl]:
						want = "Annotations"
					case ks[gl] && !ks[ga]:
						want = "Labels"
					default:
						continue
					}
					src := "ignoreAnno"
					if want == "Labels" {
						src = "ignoreLabels"
					}
					mt := TermOf(m)
					ok2 := MField(want)(mt) || mt.Any(MField(want))
					seen[want] = true
					c.Ob("R7.7", "EqualIgnoreSpecifyMetadata#delete("+want+")", ci.Pos(), ok2, "keys of "+src+" are deleted from "+want,
						ifs(!ok2, "the key comes from "+src+" but is deleted from "+mt.String()+": patched "+strings.ToLower(want)+" are not ignored, the canary Deployment created earlier is never recognised and a new one is created on every reconcile"))
				}
			}
			scan(fn, pl, pa, 0)
			for _, w := range []string{"Labels", "Annotations"} {
				if !seen[w] {
					c.Ob("R7.7", "EqualIgnoreSpecifyMetadata#delete("+w+")", fn.Pos(), false, "ignored keys are deleted from "+w, "no delete of an ignored key from "+w+" found")
				}
			}
		}
	}

	c.Rule("R7.8", "the grace wrapper answers retry with a wait derived from graceSeconds only when graceSeconds != 0", 1)
	fn := p.Func("pkg/util/grace.runWithGraceSeconds")
	if fn == nil {
		c.Unresolved("R7.8", "grace.runWithGraceSeconds")
		return
	}
	var gs *ssa.Parameter
	for _, q := range fn.Params {
		if b, ok := q.Type().Underlying().(*types.Basic); ok && b.Kind() == types.Int32 {
			gs = q
		}
	}
	if gs == nil {
		c.Unresolved("R7.8", "grace.runWithGraceSeconds: graceSeconds parameter")
		return
	}
	n := 0
	for _, f := range samePkgClosure(p, fn) {
		if f != fn && !strings.HasPrefix(FuncName(f), "pkg/util/grace.") {
			continue
		}
		for _, ret := range returnsOf(f) {
			if len(ret.Results) < 2 || ret.Block() == f.Recover {
				continue
			}
			// the wait is the time.Duration result
			wi := -1
			for i, r := range ret.Results {
				if strings.HasSuffix(r.Type().String(), "time.Duration") {
					wi = i
				}
			}
			if wi < 0 {
				continue
			}
			for _, lf := range Leaves(ret.Results[wi], ret.Block()) {
				// only waits computed from graceSeconds itself (graceSeconds * time.Second), not the
				// remaining time of a pending expectation
				bo, isMul := Forwarded(lf.V).(*ssa.BinOp)
				if !isMul || bo.Op != token.MUL {
					continue
				}
				fromGS := false
				for x := range BackwardSlice(lf.V) {
					if par, ok := x.(*ssa.Parameter); ok {
						if b, ok := par.Type().Underlying().(*types.Basic); ok && b.Kind() == types.Int32 {
							fromGS = true
							gs = par
						}
					}
				}
				if !fromGS {
					continue
				}
				n++
				fs := append(append([]Fact{}, FactsAtInstr(ret)...), lf.Facts...)
				nz := HasFact(fs, func(fc Fact) bool {
					return (fc.Op == "!=" || fc.Op == ">") && fc.L != nil && fc.L.V == ssa.Value(gs) && fc.R != nil && fc.R.Op == "const" && fc.R.Name == "0"
				})
				c.Ob("R7.8", "runWithGraceSeconds#retry-with-grace-wait", ret.Pos(), nz, "retry with graceSeconds·s is answered under graceSeconds != 0",
					ifs(!nz, "this return asks for a retry after graceSeconds seconds without having excluded graceSeconds == 0: with an explicit gracePeriodSeconds of 0 the caller stores a recheck time of now, RequeueAfter is not positive and nothing wakes the rollout up again")).WithFacts(fs)
			}
		}
	}
	if n == 0 {
		c.Ob("R7.8", "runWithGraceSeconds#retry-with-grace-wait", fn.Pos(), false, "a retry return whose wait derives from graceSeconds", "none found")
	}
}

// ---------------------------------------------------------------- C08 R8.8

func r4C08(c *Ctx) {
	p := c.Prog
	c.Rule("R8.8", "the partition-only handlers skip an update only for the enumerated reasons", 2)
	pk := "pkg/webhook/workload/mutating."
	idLookup := func(t *Term) bool {
		return t.Op == "lookup" && len(t.Args) == 2 && t.Args[1].Op == "const" && strings.HasSuffix(t.Args[1].Name, "rollout-id")
	}
	// "no pods" is a reason only for kinds whose size is in the spec: for a DaemonSet GetReplicas
	// reads status.desiredNumberScheduled, which a replace request built from a manifest leaves 0
	specSized := func(t *Term) bool {
		if !MCall("util.GetReplicas")(t) {
			return false
		}
		call, ok := t.V.(*ssa.Call)
		if !ok || len(call.Call.Args) == 0 {
			return false
		}
		a := call.Call.Args[0]
		if mi, ok := a.(*ssa.MakeInterface); ok {
			a = mi.X
		}
		return !strings.Contains(a.Type().String(), "DaemonSet")
	}
	allowed := FOr(
		FCmp("==", specSized, MConst("0")),
		FFalse(MCall("util.IsStatefulSetRollingUpdate")),
		FNil(MCall("util.GetTemplate")),
		FCmp("==", idLookup, idLookup),
		FNil(MResult("fetchMatchedRollout", 0)),
		FTrue(MCall("RolloutStrategy.IsEmptyRelease")),
	)
	for _, name := range []string{pk + "UnifiedWorkloadHandler.handleStatefulSetLikeWorkload", pk + "WorkloadHandler.handleDaemonSet"} {
		fn := p.Func(name)
		if fn == nil {
			c.Unresolved("R8.8", name)
			continue
		}
		noChange := func(in ssa.Instruction) bool {
			ret, ok := in.(*ssa.Return)
			if !ok || len(ret.Results) != 2 || ret.Block() == fn.Recover {
				return false
			}
			if e, isC := ret.Results[1].(*ssa.Const); !isC || !e.IsNil() {
				return false
			}
			for _, lf := range BoolLeaves(ret.Results[0], ret.Block()) {
				if k, ok := lf.V.(*ssa.Const); ok && constText(k) == "false" {
					return true
				}
			}
			return false
		}
		// "the template did not change" is a reason only when no rollout-id is in use (with one, the id
		// alone says whether this is a new release): the comparison of the templates is consulted —
		// here or in a predicate helper of the package — only where the new rollout-id is known empty
		noID := FCmp("==", idLookup, MConst(""))
		sameTemplate := FTrue(MCall("util.EqualIgnoreHash"))
		unguarded := ""
		for _, g := range samePkgClosure(p, fn) {
			for _, ci := range CallsIn(g, "util.EqualIgnoreHash") {
				if !HasFact(FactsAtInstr(ci.(ssa.Instruction)), noID) {
					unguarded = p.Pos(ci.Pos())
				}
			}
		}
		withTemplate := FOr(allowed, sameTemplate)
		reach, at := CanReach(Entry(fn), noChange, ReachOpts{CutEdge: func(b *ssa.BasicBlock, k int) bool {
			if unguarded != "" {
				return EdgeFactMatches(b, k, allowed)
			}
			return EdgeFactMatches(b, k, withTemplate)
		}})
		detail := ""
		if reach {
			detail = "the return at " + p.Pos(at.Pos()) + " answers 'unchanged' for a reason outside the list: a release change of a workload with a live Rollout is admitted without the partition freeze, and the native controller starts replacing pods"
		}
		c.Ob("R8.8", shortName(name)+"#skip-reasons", fn.Pos(), !reach, "every (false, nil) answer is for one of the enumerated reasons", detail)
	}
}

// ---------------------------------------------------------------- C11 R11.8, R11.9

func r4C11(c *Ctx) {
	p := c.Prog
	c.Rule("R11.8", "the release-plan hash covers the whole plan", 1)
	if fn := p.Func("pkg/util.HashReleasePlanBatches"); fn == nil || len(fn.Params) == 0 {
		c.Unresolved("R11.8", "util.HashReleasePlanBatches")
	} else {
		found := false
		for _, ci := range AllCalls(fn) {
			if !strings.HasSuffix(CalleeName(ci.Common()), "json.Marshal") || len(ci.Common().Args) == 0 {
				continue
			}
			found = true
			v := ci.Common().Args[0]
			for i := 0; i < 8; i++ {
				switch x := v.(type) {
				case *ssa.MakeInterface:
					v = x.X
					continue
				case *ssa.UnOp:
					if x.Op == token.MUL {
						v = x.X
						continue
					}
				}
				break
			}
			ok := v == ssa.Value(fn.Params[0])
			c.Ob("R11.8", "HashReleasePlanBatches#hashed-value", ci.Pos(), ok, "the marshalled value is the release plan itself",
				ifs(!ok, "the hash is computed over "+TermOf(v).String()+", not over the whole plan: a change of batchPartition alone (a step back, a jump backwards) is no longer a plan change, currentBatch is never pulled back and the batch keeps reporting Ready"))
		}
		if !found {
			c.Unresolved("R11.8", "util.HashReleasePlanBatches: json.Marshal call")
		}
	}

	c.Rule("R11.9", "blue-green Deployment: candidates for the new ReplicaSet are owned and not terminating", 1)
	fn := p.Func("pkg/controller/batchrelease/control/bluegreenstyle/deployment.realController.getUpdatedReadyReplicas")
	if fn == nil {
		c.Unresolved("R11.9", "bluegreenstyle/deployment.realController.getUpdatedReadyReplicas")
		return
	}
	n := 0
	for _, ci := range AllCalls(fn) {
		bi, ok := ci.Common().Value.(*ssa.Builtin)
		if !ok || bi.Name() != "append" || len(ci.Common().Args) < 2 {
			continue
		}
		// the appended element comes from the listed items
		fromItems := false
		for x := range BackwardSlice(ci.Common().Args[1]) {
			if t := TermOf(x); MField("Items")(t) || t.Any(MField("Items")) {
				fromItems = true
			}
		}
		if !fromItems {
			continue
		}
		n++
		fs := FactsAtInstr(ci.(ssa.Instruction))
		owned := HasFact(fs, FTrue(MCall("IsControlledBy")))
		live := HasFact(fs, FTrue(MCall("Time.IsZero", MField("DeletionTimestamp"))))
		var miss []string
		if !owned {
			miss = append(miss, "metav1.IsControlledBy(rs, d) == true")
		}
		if !live {
			miss = append(miss, "rs.DeletionTimestamp.IsZero() == true")
		}
		c.Ob("R11.9", "getUpdatedReadyReplicas#candidate", ci.Pos(), len(miss) == 0, "a ReplicaSet becomes a candidate only when it is controlled by the Deployment and not terminating",
			ifs(len(miss) > 0, "not established on the path to the append: "+strings.Join(miss, "; ")+" — a foreign ReplicaSet with the same labels and template can be taken for the new one, and its ready pods reported as this release's")).WithFacts(fs)
	}
	if n == 0 {
		c.Ob("R11.9", "getUpdatedReadyReplicas#candidate", fn.Pos(), false, "append of a listed ReplicaSet to the candidate list", "anchor not found")
	}
}

// ---------------------------------------------------------------- C09 R9.6

func r4C09(c *Ctx) {
	p := c.Prog
	c.Rule("R9.6", "the finalising path dereferences the sub-status only under its own nil check", 2)
	root := p.Func("pkg/controller/rollout.RolloutReconciler.doFinalising")
	if root == nil {
		c.Unresolved("R9.6", "rollout.RolloutReconciler.doFinalising")
		return
	}
	n := 0
	for _, fn := range samePkgClosure(p, root) {
		ds := OptionalDerefs(fn, func(owner, field string) bool {
			return strings.HasSuffix(owner, "RolloutStatus") && (field == "CanaryStatus" || field == "BlueGreenStatus")
		})
		uses := false
		for _, b := range fn.Blocks {
			for _, in := range b.Instrs {
				if fa, ok := in.(*ssa.FieldAddr); ok {
					if nm, _ := FieldOf(fa); nm == "CanaryStatus" || nm == "BlueGreenStatus" {
						uses = true
					}
				}
			}
		}
		if !uses {
			continue
		}
		n++
		detail := ""
		if len(ds) > 0 {
			d := ds[0]
			detail = "status." + d.Field.Name() + " is dereferenced at " + p.Pos(d.Instr.Pos()) + " without a nil check of that pointer on the path: a Rollout that is deleted before its first release (or right after the strategy was switched between canary and blue-green) makes the controller panic on every reconcile"
		}
		c.Ob("R9.6", shortName(FuncName(fn))+"#sub-status-deref", fn.Pos(), len(ds) == 0, "sub-status pointers are dereferenced under their own nil check", detail)
	}
	if n == 0 {
		c.Unresolved("R9.6", "functions under doFinalising that read the sub-status")
	}
}

// finalizerSources: the objects (roots, in the frame of the function v lives in) whose
// GetFinalizers() result flows into v, followed through repository helpers that build the list
// from one of their parameters. foreign describes a source that is not expressible in that frame.
func finalizerSources(p *Program, v ssa.Value, depth int) (roots []ssa.Value, foreign string) {
	for x := range BackwardSlice(v) {
		call, ok := x.(*ssa.Call)
		if !ok {
			continue
		}
		if call.Call.IsInvoke() {
			if call.Call.Method.Name() == "GetFinalizers" {
				roots = append(roots, rootOfObject(Forwarded(call.Call.Value)))
			}
			continue
		}
		g := call.Call.StaticCallee()
		if g == nil || g.Blocks == nil || depth >= 2 || g.Pkg == nil || !strings.HasPrefix(g.Pkg.Pkg.Path(), ModPath) {
			continue
		}
		for _, ret := range returnsOf(g) {
			for _, res := range ret.Results {
				if !strings.HasPrefix(res.Type().String(), "[]string") {
					continue
				}
				inner, f2 := finalizerSources(p, res, depth+1)
				if f2 != "" {
					foreign = f2
				}
				for _, r := range inner {
					mapped := false
					for i, par := range g.Params {
						if r == ssa.Value(par) && i < len(call.Call.Args) {
							roots = append(roots, rootOfObject(Forwarded(call.Call.Args[i])))
							mapped = true
						}
					}
					if !mapped {
						foreign = TermOf(r).String() + ".GetFinalizers() inside " + shortName(FuncName(g))
					}
				}
			}
		}
	}
	return roots, foreign
}

// ---------------------------------------------------------------- C17 R17.8

// sliceRoot strips conversions so that a slice and its typed views (sort.Interface adapters) are one value.
func sliceRoot(v ssa.Value) ssa.Value {
	for i := 0; i < 16; i++ {
		switch x := v.(type) {
		case *ssa.MakeInterface:
			v = x.X
		case *ssa.ChangeType:
			v = x.X
		case *ssa.Convert:
			v = x.X
		case *ssa.ChangeInterface:
			v = x.X
		default:
			return Forwarded(v)
		}
	}
	return v
}

func r4C17b(c *Ctx) {
	p := c.Prog
	c.Rule("R17.8", "a ReplicaSet list is not re-ordered in place while another list that may share its backing array is still read", 1)
	var fns []*ssa.Function
	for _, fn := range p.RepoFuncs() {
		if strings.HasPrefix(FuncName(fn), "pkg/controller/deployment") {
			fns = append(fns, fn)
		}
	}
	if len(fns) == 0 {
		c.Unresolved("R17.8", "functions of pkg/controller/deployment")
		return
	}
	isSortCall := func(ci ssa.CallInstruction) bool {
		cn := CalleeName(ci.Common())
		return cn == "sort.Sort" || cn == "sort.Stable" || cn == "sort.Slice" || cn == "sort.SliceStable" || strings.HasPrefix(cn, "slices.Sort")
	}
	// sorted[f][i]: f re-orders the slice passed as parameter i
	sorted := map[*ssa.Function]map[int]bool{}
	paramIndex := func(f *ssa.Function, v ssa.Value) int {
		for i, q := range f.Params {
			if ssa.Value(q) == v {
				return i
			}
		}
		return -1
	}
	// sortSites(f): instructions in f that re-order a slice value, with that value
	type sortSite struct {
		in  ssa.Instruction
		val ssa.Value
	}
	sortSites := func(f *ssa.Function) []sortSite {
		var out []sortSite
		for _, ci := range AllCalls(f) {
			if isSortCall(ci) && len(ci.Common().Args) > 0 {
				out = append(out, sortSite{ci.(ssa.Instruction), sliceRoot(ci.Common().Args[0])})
				continue
			}
			for _, g := range p.Callees(ci) {
				for j := range sorted[g] {
					args := ci.Common().Args
					if ci.Common().IsInvoke() {
						continue
					}
					if j < len(args) {
						out = append(out, sortSite{ci.(ssa.Instruction), sliceRoot(args[j])})
					}
				}
			}
		}
		return out
	}
	for changed := true; changed; {
		changed = false
		for _, f := range fns {
			for _, s := range sortSites(f) {
				if i := paramIndex(f, s.val); i >= 0 {
					if sorted[f] == nil {
						sorted[f] = map[int]bool{}
					}
					if !sorted[f][i] {
						sorted[f][i] = true
						changed = true
					}
				}
			}
		}
	}
	// alias pairs per function: (x, append(x, ...)) and parameter pairs inherited from call sites
	type pair struct{ a, b ssa.Value }
	pairs := map[*ssa.Function][]pair{}
	addPair := func(f *ssa.Function, a, b ssa.Value) bool {
		for _, q := range pairs[f] {
			if (q.a == a && q.b == b) || (q.a == b && q.b == a) {
				return false
			}
		}
		pairs[f] = append(pairs[f], pair{a, b})
		return true
	}
	for _, f := range fns {
		for _, ci := range AllCalls(f) {
			bi, ok := ci.Common().Value.(*ssa.Builtin)
			if !ok || bi.Name() != "append" || len(ci.Common().Args) == 0 {
				continue
			}
			x := sliceRoot(ci.Common().Args[0])
			if k, isC := x.(*ssa.Const); isC && k.IsNil() {
				continue
			}
			if sl, isS := x.(*ssa.Slice); isS {
				if _, isA := sl.X.(*ssa.Alloc); isA {
					continue // a fresh literal
				}
			}
			// y = append(y, e) re-assigned to the same variable is the ordinary accumulator, not two lists
			res := ci.(ssa.Value)
			addPair(f, x, res)
		}
	}
	same := func(f *ssa.Function, u, v ssa.Value) bool {
		if u == v {
			return true
		}
		// through phis that merge the value with itself or with later versions of the same variable
		return false
	}
	for changed := true; changed; {
		changed = false
		for _, f := range fns {
			for _, ci := range AllCalls(f) {
				if ci.Common().IsInvoke() {
					continue
				}
				g := ci.Common().StaticCallee()
				if g == nil || g.Blocks == nil {
					continue
				}
				args := ci.Common().Args
				for _, pr := range pairs[f] {
					for i := range args {
						for j := range args {
							if i == j || i >= len(g.Params) || j >= len(g.Params) {
								continue
							}
							if same(f, sliceRoot(args[i]), pr.a) && same(f, sliceRoot(args[j]), pr.b) {
								if addPair(g, g.Params[i], g.Params[j]) {
									changed = true
								}
							}
						}
					}
				}
			}
		}
	}
	readsElems := func(v ssa.Value) func(ssa.Instruction) bool {
		return func(in ssa.Instruction) bool {
			switch x := in.(type) {
			case *ssa.Range:
				return sliceRoot(x.X) == v
			case *ssa.IndexAddr:
				return sliceRoot(x.X) == v
			case *ssa.Index:
				return sliceRoot(x.X) == v
			case ssa.CallInstruction:
				if bi, ok := x.Common().Value.(*ssa.Builtin); ok && (bi.Name() == "len" || bi.Name() == "cap") {
					return false
				}
				for _, a := range x.Common().Args {
					if sliceRoot(a) == v {
						return true
					}
				}
			}
			return false
		}
	}
	n := 0
	for _, f := range fns {
		for _, pr := range pairs[f] {
			n++
			bad := ""
			for _, s := range sortSites(f) {
				var other ssa.Value
				switch s.val {
				case pr.a:
					other = pr.b
				case pr.b:
					other = pr.a
				default:
					continue
				}
				// the two lists share an array only from the append on: a sort before it is harmless
				if ap, isInstr := pr.b.(ssa.Instruction); isInstr && ap.Parent() == f {
					if r, _ := CanReach(PointAfter(ap), func(in ssa.Instruction) bool { return in == s.in }, ReachOpts{}); !r {
						continue
					}
				}
				if r, at := CanReach(PointAfter(s.in), readsElems(other), ReachOpts{}); r {
					bad = "the list " + TermOf(s.val).String() + " is re-ordered in place at " + p.Pos(s.in.Pos()) + " and " + TermOf(other).String() + ", which may share its backing array (it is the other side of an append), is read afterwards at " + p.Pos(at.Pos())
				}
			}
			c.Ob("R17.8", shortName(FuncName(f))+"#alias("+TermOf(pr.a).String()+","+TermOf(pr.b).String()+")", f.Pos(), bad == "", "no in-place re-ordering of one list while the list it was appended from is still read",
				ifs(bad != "", bad+": when the appended-to list has spare capacity both share one array, the sort moves elements across the boundary and the old-ReplicaSet list suddenly contains the new ReplicaSet (it is then scaled down) and misses an old one"))
		}
	}
	if n == 0 {
		c.Unresolved("R17.8", "append-derived list pairs in pkg/controller/deployment")
	}
}

// ================================================================ round 5

func init() {
	extend := func(id string, expl string, extra func(c *Ctx)) {
		pr := Registry[id]
		old := pr.Run
		pr.Run = func(c *Ctx) { old(c); extra(c) }
		pr.Explanation += " " + expl
	}
	imp := func(id, from string, mapping map[string]string, expl string) {
		extend(id, expl, func(c *Ctx) {
			importFrom(c, from, mapping)
		})
	}
	extend("C01", "(R1.10) the partition handed to a CloneSet for a percentage step is itself a percentage (it scales with the workload): ParseIntegerAsPercentageIfPossible returns only intstr.FromString values; (R1.11) the three raw-patch partition-style Finalize implementations clear the partition only under batchPartition == nil — a BatchRelease that is merely going away (continuous release) leaves the webhook's hold in place.", r5C01)
	extend("C03", "(R3.9) the Gateway and Ingress providers answer 'verified' (EnsureRoutes) or 'nothing to restore' (Finalise) without a write only when the object is not found (or already terminating) or when the desired configuration was computed and found equal to the current one.", r5C03)
	imp("C13", "C03", map[string]string{"R3.9": "R13.8"}, "(R13.8 = C03 R3.9) the Gateway provider's Finalise cannot declare an HTTPRoute restored without having compared it with the restored form.")
	imp("C14", "C03", map[string]string{"R3.9": "R14.8"}, "(R14.8 = C03 R3.9) the Ingress provider cannot declare a step applied without having run the class script against the existing canary Ingress.")
	extend("C07", "(R7.9) the BatchRelease spec the release managers build (and compare with the stored one by DeepEqual) contains no freshly made empty map: the stored object reads such a map back as nil, the comparison never succeeds and the step never leaves Upgrade.", r5C07)
	extend("C08", "(R8.9) the ReplicaSets of a Deployment are listed by the Deployment's own selector (a release may change the template labels; the selector is immutable).", r5C08)
	extend("C09", "(R9.2d) the non-decreasing check of the v1beta1 step validator compares each step with its predecessor: when the predecessor's value is carried in a loop variable, the variable is refreshed on every way round the loop (no `continue` in between); (R9.7) the custom provider fills its pre-sized object list on every iteration of the fetch loop, or returns an error: the later loops dereference every entry.", r5C09)
	imp("C15", "C09", map[string]string{"R9.7": "R15.9"}, "(R15.9 = C09 R9.7) a referenced resource that is missing is an error of EnsureRoutes, not an entry that is skipped.")
	extend("C11", "(R11.10) every pod-count predicate handed to WrappedPodCount (updated-ready pods of StatefulSet-like and DaemonSet workloads, labelled pods of the batch) counts a pod only when its deletion timestamp is zero.", r5C11)
	extend("C12", "(R12.9) BatchContext.Replicas is the workload's desired size (spec), never a status counter, in every CalculateBatchContext: the label patcher's plan arithmetic and PlannedUpdatedReplicas must be computed from the same size.", r5C12)
}

func r5C01(c *Ctx) {
	p := c.Prog
	c.Rule("R1.10", "ParseIntegerAsPercentageIfPossible returns a percentage on every path", 1)
	if fn := p.Func("pkg/controller/batchrelease/control.ParseIntegerAsPercentageIfPossible"); fn == nil {
		c.Unresolved("R1.10", "control.ParseIntegerAsPercentageIfPossible")
	} else {
		bad := ""
		n := 0
		for _, ret := range returnsOf(fn) {
			if len(ret.Results) != 1 {
				continue
			}
			for _, lf := range Leaves(Forwarded(ret.Results[0]), ret.Block()) {
				n++
				t := TermOf(lf.V)
				if !(t.Op == "call" && strings.HasSuffix(t.Name, "intstr.FromString")) {
					bad = "the value returned at " + p.Pos(ret.Pos()) + " is " + t.String() + ", not an intstr.FromString(...)"
				}
			}
		}
		c.Ob("R1.10", "ParseIntegerAsPercentageIfPossible#returns-percent", fn.Pos(), n > 0 && bad == "", "every result is a string-typed (percentage) IntOrString",
			ifs(bad != "", bad+": an absolute partition does not follow a scale-up of the workload, all added pods are created on the new revision and UpgradeBatch never raises a partition again"))
	}

	c.Rule("R1.11", "raw-patch Finalize clears the partition only under batchPartition == nil", 3)
	cp := "pkg/controller/batchrelease/control/partitionstyle/"
	for _, name := range []string{cp + "cloneset.realController.Finalize", cp + "daemonset.realController.Finalize", cp + "statefulset.realController.Finalize"} {
		fn := p.Func(name)
		if fn == nil {
			c.Unresolved("R1.11", name)
			continue
		}
		found := false
		bad := ""
		for _, f := range samePkgClosure(p, fn) {
			for _, b := range f.Blocks {
				for _, in := range b.Instrs {
					for _, op := range in.Operands(nil) {
						k, ok := (*op).(*ssa.Const)
						if !ok || k.Value == nil || k.Value.Kind() != constant.String || !strings.Contains(constant.StringVal(k.Value), `"partition":null`) {
							continue
						}
						found = true
						var fs []Fact
						if ph, isPhi := in.(*ssa.Phi); isPhi {
							for i, e := range ph.Edges {
								if e == ssa.Value(k) {
									fs = append(fs, FactsFor(f).OnEdge(ph.Block().Preds[i], ph.Block())...)
									fs = append(fs, FactsFor(f).At(ph.Block().Preds[i])...)
								}
							}
						} else {
							fs = FactsAtInstr(in)
						}
						if !HasFact(fs, FNil(MField("BatchPartition"))) {
							bad = "the promoting patch body is chosen at " + p.Pos(in.Pos()) + " on a path that has not established batchPartition == nil"
						}
					}
				}
			}
		}
		if !found {
			c.Ob("R1.11", shortName(name)+"#promote-only-unpartitioned", fn.Pos(), false, "patch body that clears the partition", "anchor not found")
			continue
		}
		c.Ob("R1.11", shortName(name)+"#promote-only-unpartitioned", fn.Pos(), bad == "", "the partition is cleared only when the release plan is no longer partitioned",
			ifs(bad != "", bad+": a BatchRelease deleted with its partition still set (continuous release) releases the whole workload to the newest revision while the rollout restarts at step one"))
	}
}

func r5C03(c *Ctx) {
	p := c.Prog
	c.Rule("R3.9", "providers answer settled without a write only on not-found / desired == current", 4)
	isWrite := apiWrites(p)
	for _, s := range []struct {
		fn      string
		settled string
	}{
		{"pkg/trafficrouting/network/gateway.gatewayController.EnsureRoutes", "true"},
		{"pkg/trafficrouting/network/gateway.gatewayController.Finalise", "false"},
		{"pkg/trafficrouting/network/ingress.ingressController.EnsureRoutes", "true"},
		{"pkg/trafficrouting/network/ingress.ingressController.Finalise", "false"},
	} {
		fn := p.Func(s.fn)
		if fn == nil {
			c.Unresolved("R3.9", s.fn)
			continue
		}
		allowed := FOr(
			FTrue(MCall("errors.IsNotFound")),
			FTrue(MCall("reflect.DeepEqual")),
			FFalse(MCall("Time.IsZero", MField("DeletionTimestamp"))),
		)
		if strings.Contains(s.fn, "/gateway.") {
			// the HTTPRoute is the user's object: one that is being deleted but still held by a finalizer
			// is still served, so "terminating" is no reason to leave the canary backends in it (the
			// canary Ingress, in contrast, is the provider's own object: terminating means going away)
			allowed = FOr(
				FTrue(MCall("errors.IsNotFound")),
				FTrue(MCall("reflect.DeepEqual")),
			)
		}
		bad := ""
		for _, ret := range returnsOf(fn) {
			if ret.Block() == fn.Recover || len(ret.Results) != 2 {
				continue
			}
			canSettled := false
			for _, lf := range Leaves(ret.Results[0], ret.Block()) {
				if k, ok := lf.V.(*ssa.Const); !ok || constText(k) == s.settled {
					canSettled = true
				}
			}
			if !canSettled {
				continue
			}
			// every way the error can be nil here must rest on one of the allowed facts, or come after a write
			for _, lf := range Leaves(ret.Results[1], ret.Block()) {
				fs := append(append([]Fact{}, FactsFor(fn).At(ret.Block())...), lf.Facts...)
				if k, isC := lf.V.(*ssa.Const); isC {
					if !k.IsNil() {
						continue
					}
				} else {
					if in, isIn := Forwarded(lf.V).(ssa.Instruction); isIn && isWrite(in) {
						continue // the error of the write itself: nil means written, not settled
					}
					if ex, isEx := Forwarded(lf.V).(*ssa.Extract); isEx {
						if in, ok := ex.Tuple.(ssa.Instruction); ok && isWrite(in) {
							continue
						}
					}
					vt := TermOf(lf.V).String()
					// the value may be a load of a variable cell (captured by a closure): then any value
					// stored into the cell that the path has found non-nil counts
					stored := map[string]bool{vt: true}
					if u, isLoad := lf.V.(*ssa.UnOp); isLoad {
						if cell, isCell := u.X.(*ssa.Alloc); isCell {
							for _, cs := range AllocStoresOf(cell) {
								stored[TermOf(cs.Val).String()] = true
							}
						}
					}
					nonNil := false
					for _, fc := range fs {
						if fc.Op == "!=" && fc.R != nil && fc.R.Op == "const" && fc.R.Name == "nil" && fc.L != nil && stored[fc.L.String()] {
							nonNil = true
						}
					}
					if nonNil {
						continue
					}
				}
				if HasFact(fs, allowed) {
					continue
				}
				// a constant nil after a successful write is "written", not "settled"
				afterWrite := true
				if r, _ := CanReach(Entry(fn), func(in ssa.Instruction) bool { return in == ssa.Instruction(ret) }, ReachOpts{CutInstr: isWrite, CutEdge: func(b *ssa.BasicBlock, k int) bool { return EdgeFactMatches(b, k, allowed) }}); r {
					afterWrite = false
				}
				if afterWrite {
					continue
				}
				// confirm path by path (a single-exit form returns two result variables that the leaf
				// view above pairs up freely): walk to this return without the allowed edges, without a
				// write, and without an edge on which some error is known non-nil (R6.1 has such an error
				// returned), and see which pair actually arrives
				errKnown := func(f Fact) bool {
					if f.Op != "!=" || f.R == nil || f.R.Op != "const" || f.R.Name != "nil" || f.L == nil || f.L.V == nil {
						return false
					}
					return types.Identical(f.L.V.Type(), types.Universe.Lookup("error").Type())
				}
				cutF := FOr(allowed, errKnown)
				confirmed := false
				for _, r := range WalkEnv(Entry(fn), nil, func(in ssa.Instruction) bool { return in == ssa.Instruction(ret) }, WalkOpts{
					ReachOpts:  ReachOpts{CutInstr: isWrite, CutEdge: func(b *ssa.BasicBlock, k int) bool { return EdgeFactMatches(b, k, cutF) }},
					CutFactEnv: cutF,
				}) {
					if v0, ok0 := ResolveConst(ret.Results[0], r.Env); ok0 && v0 != s.settled {
						continue
					}
					if k, isC := Resolve(ret.Results[1], r.Env).(*ssa.Const); isC && !k.IsNil() {
						continue
					}
					confirmed = true
				}
				if !confirmed {
					continue
				}
				bad = "the return at " + p.Pos(ret.Pos()) + " can answer (" + s.settled + ", nil) although the object was neither found missing nor compared with the desired configuration"
			}
		}
		what := "'verified'"
		if s.settled == "false" {
			what = "'nothing to restore'"
		}
		c.Ob("R3.9", shortName(s.fn)+"#settled-needs-comparison", fn.Pos(), bad == "", what+" is answered only for a missing object or after desired == current",
			ifs(bad != "", bad+": the step (or the clean-up) is reported complete while the routing object still carries another configuration"))
	}
}

func r5C07(c *Ctx) {
	p := c.Prog
	c.Rule("R7.9", "no fresh empty map in the BatchRelease spec that is compared with the stored one", 2)
	for _, name := range []string{"pkg/controller/rollout.canaryReleaseManager.createBatchRelease", "pkg/controller/rollout.blueGreenReleaseManager.createBatchRelease"} {
		fn := p.Func(name)
		if fn == nil {
			c.Unresolved("R7.9", name)
			continue
		}
		bad := ""
		for _, f := range samePkgClosure(p, fn) {
			for _, b := range f.Blocks {
				for _, in := range b.Instrs {
					mm, ok := in.(*ssa.MakeMap)
					if !ok || mm.Referrers() == nil {
						continue
					}
					// stored into a field of an API struct other than object metadata?
					for _, r := range *mm.Referrers() {
						st, ok := r.(*ssa.Store)
						if !ok || st.Val != ssa.Value(mm) {
							continue
						}
						fa, ok := st.Addr.(*ssa.FieldAddr)
						if !ok {
							continue
						}
						owner := fa.X.Type().String()
						if strings.Contains(owner, "rollouts/api/") && !strings.Contains(owner, "ObjectMeta") {
							fld, _ := FieldOf(fa)
							bad = "a freshly made map is stored into " + strings.TrimPrefix(owner, "*") + "." + fld + " at " + p.Pos(st.Pos())
						}
					}
				}
			}
		}
		c.Ob("R7.9", shortName(name)+"#no-fresh-empty-map", fn.Pos(), bad == "", "the desired spec holds the Rollout's own values, no normalised copies",
			ifs(bad != "", bad+": an empty map is stored as absent and read back as nil, so reflect.DeepEqual(desired, stored) is false on every reconcile: the BatchRelease is rewritten for ever and the step never reports done"))
	}
}

func r5C08(c *Ctx) {
	p := c.Prog
	c.Rule("R8.9", "ReplicaSets of a Deployment are listed by its selector", 1)
	fn := p.Func("pkg/util.ControllerFinder.GetReplicaSetsForDeployment")
	if fn == nil {
		c.Unresolved("R8.9", "util.ControllerFinder.GetReplicaSetsForDeployment")
		return
	}
	n := 0
	for _, ci := range AllCalls(fn) {
		cc := ci.Common()
		if !cc.IsInvoke() || cc.Method.Name() != "List" || len(cc.Args) < 3 {
			continue
		}
		n++
		opts := cc.Args[len(cc.Args)-1]
		bySelector := SliceHas(opts, MField("Spec", "Selector")) || SliceHas(opts, MField("Selector"))
		byTemplate := SliceHas(opts, MField("Template", "ObjectMeta", "Labels")) || SliceHas(opts, MField("Template", "Labels"))
		ok := bySelector && !byTemplate
		c.Ob("R8.9", "GetReplicaSetsForDeployment#by-selector", ci.Pos(), ok, "the list is restricted by the Deployment's selector",
			ifs(!ok, "the label restriction does not come from spec.selector"+ifs(byTemplate, " but from the pod template's labels")+": a release that changes or adds a template label finds no ReplicaSet, the webhook takes the 'no active ReplicaSet' path and admits the change without pausing the Deployment"))
	}
	if n == 0 {
		c.Unresolved("R8.9", "GetReplicaSetsForDeployment: List call")
	}
}

func r5C09(c *Ctx) {
	p := c.Prog
	c.Rule("R9.2d", "the non-decreasing check compares each step with its predecessor", 1)
	vfn := p.Func("pkg/webhook/rollout/validating.validateRolloutSpecCanarySteps")
	if vfn == nil {
		c.Unresolved("R9.2d", "validating.validateRolloutSpecCanarySteps")
	} else {
		found := false
		for _, f := range samePkgClosure(p, vfn) {
			for _, b := range f.Blocks {
				for _, in := range b.Instrs {
					isMsg := false
					for _, op := range in.Operands(nil) {
						if k, ok := (*op).(*ssa.Const); ok && k.Value != nil && k.Value.Kind() == constant.String && strings.Contains(constant.StringVal(k.Value), "non decreasing") {
							isMsg = true
						}
					}
					if !isMsg {
						continue
					}
					found = true
					// the comparison that leads here
					bad := ""
					okCmp := false
					for _, fct := range FactsAtInstr(in) {
						if fct.Op != "<" && fct.Op != ">" {
							continue
						}
						for _, side := range []*Term{fct.L, fct.R} {
							if side == nil || side.V == nil {
								continue
							}
							for x := range BackwardSlice(side.V) {
								ph, ok := x.(*ssa.Phi)
								if !ok || ph.Parent() != f {
									continue
								}
								loop := loopBlocks(ph.Block())
								if !loop[ph.Block()] {
									continue
								}
								if _, isIdx := TermOf(ph).Args, true; isIdx && strings.HasPrefix(ph.Type().String(), "int") && isInductionVar(ph) {
									continue
								}
								okCmp = true
								for i, e := range ph.Edges {
									if !loop[ph.Block().Preds[i]] {
										continue
									}
									if carriesUnchanged(e, ph) {
										bad = "the predecessor's value is kept in a loop variable (" + ph.Comment + ") that is not refreshed on the way back from " + p.Pos(firstPos(ph.Block().Preds[i]))
									}
								}
							}
							if side.Any(func(t *Term) bool { return t.Op == "index" }) {
								okCmp = true
							}
						}
					}
					c.Ob("R9.2d", shortName(FuncName(f))+"#neighbours", in.Pos(), okCmp && bad == "", "the values compared are those of step i and step i-1",
						ifs(!okCmp, "no ordering comparison found on the path to the rejection")+ifs(bad != "", bad+": a step that takes the skipping path never becomes the reference for its successor, so a decreasing plan is admitted and the controllers' step arithmetic runs on it"))
				}
			}
		}
		if !found {
			c.Ob("R9.2d", "validateRolloutSpecCanarySteps#neighbours", vfn.Pos(), false, "rejection of decreasing steps", "anchor not found")
		}
	}

	c.Rule("R9.7", "the custom provider's pre-sized object list is filled on every iteration", 1)
	efn := p.Func("pkg/trafficrouting/network/customNetworkProvider.customController.EnsureRoutes")
	if efn == nil {
		c.Unresolved("R9.7", "customController.EnsureRoutes")
		return
	}
	n := 0
	var eblocks []*ssa.BasicBlock
	for _, g := range samePkgClosure(p, efn) { // the fetch loop may be a helper of EnsureRoutes
		eblocks = append(eblocks, g.Blocks...)
	}
	for _, b := range eblocks {
		for _, in := range b.Instrs {
			st, ok := in.(*ssa.Store)
			if !ok {
				continue
			}
			// list[i] = obj, or list[i].field = obj when the list holds small structs
			addr := st.Addr
			if fa, isF := addr.(*ssa.FieldAddr); isF {
				addr = fa.X
			}
			ia, ok := addr.(*ssa.IndexAddr)
			if !ok {
				continue
			}
			if _, isMake := sliceRoot(ia.X).(*ssa.MakeSlice); !isMake {
				continue
			}
			carriesObj := strings.Contains(st.Val.Type().String(), "Unstructured")
			if !carriesObj {
				for x := range BackwardSlice(st.Val) {
					if strings.Contains(x.Type().String(), "unstructured.Unstructured") {
						carriesObj = true
					}
				}
			}
			if !carriesObj {
				continue
			}
			loop := loopBlocks(b)
			if !loop[b] {
				continue
			}
			n++
			bad := ""
			for hb := range loop {
				isHeader := false
				for _, pr := range hb.Preds {
					if !loop[pr] {
						isHeader = true
					}
				}
				if !isHeader {
					continue
				}
				for _, sb := range hb.Succs {
					if !loop[sb] || sb == hb {
						continue
					}
					if r, _ := CanReach(Point{Block: sb}, func(x ssa.Instruction) bool { return x.Block() == hb }, ReachOpts{CutInstr: func(x ssa.Instruction) bool { return x == in }}); r {
						bad = "the loop can go on to the next reference without having stored an object for this one"
					}
				}
			}
			c.Ob("R9.7", "customController.EnsureRoutes#list-filled", st.Pos(), bad == "", "every iteration stores the fetched object or returns",
				ifs(bad != "", bad+": the entry stays nil and the loops that follow dereference it — a referenced resource deleted mid-release makes the controller panic on every reconcile"))
		}
	}
	if n == 0 {
		c.Unresolved("R9.7", "customController.EnsureRoutes: store into the pre-sized object list")
	}
}

// isInductionVar: the phi is the counter of its loop (one incoming edge is phi + constant).
func isInductionVar(ph *ssa.Phi) bool {
	for _, e := range ph.Edges {
		if bo, ok := e.(*ssa.BinOp); ok && (bo.X == ssa.Value(ph) || bo.Y == ssa.Value(ph)) {
			if _, isC := bo.Y.(*ssa.Const); isC {
				return true
			}
		}
	}
	return false
}

// carriesUnchanged: the incoming value e of phi ph is ph itself, possibly through phis that merge
// ph with other values (then at least one way round keeps the old value).
func carriesUnchanged(e ssa.Value, ph *ssa.Phi) bool {
	seen := map[ssa.Value]bool{}
	var rec func(v ssa.Value) bool
	rec = func(v ssa.Value) bool {
		if v == ssa.Value(ph) {
			return true
		}
		if seen[v] {
			return false
		}
		seen[v] = true
		if q, ok := v.(*ssa.Phi); ok {
			for _, x := range q.Edges {
				if rec(x) {
					return true
				}
			}
		}
		return false
	}
	return rec(e)
}

func r5C11(c *Ctx) {
	p := c.Prog
	c.Rule("R11.10", "pod-count predicates count only pods that are not terminating", 3)
	wp := p.Func("pkg/util.WrappedPodCount")
	if wp == nil {
		c.Unresolved("R11.10", "util.WrappedPodCount")
		return
	}
	for _, cs := range p.Callers(wp) {
		if cs.Kind != "static" || len(cs.Args) < 2 {
			continue
		}
		pred := funcValueOf(cs.Args[1], 0)
		if pred == nil {
			c.Ob("R11.10", shortName(FuncName(cs.Caller))+"#count-predicate", cs.Instr.Pos(), false, "pod-count predicate", "undecided: the predicate is not a function literal or a named function")
			continue
		}
		pred = forwardedBody(pred)
		bad := ""
		n := 0
		for _, ret := range returnsOf(pred) {
			if len(ret.Results) != 1 {
				continue
			}
			for _, lf := range BoolLeaves(ret.Results[0], ret.Block()) {
				t := TermOf(lf.V)
				if !(t.Op == "const" && t.Name == "true") {
					continue
				}
				n++
				fs := append(append([]Fact{}, FactsAtInstr(ret)...), lf.Facts...)
				if !HasFact(fs, FTrue(MCall("Time.IsZero", MField("DeletionTimestamp")))) {
					bad = "a pod can be counted (return at " + p.Pos(ret.Pos()) + ") without its deletion timestamp having been found zero"
				}
			}
		}
		c.Ob("R11.10", shortName(FuncName(cs.Caller))+"#count-predicate", cs.Instr.Pos(), n > 0 && bad == "", "the predicate counts a pod only when it is not terminating",
			ifs(bad != "", bad+": pods being evicted still report Ready, so a batch is reported (and stays) Ready with fewer live ready pods than the failure threshold allows"))
	}
}

func r5C12(c *Ctx) {
	p := c.Prog
	c.Rule("R12.9", "BatchContext.Replicas comes from the workload's spec size", 6)
	for _, fn := range p.RepoFuncs() {
		if !strings.HasSuffix(FuncName(fn), ".CalculateBatchContext") {
			continue
		}
		for _, st := range FieldStores([]*ssa.Function{fn}, "context.BatchContext", "Replicas") {
			t := TermOf(st.Val)
			fromStatus := t.Any(func(x *Term) bool { return x.Op == "field" && x.Name == "Status" }) || (t.Op == "field" && t.Name == "Status")
			c.Ob("R12.9", shortName(FuncName(fn))+"#Replicas", st.Pos(), !fromStatus, "Replicas is the desired (spec) size",
				ifs(fromStatus, "Replicas is read from "+t.String()+": while status.replicas differs from spec.replicas (surge, scale in flight) the label budget of a percentage batch is computed against another size than PlannedUpdatedReplicas, and more pods than planned get the batch label"))
		}
	}
}

// ================================================================ round 5, second batch

func init() {
	extend := func(id string, expl string, extra func(c *Ctx)) {
		pr := Registry[id]
		old := pr.Run
		pr.Run = func(c *Ctx) { old(c); extra(c) }
		pr.Explanation += " " + expl
	}
	extend("C15", "(R15.10) the shipped Istio scripts scale a weight by multiplying first and dividing last: no product has a quotient as an operand (w * (s / 100) is rounded before the multiplication and floors one below the exact split for some weights).", r5C15)
	extend("C17", "(R17.9) the old-ReplicaSet list handed to reconcileOldReplicaSets is the active ones only (retired ReplicaSets still report available pods for a moment and would inflate the scale-down budget).", r5C17)
	extend("C19", "(R19.9) no package-level variable holds a stateful helper (hash.Hash, bytes.Buffer, strings.Builder, rand.Rand …) that worker-reachable code uses: such a value is shared by all reconciles.", r5C19)
	extend("C20", "(R20.6) in the TrafficRoutingStrategy converters a field is copied under a guard on that field alone; (R20.7) the strategy accessors that dereference the canary block when no blue-green block exists (GetRollingStyle and what is built on it) are called by the converters only after IsEmptyRelease() was found false.", r5C20)
}

func r5C15(c *Ctx) {
	p := c.Prog
	c.Rule("R15.10", "Lua weight scaling multiplies before it divides", 2)
	// the matcher must be able to fire: a positive example is parsed on every run
	if ex, err := luafront.ParseBytes("example.lua", []byte("function f(w, s) return math.floor(w * (s / 100)) end")); err != nil || len(ex.MulOfQuotient) != 1 {
		c.Ob("R15.10", "matcher-self-test", 0, false, "the product-of-quotient matcher recognises its positive example", "self-test failed")
		return
	}
	root := filepath.Join(p.Dir, "lua_configuration")
	var files []string
	_ = filepath.Walk(root, func(path string, info os.FileInfo, err error) error {
		if err == nil && !info.IsDir() && strings.HasSuffix(path, ".lua") && !strings.Contains(path, "testdata") {
			files = append(files, path)
		}
		return nil
	})
	sort.Strings(files)
	for _, f := range files {
		src, err := p.ReadFile(f)
		if err != nil {
			c.Ob("R15.10", strings.TrimPrefix(f, p.Dir+"/")+"#read", 0, false, "shipped script", err.Error())
			continue
		}
		sc, err := luafront.ParseBytes(f, src)
		if err != nil {
			c.Ob("R15.10", strings.TrimPrefix(f, p.Dir+"/")+"#parse", 0, false, "shipped script parses", err.Error())
			continue
		}
		rel := strings.TrimPrefix(f, p.Dir+"/")
		c.Ob("R15.10", rel+"#multiply-then-divide", 0, len(sc.MulOfQuotient) == 0, "no product of a quotient",
			ifs(len(sc.MulOfQuotient) > 0, fmt.Sprintf("line %v: a product has a quotient as operand — in floating point the quotient is rounded first, so e.g. 100 * (58/100) is 57.99999999999999 and floors to 57: the stable share is one short of 100-w for some weights", sc.MulOfQuotient)))
	}
}

func r5C17(c *Ctx) {
	p := c.Prog
	c.Rule("R17.9", "reconcileOldReplicaSets receives the active old ReplicaSets", 1)
	fn := p.Func("pkg/controller/deployment.DeploymentController.reconcileOldReplicaSets")
	if fn == nil {
		c.Unresolved("R17.9", "DeploymentController.reconcileOldReplicaSets")
		return
	}
	// which parameter is the old list? the one ScaleDownLimitForOld / the scale-down helpers receive first
	idx := -1
	for i, q := range fn.Params {
		if strings.HasPrefix(q.Type().String(), "[]") && strings.Contains(q.Type().String(), "ReplicaSet") {
			idx = i // the last slice parameter is oldRSs (allRSs comes first)
		}
	}
	n := 0
	for _, cs := range p.Callers(fn) {
		if cs.Kind != "static" || idx < 0 || idx >= len(cs.Args) {
			continue
		}
		n++
		ok := SliceHasDeep(cs.Args[idx], MCall("util.FilterActiveReplicaSets"))
		c.Ob("R17.9", shortName(FuncName(cs.Caller))+"#old-list-is-active", cs.Instr.Pos(), ok, "the old list is filtered to ReplicaSets with replicas > 0",
			ifs(!ok, "the list passed is "+TermOf(cs.Args[idx]).String()+": an old ReplicaSet already scaled to 0 whose pods are still reported available is counted in availablePodCount, and that many available pods too many are removed from the other old ReplicaSets"))
	}
	if n == 0 {
		c.Unresolved("R17.9", "callers of reconcileOldReplicaSets")
	}
}

func r5C19(c *Ctx) {
	p := c.Prog
	c.Rule("R19.9", "no stateful helper object is kept in a package-level variable", 1)
	stateful := func(t types.Type) string {
		s := t.String()
		for _, pat := range []string{"hash.Hash", "bytes.Buffer", "strings.Builder", "math/rand.Rand", "bufio.Writer", "bufio.Reader", "encoding/json.Encoder", "encoding/json.Decoder", "text/template.Template"} {
			if strings.HasSuffix(strings.TrimPrefix(s, "*"), pat) || strings.Contains(s, pat+"32") && pat == "hash.Hash" || strings.Contains(s, pat+"64") && pat == "hash.Hash" {
				return pat
			}
		}
		return ""
	}
	n := 0
	seenPkg := map[*ssa.Package]bool{}
	for _, fn := range p.RepoFuncs() {
		if fn.Pkg == nil || seenPkg[fn.Pkg] {
			continue
		}
		seenPkg[fn.Pkg] = true
		var names []string
		for name := range fn.Pkg.Members {
			names = append(names, name)
		}
		sort.Strings(names)
		for _, name := range names {
			g, ok := fn.Pkg.Members[name].(*ssa.Global)
			if !ok {
				continue
			}
			n++
			pt, ok := g.Type().(*types.Pointer)
			if !ok {
				continue
			}
			kind := stateful(pt.Elem())
			if kind == "" {
				continue
			}
			// used outside the package initialiser?
			used := ""
			for _, f := range p.RepoFuncs() {
				if f.Name() == "init" || strings.HasPrefix(f.Name(), "init#") {
					continue
				}
				for _, b := range f.Blocks {
					for _, in := range b.Instrs {
						for _, op := range in.Operands(nil) {
							if *op == ssa.Value(g) {
								used = shortName(FuncName(f)) + " at " + p.Pos(in.Pos())
							}
						}
					}
				}
			}
			c.Ob("R19.9", ShortPath(fn.Pkg.Pkg.Path())+"."+name+"#shared-stateful", g.Pos(), used == "", "package-level "+kind+" is not used by reconcile code",
				ifs(used != "", "the package-level variable holds a "+kind+" and is used in "+used+": every worker resets, writes and reads the same object, so concurrent reconciles of different rollouts interleave their data (a data race, and e.g. a wrong revision hash for an unchanged workload)"))
		}
	}
	if n == 0 {
		c.Unresolved("R19.9", "package-level variables")
	} else {
		c.Ob("R19.9", "package-level-variables#scanned", 0, true, fmt.Sprintf("%d package-level variables examined", n), "")
	}
}

func r5C20(c *Ctx) {
	p := c.Prog
	c.Rule("R20.6", "strategy converters copy each field under a guard on that field alone", 2)
	for _, name := range []string{"api/v1alpha1.ConversionToV1beta1TrafficRoutingStrategy", "api/v1alpha1.ConversionToV1alpha1TrafficRoutingStrategy"} {
		fn := p.Func(name)
		if fn == nil {
			c.Unresolved("R20.6", name)
			continue
		}
		if len(fn.Params) == 0 {
			continue
		}
		src := fn.Params[0]
		srcFieldsOf := func(t *Term) map[string]bool {
			out := map[string]bool{}
			var rec func(x *Term)
			rec = func(x *Term) {
				if x == nil {
					return
				}
				if x.Op == "field" {
					root, path := x.FieldPath()
					if root != nil && root.V == ssa.Value(src) && len(path) > 0 {
						out[path[0]] = true
					}
				}
				for _, a := range x.Args {
					rec(a)
				}
			}
			rec(t)
			return out
		}
		bad := ""
		n := 0
		for _, b := range fn.Blocks {
			for _, in := range b.Instrs {
				st, ok := in.(*ssa.Store)
				if !ok {
					continue
				}
				fa, ok := st.Addr.(*ssa.FieldAddr)
				if !ok {
					continue
				}
				if _, isAlloc := rootOfObject(fa).(*ssa.Alloc); !isAlloc {
					continue
				}
				dstField, _ := FieldOf(fa)
				// source fields the stored value is made of
				from := map[string]bool{}
				for x := range BackwardSlice(st.Val) {
					for k := range srcFieldsOf(TermOf(x)) {
						from[k] = true
					}
				}
				if len(from) == 0 {
					continue
				}
				n++
				for _, f := range FactsFor(fn).At(b) {
					if isLoopExitFact(f) {
						// what holds once a loop over another field has run out is no guard: the loop always ends
						continue
					}
					for _, side := range []*Term{f.L, f.R} {
						for k := range srcFieldsOf(side) {
							if !from[k] {
								bad = "dst." + dstField + " (made of src." + strings.Join(keysOf(from), ",") + ") is written only under a condition on src." + k + " (" + f.String() + ", " + p.Pos(st.Pos()) + ")"
							}
						}
					}
				}
			}
		}
		c.Ob("R20.6", name+"#independent-guards", fn.Pos(), n > 0 && bad == "", "every field is converted whatever the other fields hold",
			ifs(bad != "", bad+": an object that sets both fields loses one of them in conversion")+ifs(n == 0, "no field copy recognised"))
	}

	c.Rule("R20.7", "partial strategy accessors are called by the converters only for a non-empty strategy", 1)
	// accessors of RolloutStrategy whose closure dereferences .Canary without a nil check of it
	partial := map[*ssa.Function]bool{}
	var methods []*ssa.Function
	for _, fn := range p.RepoFuncs() {
		if strings.HasPrefix(FuncName(fn), "api/v1beta1.RolloutStrategy.") {
			methods = append(methods, fn)
		}
	}
	for _, m := range methods {
		ds := OptionalDerefs(m, func(owner, field string) bool {
			return field == "Canary" && strings.HasSuffix(owner, "RolloutStrategy")
		})
		if len(ds) > 0 {
			partial[m] = true
		}
	}
	for changed := true; changed; {
		changed = false
		for _, m := range methods {
			if partial[m] {
				continue
			}
			for _, ci := range AllCalls(m) {
				if g := ci.Common().StaticCallee(); g != nil && partial[g] {
					// a call made under a nil check of Canary / a non-empty test is fine
					fs := FactsAtInstr(ci.(ssa.Instruction))
					if HasFact(fs, FNotNil(MField("Canary"))) || HasFact(fs, FNotNil(MField("BlueGreen"))) || HasFact(fs, FFalse(MCall("RolloutStrategy.IsEmptyRelease"))) {
						continue
					}
					partial[m] = true
					changed = true
				}
			}
		}
	}
	if len(partial) == 0 {
		c.Ob("R20.7", "partial-accessors", 0, true, "no strategy accessor dereferences the canary block unguarded", "")
		return
	}
	n := 0
	for _, name := range []string{"api/v1alpha1.Rollout.ConvertTo", "api/v1alpha1.Rollout.ConvertFrom", "api/v1alpha1.BatchRelease.ConvertTo", "api/v1alpha1.BatchRelease.ConvertFrom"} {
		fn := p.Func(name)
		if fn == nil {
			continue
		}
		for _, f := range apiClosure(p, fn) {
			if !strings.HasPrefix(FuncName(f), "api/v1alpha1.") {
				continue
			}
			for _, ci := range AllCalls(f) {
				g := ci.Common().StaticCallee()
				if g == nil || !partial[g] {
					continue
				}
				n++
				fs := FactsAtInstr(ci.(ssa.Instruction))
				ok := HasFact(fs, FFalse(MCall("RolloutStrategy.IsEmptyRelease"))) || HasFact(fs, FNotNil(MField("Canary"))) || HasFact(fs, FNotNil(MField("BlueGreen")))
				c.Ob("R20.7", shortName(FuncName(f))+"#"+g.Name()+"-after-nonempty", ci.Pos(), ok, g.Name()+"() is called only when the strategy has a canary or a blue-green block",
					ifs(!ok, g.Name()+"() dereferences strategy.canary when there is no blue-green block; here it is called without IsEmptyRelease() having been found false: a stored Rollout with an empty strategy (allowed by the schema) makes the conversion webhook panic")).WithFacts(fs)
			}
		}
	}
	if n == 0 {
		c.Ob("R20.7", "converters#partial-accessor-calls", 0, true, "the converters call no partial accessor", "")
	}
}

func keysOf(m map[string]bool) []string {
	var out []string
	for k := range m {
		out = append(out, k)
	}
	sort.Strings(out)
	return out
}

// ================================================================ round 5, third batch

func init() {
	extend := func(id string, expl string, extra func(c *Ctx)) {
		pr := Registry[id]
		old := pr.Run
		pr.Run = func(c *Ctx) { old(c); extra(c) }
		pr.Explanation += " " + expl
	}
	imp := func(id, from string, mapping map[string]string, expl string) {
		extend(id, expl, func(c *Ctx) { importFrom(c, from, mapping) })
	}
	extend("C02", "(R2.8) both release managers stamp LastUpdateTime with the current time when a step leaves TrafficRouting (the pause duration is counted from there, not from the last Service change).", r5C02)
	extend("C15", "(R15.11) the custom provider reports an object as up to date only when spec, annotations and labels all equal the desired ones.", r5C15b)
	imp("C02", "C15", map[string]string{"R15.11": "R2.9"}, "(R2.9 = C15 R15.11) a step's routing is reported applied only when every part of the custom resource the script produced is in place.")
	imp("C03", "C15", map[string]string{"R15.11": "R3.11"}, "(R3.11 = C15 R15.11) the same clause for 'traffic follows pods'.")
	extend("C03", "(R3.10) removeBatchRelease answers 'gone, no retry' only when the BatchRelease was not found: one that is still terminating is waited for, otherwise the next release adopts the old object's Ready status.", r5C03b)
	imp("C10", "C03", map[string]string{"R3.10": "R10.9"}, "(R10.9 = C03 R3.10) supersession waits for the old BatchRelease to be really gone before the new release starts.")
}

func r5C02(c *Ctx) {
	p := c.Prog
	c.Rule("R2.8", "leaving TrafficRouting stamps LastUpdateTime with now", 2)
	metrics := ConstVal(p.ConstObj("api/v1beta1", "CanaryStepStateMetricsAnalysis"))
	for _, name := range []string{"pkg/controller/rollout.canaryReleaseManager.runCanary", "pkg/controller/rollout.blueGreenReleaseManager.runCanary"} {
		fn := p.Func(name)
		if fn == nil {
			c.Unresolved("R2.8", name)
			continue
		}
		var stamps []ssa.Instruction
		for _, b := range fn.Blocks {
			for _, in := range b.Instrs {
				if st, ok := in.(*ssa.Store); ok {
					if fa, ok := st.Addr.(*ssa.FieldAddr); ok {
						if n, _ := FieldOf(fa); n == "LastUpdateTime" && SliceHasDeep(st.Val, MCall("time.Now")) {
							stamps = append(stamps, in)
						}
					}
				}
			}
		}
		isStamp := func(in ssa.Instruction) bool {
			for _, s := range stamps {
				if s == in {
					return true
				}
			}
			return false
		}
		n := 0
		for _, dt := range CallsIn(fn, "trafficrouting.Manager.DoTrafficRouting") {
			for _, b := range fn.Blocks {
				for _, in := range b.Instrs {
					st, ok := in.(*ssa.Store)
					if !ok {
						continue
					}
					fa, ok := st.Addr.(*ssa.FieldAddr)
					if !ok {
						continue
					}
					if nm, _ := FieldOf(fa); nm != "CurrentStepState" {
						continue
					}
					if v, isC := StoredConst(st); !isC || v != metrics {
						continue
					}
					if r, _ := CanReach(PointAfter(dt.(ssa.Instruction)), func(x ssa.Instruction) bool { return x == in }, ReachOpts{}); !r {
						continue
					}
					n++
					reach, _ := CanReach(PointAfter(dt.(ssa.Instruction)), func(x ssa.Instruction) bool { return x == in }, ReachOpts{CutInstr: isStamp})
					c.Ob("R2.8", shortName(name)+"#stamp-on-leaving-traffic-routing", st.Pos(), !reach, "LastUpdateTime = now before the step state leaves TrafficRouting",
						ifs(reach, "the step moves on to MetricsAnalysis without LastUpdateTime being set to the current time: the pause duration is then counted from the last Service modification, so time spent applying the routes is taken off the pause and a duration step can be left at once"))
				}
			}
		}
		if n == 0 {
			c.Ob("R2.8", shortName(name)+"#stamp-on-leaving-traffic-routing", fn.Pos(), false, "transition out of TrafficRouting", "anchor not found")
		}
	}
}

func r5C15b(c *Ctx) {
	p := c.Prog
	c.Rule("R15.11", "compareAndUpdateObject answers unchanged only when spec, annotations and labels are equal", 1)
	fn := p.Func("pkg/trafficrouting/network/customNetworkProvider.customController.compareAndUpdateObject")
	if fn == nil {
		c.Unresolved("R15.11", "customController.compareAndUpdateObject")
		return
	}
	isWrite := apiWrites(p)
	needs := []struct {
		desc string
		m    FactM
	}{
		{"spec equal", func(f Fact) bool {
			return f.Op == "==" && f.L != nil && f.R != nil && f.L.Any(MCall("util.DumpJSON")) && f.R.Any(MCall("util.DumpJSON"))
		}},
		{"annotations equal", FTrue(func(t *Term) bool {
			return t.Op == "call" && strings.HasSuffix(t.Name, "reflect.DeepEqual") && t.Any(func(x *Term) bool { return x.Op == "call" && strings.HasSuffix(x.Name, "GetAnnotations") })
		})},
		{"labels equal", FTrue(func(t *Term) bool {
			return t.Op == "call" && strings.HasSuffix(t.Name, "reflect.DeepEqual") && t.Any(func(x *Term) bool { return x.Op == "call" && strings.HasSuffix(x.Name, "GetLabels") })
		})},
	}
	var missing []string
	n := 0
	for _, ret := range returnsOf(fn) {
		if ret.Block() == fn.Recover || len(ret.Results) != 2 {
			continue
		}
		isUnchanged := false
		for _, lf := range BoolLeaves(ret.Results[0], ret.Block()) {
			if k, ok := lf.V.(*ssa.Const); ok && constText(k) == "false" {
				isUnchanged = true
			}
		}
		if e, ok := ret.Results[1].(*ssa.Const); !ok || !e.IsNil() {
			continue
		}
		if !isUnchanged {
			continue
		}
		n++
		for _, nd := range needs {
			if r, _ := CanReach(Entry(fn), func(in ssa.Instruction) bool { return in == ssa.Instruction(ret) }, ReachOpts{CutInstr: isWrite, CutEdge: func(b *ssa.BasicBlock, k int) bool { return EdgeFactMatches(b, k, nd.m) }}); r {
				missing = append(missing, nd.desc)
			}
		}
	}
	c.Ob("R15.11", "compareAndUpdateObject#unchanged-needs-all-three", fn.Pos(), n > 0 && len(missing) == 0, "unchanged is answered only behind spec, annotation and label equality",
		ifs(len(missing) > 0, "'unchanged' can be answered without: "+strings.Join(missing, ", ")+" — a script that expresses the canary rule in that part of the object is reported applied although nothing was written")+ifs(n == 0, "no unchanged-return found"))
}

func r5C03b(c *Ctx) {
	p := c.Prog
	c.Rule("R3.10", "removeBatchRelease reports gone only for a BatchRelease that was not found", 1)
	fn := p.Func("pkg/controller/rollout.removeBatchRelease")
	if fn == nil {
		c.Unresolved("R3.10", "rollout.removeBatchRelease")
		return
	}
	bad := ""
	n := 0
	notFound := FTrue(MCall("errors.IsNotFound"))
	// path by path (a single-exit form returns phis): which (retry, err) pairs can be handed back
	goneOn := func(cut bool) []*ssa.Return {
		var out []*ssa.Return
		o := WalkOpts{}
		if cut {
			o.ReachOpts = ReachOpts{CutEdge: func(b *ssa.BasicBlock, k int) bool { return EdgeFactMatches(b, k, notFound) }}
			o.CutFactEnv = notFound
		}
		for _, r := range WalkEnv(Entry(fn), nil, IsReturn, o) {
			ret := r.Instr.(*ssa.Return)
			if ret.Block() == fn.Recover || len(ret.Results) != 2 {
				continue
			}
			if v, ok := ResolveConst(ret.Results[1], r.Env); !ok || v != "nil" {
				continue
			}
			if v, ok := ResolveConst(ret.Results[0], r.Env); !ok || v != "false" {
				continue
			}
			out = append(out, ret)
		}
		return out
	}
	n = len(goneOn(false))
	for _, ret := range goneOn(true) {
		bad = "the return at " + p.Pos(ret.Pos()) + " answers (no retry, nil) on a path where the BatchRelease was found"
	}
	c.Ob("R3.10", "removeBatchRelease#gone-means-not-found", fn.Pos(), n > 0 && bad == "", "no-retry is answered only behind IsNotFound",
		ifs(bad != "", bad+": a BatchRelease that is still terminating survives the reset; the next release finds it with an equal spec and takes its old 'batch Ready' for its own — routing is written for pods that do not exist")+ifs(n == 0, "no gone-return found"))
}

// ================================================================ round 5, fourth batch

func init() {
	extend := func(id string, expl string, extra func(c *Ctx)) {
		pr := Registry[id]
		old := pr.Run
		pr.Run = func(c *Ctx) { old(c); extra(c) }
		pr.Explanation += " " + expl
	}
	imp := func(id, from string, mapping map[string]string, expl string) {
		extend(id, expl, func(c *Ctx) { importFrom(c, from, mapping) })
	}
	extend("C15", "(R15.12) no loop of the custom provider's EnsureRoutes over the referenced objects is left early on a path that can still end in success (a `break` skips the objects listed after the current one).", r5C15c)
	imp("C06", "C15", map[string]string{"R15.12": "R6.8"}, "(R6.8 = C15 R15.12) after a fault between two per-object writes the retry still visits every object.")
	extend("C16", "(R16.10) the object-to-Lua conversion descends into lists and maps itself (it has the integer cases the JSON-side DecodeValue lacks); (R16.11) the methods of *lua.LState that can run script code (Call, PCall, CallByParam, DoString, DoFile, ToStringMeta, CallMeta, Resume) are called only inside RunLuaScript, i.e. under its deadline and protected mode, never on the state it hands back.", r5C16)
	imp("C04", "C09", map[string]string{"R9.2": "R4.8"}, "(R4.8 = C09 R9.2) traffic-routing references are immutable while a release is progressing, so finalising withdraws the routes the release really wrote.")
	imp("C05", "C09", map[string]string{"R9.2": "R5.13"}, "(R5.13 = C09 R9.2) the same immutability clause for 'every exit path restores what was modified'.")
	imp("C14", "C09", map[string]string{"R9.2": "R14.9"}, "(R14.9 = C09 R9.2) the canary Ingress the release wrote stays referenced until it has been removed.")
	imp("C04", "C03", map[string]string{"R3.9": "R4.9"}, "(R4.9 = C03 R3.9) a provider's Finalise cannot report the routes withdrawn without having looked at the routing object.")
	imp("C10", "C01", map[string]string{"R1.1": "R10.10"}, "(R10.10 = C01 R1.1) UpgradeBatch writes the workload only to move its knob forward: a paused, already-surged blue-green Deployment (the state of a refused supersession) is not resumed by it.")
	imp("C10", "C06", map[string]string{"R6.7": "R10.11"}, "(R10.11 = C06 R6.7) Initialize's re-entry marker is its last write, so the stable ReplicaSet is pinned before the release can be re-entered.")
	imp("C18", "C05", map[string]string{"R5.10": "R18.9"}, "(R18.9 = C05 R5.10) a BatchRelease reaches Completed (and drops its finalizer) only after Finalize really released the workload.")
	imp("C11", "C05", map[string]string{"R5.10": "R11.11"}, "(R11.11 = C05 R5.10) Completed is reported only for a workload that was released or is provably not held.")
}

func r5C15c(c *Ctx) {
	p := c.Prog
	c.Rule("R15.12", "EnsureRoutes leaves none of its per-object loops early on a path to success", 1)
	fn := p.Func("pkg/trafficrouting/network/customNetworkProvider.customController.EnsureRoutes")
	if fn == nil {
		c.Unresolved("R15.12", "customController.EnsureRoutes")
		return
	}
	// success = a return whose error can be nil (constant nil or a variable that may still be nil)
	succ := func(in ssa.Instruction) bool {
		ret, ok := in.(*ssa.Return)
		if !ok || ret.Block() == fn.Recover || len(ret.Results) == 0 {
			return false
		}
		for _, lf := range Leaves(ret.Results[len(ret.Results)-1], ret.Block()) {
			if k, ok := lf.V.(*ssa.Const); ok && k.IsNil() {
				return true
			}
		}
		return false
	}
	seenLoop := map[*ssa.BasicBlock]bool{}
	n := 0
	bad := ""
	for _, b := range fn.Blocks {
		loop := loopBlocks(b)
		if !loop[b] || seenLoop[b] {
			continue
		}
		for x := range loop {
			seenLoop[x] = true
		}
		n++
		header := map[*ssa.BasicBlock]bool{}
		for x := range loop {
			for _, pr := range x.Preds {
				if !loop[pr] {
					header[x] = true
				}
			}
		}
		for lb := range loop {
			if header[lb] {
				continue
			}
			for _, sb := range lb.Succs {
				if loop[sb] {
					continue
				}
				if r, at := CanReach(Point{Block: sb}, succ, ReachOpts{}); r {
					bad = "the loop is left from " + p.Pos(firstPos(lb)) + " and a successful return (" + p.Pos(at.Pos()) + ") is still reachable"
				}
			}
		}
	}
	c.Ob("R15.12", "customController.EnsureRoutes#no-early-loop-exit", fn.Pos(), n > 0 && bad == "", "each per-object loop ends only at its own end or with an error",
		ifs(bad != "", bad+": the objects listed after the current one are skipped — e.g. their original configuration is never stored once an earlier object carries the annotation, and every later step fails on them")+ifs(n == 0, "no loop found"))
}

func r5C16(c *Ctx) {
	p := c.Prog
	c.Rule("R16.10", "object-to-Lua conversion converts container elements itself", 1)
	dv := p.Func("pkg/util/luamanager.decodeValue")
	ex := p.Func("pkg/util/luamanager.DecodeValue")
	if dv == nil || ex == nil {
		c.Unresolved("R16.10", "luamanager.decodeValue / DecodeValue")
	} else {
		asserted := func(fns []*ssa.Function) map[string]bool {
			out := map[string]bool{}
			for _, f := range fns {
				for _, b := range f.Blocks {
					for _, in := range b.Instrs {
						if ta, ok := in.(*ssa.TypeAssert); ok {
							out[ta.AssertedType.String()] = true
						}
					}
				}
			}
			return out
		}
		own := asserted([]*ssa.Function{dv})
		other := asserted([]*ssa.Function{ex})
		var onlyOwn []string
		for _, k := range []string{"int", "int32", "int64"} {
			if own[k] && !other[k] {
				onlyOwn = append(onlyOwn, k)
			}
		}
		sort.Strings(onlyOwn)
		bad := ""
		if len(onlyOwn) > 0 {
			for _, cont := range []string{"[]interface{}", "map[string]interface{}"} {
				if !own[cont] && !own[strings.ReplaceAll(cont, "interface{}", "any")] {
					bad = "decodeValue has no case for " + cont + ": such values fall through to DecodeValue, which has no case for " + strings.Join(onlyOwn, "/")
				}
			}
			// and the element conversion inside its container cases is decodeValue itself
			for _, ci := range AllCalls(dv) {
				g := ci.Common().StaticCallee()
				if g != ex {
					continue
				}
				// a call of DecodeValue whose argument is an element of a container (range value / index) is a descent
				for x := range BackwardSlice(ci.Common().Args[len(ci.Common().Args)-1]) {
					switch x.(type) {
					case *ssa.Next, *ssa.Index, *ssa.IndexAddr, *ssa.Lookup:
						bad = "container elements are converted by DecodeValue (" + p.Pos(ci.Pos()) + "), which has no case for " + strings.Join(onlyOwn, "/")
					}
				}
			}
		}
		c.Ob("R16.10", "luamanager.decodeValue#descends-itself", dv.Pos(), bad == "", "lists and maps of the object are walked by the converter that knows the integer kinds",
			ifs(bad != "", bad+": integers inside or below that container reach the script as nil (ports, weights, replicas)"))
	}

	c.Rule("R16.11", "script-running LState methods are called only inside RunLuaScript", 1)
	running := map[string]bool{"Call": true, "PCall": true, "CallByParam": true, "DoString": true, "DoFile": true, "ToStringMeta": true, "CallMeta": true, "Resume": true}
	n := 0
	for _, fn := range p.RepoFuncs() {
		name := FuncName(fn)
		inRunner := strings.HasPrefix(name, "pkg/util/luamanager.LuaManager.RunLuaScript")
		for _, ci := range AllCalls(fn) {
			g := ci.Common().StaticCallee()
			if g == nil || g.Signature.Recv() == nil || !strings.HasSuffix(g.Signature.Recv().Type().String(), "gopher-lua.LState") || !running[g.Name()] {
				continue
			}
			n++
			// library functions registered into the VM run inside the script's own call and are covered by its deadline
			inLib := strings.HasPrefix(name, "pkg/util/luamanager.") && len(fn.Params) == 1 && strings.HasSuffix(fn.Params[0].Type().String(), "gopher-lua.LState")
			ok := inRunner || inLib
			c.Ob("R16.11", shortName(name)+"#"+g.Name(), ci.Pos(), ok, "LState."+g.Name()+" is called under RunLuaScript's deadline and protection",
				ifs(!ok, "LState."+g.Name()+" can run script code (metamethods); here it is called outside RunLuaScript, on a state that has already been closed and without protected mode: a script-supplied __tostring panics the reconcile worker instead of yielding an error for that one rollout"))
		}
	}
	if n == 0 {
		c.Unresolved("R16.11", "calls of script-running LState methods")
	}
}

// ================================================================ round 5, fifth batch

func init() {
	extend := func(id string, expl string, extra func(c *Ctx)) {
		pr := Registry[id]
		old := pr.Run
		pr.Run = func(c *Ctx) { old(c); extra(c) }
		pr.Explanation += " " + expl
	}
	imp := func(id, from string, mapping map[string]string, expl string) {
		extend(id, expl, func(c *Ctx) { importFrom(c, from, mapping) })
	}
	extend("C09", "(R9.2e) the two update validators freeze workloadRef / trafficRoutings in the same phases, and these include Progressing and Terminating (sibling agreement on the phase constants the immutability branch is entered for).", r5C09b)
	imp("C18", "C09", map[string]string{"R9.2e": "R18.10"}, "(R18.10 = C09 R9.2e) while a Rollout is Terminating its routing references cannot be edited through either API version, so the teardown restores what the release wrote before the finalizer goes.")
}

// rejectsImmutable: the instruction is one of the update validators' immutability comparisons —
// it carries the 'immutable' rejection text, or compares the old and new workloadRef /
// traffic routing with reflect.DeepEqual.
func rejectsImmutable(in ssa.Instruction) bool {
	for _, op := range in.Operands(nil) {
		if k, ok := (*op).(*ssa.Const); ok && k.Value != nil && k.Value.Kind() == constant.String && strings.Contains(constant.StringVal(k.Value), "immutable") {
			return true
		}
	}
	if cc, ok := in.(ssa.CallInstruction); ok {
		if g := cc.Common().StaticCallee(); g != nil && g.Pkg != nil && g.Pkg.Pkg.Path() == "reflect" && g.Name() == "DeepEqual" {
			for _, a := range cc.Common().Args {
				t := TermOf(a)
				if t.Any(MField("WorkloadRef")) || t.Any(MCall("GetTrafficRouting")) || t.Any(MField("TrafficRoutings")) {
					return true
				}
			}
		}
	}
	return false
}

func r5C09b(c *Ctx) {
	p := c.Prog
	c.Rule("R9.2e", "both update validators apply the immutability checks in the same phases, Progressing and Terminating included", 2)
	vp := "pkg/webhook/rollout/validating."
	phasesOf := func(fn *ssa.Function) (map[string]bool, bool) {
		// phase constants compared (==) on the way to an 'immutable' rejection
		out := map[string]bool{}
		found := false
		for _, b := range fn.Blocks {
			for _, in := range b.Instrs {
				isMsg := rejectsImmutable(in)
				if !isMsg {
					// the comparisons may sit in a helper of the package that the phase branch calls
					if cc, ok := in.(ssa.CallInstruction); ok {
						if g := cc.Common().StaticCallee(); g != nil && g.Blocks != nil && g.Pkg == fn.Pkg && g != fn {
							for _, h := range samePkgClosure(p, g) {
								for _, hb := range h.Blocks {
									for _, hi := range hb.Instrs {
										if rejectsImmutable(hi) {
											isMsg = true
										}
									}
								}
							}
						}
					}
				}
				if !isMsg {
					continue
				}
				found = true
				// walk back: every block from which this instruction is reachable contributes the phase
				// comparisons whose true-edge leads here
				for _, pb := range fn.Blocks {
					if len(pb.Instrs) == 0 {
						continue
					}
					iff, ok := pb.Instrs[len(pb.Instrs)-1].(*ssa.If)
					if !ok {
						continue
					}
					// the phase test may be a named predicate over the phase: the constants it compares its
					// parameter with are then the phases of the branch
					if pc, isCall := iff.Cond.(*ssa.Call); isCall {
						g := pc.Call.StaticCallee()
						if g != nil && g.Blocks != nil && g.Pkg == fn.Pkg {
							for ai, a := range pc.Call.Args {
								if t := TermOf(a); !(MField("Phase")(t) || t.Any(MField("Phase"))) || ai >= len(g.Params) {
									continue
								}
								if r, _ := CanReach(Point{Block: pb.Succs[0]}, func(x ssa.Instruction) bool { return x == in }, ReachOpts{}); !r {
									continue
								}
								for _, gb := range g.Blocks {
									for _, gi := range gb.Instrs {
										gbo, ok := gi.(*ssa.BinOp)
										if !ok || gbo.Op != token.EQL {
											continue
										}
										var k *ssa.Const
										var other ssa.Value
										if kc, ok := gbo.Y.(*ssa.Const); ok {
											k, other = kc, gbo.X
										} else if kc, ok := gbo.X.(*ssa.Const); ok {
											k, other = kc, gbo.Y
										}
										if k != nil && k.Value != nil && k.Value.Kind() == constant.String && BackwardSlice(other)[g.Params[ai]] {
											out[constant.StringVal(k.Value)] = true
										}
									}
								}
							}
						}
						continue
					}
					bo, ok := iff.Cond.(*ssa.BinOp)
					if !ok || bo.Op != token.EQL {
						continue
					}
					var k *ssa.Const
					var other ssa.Value
					if kc, ok := bo.Y.(*ssa.Const); ok {
						k, other = kc, bo.X
					} else if kc, ok := bo.X.(*ssa.Const); ok {
						k, other = kc, bo.Y
					}
					if k == nil || k.Value == nil || k.Value.Kind() != constant.String {
						continue
					}
					if t := TermOf(other); !(MField("Phase")(t) || t.Any(MField("Phase"))) {
						continue
					}
					if r, _ := CanReach(Point{Block: pb.Succs[0]}, func(x ssa.Instruction) bool { return x == in }, ReachOpts{}); r {
						out[constant.StringVal(k.Value)] = true
					}
				}
			}
		}
		return out, found
	}
	a := p.Func(vp + "RolloutCreateUpdateHandler.validateRolloutUpdate")
	b := p.Func(vp + "RolloutCreateUpdateHandler.validateV1alpha1RolloutUpdate")
	if a == nil || b == nil {
		c.Unresolved("R9.2e", "validateRolloutUpdate / validateV1alpha1RolloutUpdate")
		return
	}
	pa, fa := phasesOf(a)
	pb, fb := phasesOf(b)
	if !fa || !fb {
		c.Ob("R9.2e", "update-validators#immutable-branch", a.Pos(), false, "'is immutable' rejections", "anchor not found in one of the validators")
		return
	}
	for _, v := range []struct {
		label  string
		fn     *ssa.Function
		phases map[string]bool
		other  map[string]bool
	}{{"v1beta1", a, pa, pb}, {"v1alpha1", b, pb, pa}} {
		var miss []string
		for _, need := range []string{"Progressing", "Terminating"} {
			if !v.phases[need] {
				miss = append(miss, need)
			}
		}
		for ph := range v.other {
			if !v.phases[ph] && ph != "Progressing" && ph != "Terminating" {
				miss = append(miss, ph+" (frozen by the other validator)")
			}
		}
		sort.Strings(miss)
		c.Ob("R9.2e", v.label+"#immutable-phases", v.fn.Pos(), len(miss) == 0, "immutability is enforced in "+strings.Join(keysOf(v.phases), ", "),
			ifs(len(miss) > 0, "not enforced in phase "+strings.Join(miss, ", ")+": through this API version the routing references of a Rollout in that phase can be replaced; the teardown then restores the newly named objects (nothing to do), drops the finalizer, and the objects the release really modified keep routing to a deleted canary Service"))
	}
}

// funcValueOf resolves a function-typed value to the function it denotes: a literal, a named
// function, or the literal a repository constructor returns (`return func(...) {...}`).
func funcValueOf(v ssa.Value, depth int) *ssa.Function {
	switch x := Forwarded(v).(type) {
	case *ssa.MakeClosure:
		f, _ := x.Fn.(*ssa.Function)
		return f
	case *ssa.Function:
		return x
	case *ssa.Call:
		g := x.Call.StaticCallee()
		if g == nil || g.Blocks == nil || depth >= 2 {
			return nil
		}
		var found *ssa.Function
		for _, ret := range returnsOf(g) {
			if len(ret.Results) != 1 {
				continue
			}
			f := funcValueOf(ret.Results[0], depth+1)
			if f == nil || (found != nil && found != f) {
				return nil
			}
			found = f
		}
		return found
	}
	return nil
}
