module verif/rcheck

go 1.23

require (
	github.com/yuin/gopher-lua v0.0.0-20220504180219-658193537a64
	golang.org/x/tools v0.29.0
)

require (
	golang.org/x/mod v0.22.0 // indirect
	golang.org/x/sync v0.10.0 // indirect
)
