package main

import (
	"encoding/json"
	"fmt"
	"os"
	"os/exec"
	"path/filepath"
	"sort"
	"strconv"
	"strings"
	"sync"
)

// NeutralResult is recorded in the evidence of the thorough tier: the specificity
// corpus (/verif/neutral) holds behaviour-preserving refactorings of /repo; a rule
// that reports one of them is a false alarm of the checker, not of the repository.
type NeutralResult struct {
	Applied int      `json:"applied"`
	Silent  int      `json:"silent"`
	Skipped int      `json:"skipped"`
	Alarms  []string `json:"false_alarms"`
	Detail  []string `json:"detail"`
}

type neutralMeta struct {
	ID     string   `json:"id"`
	RunFor []string `json:"run_for"`
	Title  string   `json:"title"`
}

// applyUnified applies the hunks of one file of a unified diff to src. It fails
// (ok=false) when a context or removed line does not match, so that a refactoring
// that no longer applies to the current tree is skipped and never half-applied.
func applyUnified(src string, hunks [][]string) (string, bool) {
	lines := strings.Split(src, "\n")
	var out []string
	cur := 0 // index into lines of the next line not yet copied
	for _, h := range hunks {
		// header: @@ -a,b +c,d @@
		hdr := h[0]
		f := strings.Fields(hdr)
		if len(f) < 3 {
			return "", false
		}
		a := strings.TrimPrefix(f[1], "-")
		if i := strings.Index(a, ","); i >= 0 {
			a = a[:i]
		}
		start, err := strconv.Atoi(a)
		if err != nil {
			return "", false
		}
		start-- // 0-based
		if start < cur {
			if start == -1 && cur == 0 {
				start = 0
			} else {
				return "", false
			}
		}
		// allow a small offset: search for the position where the hunk's old side matches
		var old []string
		for _, l := range h[1:] {
			if l == "" {
				old = append(old, "")
				continue
			}
			switch l[0] {
			case ' ', '-':
				old = append(old, l[1:])
			}
		}
		match := func(at int) bool {
			if at < cur || at+len(old) > len(lines) {
				return false
			}
			for i, o := range old {
				if lines[at+i] != o {
					return false
				}
			}
			return true
		}
		pos := -1
		for d := 0; d <= 200 && pos < 0; d++ {
			if match(start + d) {
				pos = start + d
			} else if d > 0 && match(start-d) {
				pos = start - d
			}
		}
		if pos < 0 {
			return "", false
		}
		out = append(out, lines[cur:pos]...)
		for _, l := range h[1:] {
			if l == "" {
				out = append(out, "")
				continue
			}
			switch l[0] {
			case ' ', '+':
				out = append(out, l[1:])
			}
		}
		cur = pos + len(old)
	}
	out = append(out, lines[cur:]...)
	return strings.Join(out, "\n"), true
}

// parseUnified splits a git unified diff into per-file hunks (repo-relative path → hunks).
func parseUnified(diff string) (map[string][][]string, bool) {
	res := map[string][][]string{}
	var file string
	var cur []string
	flush := func() {
		if file != "" && cur != nil {
			res[file] = append(res[file], cur)
		}
		cur = nil
	}
	lines := strings.Split(diff, "\n")
	if n := len(lines); n > 0 && lines[n-1] == "" {
		lines = lines[:n-1]
	}
	inHunk := false
	for _, l := range lines {
		switch {
		case strings.HasPrefix(l, "diff --git "):
			flush()
			file = ""
			inHunk = false
		case !inHunk && strings.HasPrefix(l, "--- "):
			if strings.HasPrefix(l, "--- /dev/null") {
				return nil, false // file creation is not supported by the overlay runner
			}
		case !inHunk && strings.HasPrefix(l, "+++ "):
			if strings.HasPrefix(l, "+++ /dev/null") {
				return nil, false
			}
			file = strings.TrimPrefix(strings.TrimPrefix(l, "+++ "), "b/")
		case strings.HasPrefix(l, "@@ "):
			flush()
			cur = []string{l}
			inHunk = true
		case inHunk && strings.HasPrefix(l, `\ No newline`):
		case inHunk:
			cur = append(cur, l)
		}
	}
	flush()
	return res, len(res) > 0
}

func runNeutral(prop, repo, out string) NeutralResult {
	var res NeutralResult
	metas, _ := filepath.Glob(filepath.Join(out, "neutral", "*", "meta.json"))
	sort.Strings(metas)
	self, _ := os.Executable()
	tmp, err := os.MkdirTemp("", "rcheck-neu-")
	if err != nil {
		res.Alarms = append(res.Alarms, err.Error())
		return res
	}
	defer os.RemoveAll(tmp)
	kf, kfErr := os.ReadFile(filepath.Join(out, "known_findings.json"))
	type outcome struct{ id, status, note string }
	var outs []outcome
	var mu sync.Mutex
	sem := make(chan struct{}, 6)
	var wg sync.WaitGroup
	for _, mf := range metas {
		b, err := os.ReadFile(mf)
		if err != nil {
			continue
		}
		var m neutralMeta
		if json.Unmarshal(b, &m) != nil {
			continue
		}
		id := filepath.Base(filepath.Dir(mf))
		want := false
		for _, p := range m.RunFor {
			if p == prop {
				want = true
			}
		}
		if !want {
			continue
		}
		diff, err := os.ReadFile(filepath.Join(filepath.Dir(mf), "patch.diff"))
		if err != nil {
			continue
		}
		wg.Add(1)
		go func() {
			defer wg.Done()
			sem <- struct{}{}
			defer func() { <-sem }()
			add := func(o outcome) { mu.Lock(); outs = append(outs, o); mu.Unlock() }
			files, ok := parseUnified(string(diff))
			if !ok {
				add(outcome{id, "skipped", "patch creates or deletes files"})
				return
			}
			dir := filepath.Join(tmp, id)
			_ = os.MkdirAll(dir, 0o755)
			ov := map[string]string{}
			n := 0
			for rel, hunks := range files {
				src, err := os.ReadFile(filepath.Join(repo, rel))
				if err != nil {
					add(outcome{id, "skipped", "missing " + rel})
					return
				}
				text, ok := applyUnified(string(src), hunks)
				if !ok {
					add(outcome{id, "skipped", "patch no longer applies to " + rel})
					return
				}
				repl := filepath.Join(dir, fmt.Sprintf("f%d%s", n, filepath.Ext(rel)))
				n++
				_ = os.WriteFile(repl, []byte(text), 0o644)
				ov[rel] = repl
			}
			ovb, _ := json.Marshal(ov)
			ovf := filepath.Join(dir, "overlay.json")
			_ = os.WriteFile(ovf, ovb, 0o644)
			if kfErr == nil {
				_ = os.WriteFile(filepath.Join(dir, "known_findings.json"), kf, 0o644)
			}
			cmd := exec.Command(self, "-prop", prop, "-tier", "quick", "-repo", repo, "-out", dir, "-overlay", ovf)
			outb, _ := cmd.CombinedOutput()
			text := string(outb)
			switch {
			case strings.Contains(text, "LOAD-FAILURE"):
				add(outcome{id, "skipped", "does not type-check on this tree: " + firstLine(text)})
			case strings.Contains(text, "VIOLATION property="), strings.Contains(text, "ANALYSER-PANIC"):
				var first string
				for _, l := range strings.Split(text, "\n") {
					if strings.Contains(l, "rule ") || strings.Contains(l, "ANALYSER-PANIC") {
						first = strings.TrimSpace(l)
						break
					}
				}
				add(outcome{id, "alarm", first})
			default:
				add(outcome{id, "silent", ""})
			}
		}()
	}
	wg.Wait()
	sort.Slice(outs, func(i, j int) bool { return outs[i].id < outs[j].id })
	for _, o := range outs {
		switch o.status {
		case "silent":
			res.Applied++
			res.Silent++
			res.Detail = append(res.Detail, "silent  "+o.id)
		case "alarm":
			res.Applied++
			res.Alarms = append(res.Alarms, fmt.Sprintf("refactoring=%s: %s", o.id, o.note))
		default:
			res.Skipped++
			res.Detail = append(res.Detail, "skipped "+o.id+" "+o.note)
		}
	}
	return res
}
