// rcheck decides the structural clauses of one property from /repo's source.
package main

import (
	"bufio"
	"encoding/json"
	"flag"
	"fmt"
	"os"
	"path/filepath"
	"sort"
	"strings"

	"verif/rcheck/engine"
	"verif/rcheck/rules"
)

func main() {
	prop := flag.String("prop", "", "property id (C01..C20)")
	tier := flag.String("tier", "quick", "quick|thorough")
	repo := flag.String("repo", "/repo", "repository root")
	out := flag.String("out", "/verif", "output root (evidence/, reports/, known_findings.json)")
	list := flag.Bool("list", false, "list properties")
	manifest := flag.Bool("manifest", false, "print MANIFEST.json generated from the rule registry")
	overlayFile := flag.String("overlay", "", "JSON file {repo-relative file: replacement file path} applied as a go/packages overlay (used by the sensitivity corpus)")
	mutantsOnly := flag.Bool("mutants", false, "run only the sensitivity corpus of the property (no verdict on the tree)")
	neutralOnly := flag.Bool("neutral", false, "run only the specificity corpus (/verif/neutral refactorings) for the property")
	probeOpt := flag.Bool("probe-optional", false, "exploration aid: list unguarded dereferences of optional API pointer fields")
	probeF := flag.String("probe-facts", "", "exploration aid: print the branch facts at every call and return of the named function")
	all := flag.Bool("all", false, "corpus aid: run every property's quick rule set over one load of the tree; prints '== <id> rc=<n>' after each")
	flag.Parse()
	if *all {
		runAll(*repo, *out)
		return
	}
	if *probeF != "" {
		probeFacts(*repo, *probeF)
		return
	}
	if *probeOpt {
		probeOptional(*repo)
		return
	}
	if *manifest {
		writeManifest(*out)
		return
	}
	if *list {
		var ids []string
		for id := range rules.Registry {
			ids = append(ids, id)
		}
		sort.Strings(ids)
		for _, id := range ids {
			fmt.Println(id)
		}
		return
	}
	pr, ok := rules.Registry[*prop]
	if !ok {
		fmt.Fprintf(os.Stderr, "unknown property %q\n", *prop)
		os.Exit(2)
	}
	if *neutralOnly {
		res := runNeutral(*prop, *repo, *out)
		fmt.Printf("neutral: applied=%d silent=%d skipped=%d false-alarms=%d\n", res.Applied, res.Silent, res.Skipped, len(res.Alarms))
		for _, d := range append(res.Detail, res.Alarms...) {
			fmt.Println(" ", d)
		}
		if len(res.Alarms) > 0 {
			os.Exit(2)
		}
		return
	}
	if *mutantsOnly {
		res := runMutants(*prop, *repo, *out)
		fmt.Printf("mutants: applied=%d killed=%d skipped=%d blind=%d\n", res.Applied, res.Killed, res.Skipped, len(res.Blind))
		if len(res.Blind) > 0 {
			os.Exit(2)
		}
		return
	}
	whole := pr.Whole || *tier == "thorough"
	var overlay map[string][]byte
	if *overlayFile != "" {
		overlay = map[string][]byte{}
		b, err := os.ReadFile(*overlayFile)
		if err != nil {
			fmt.Println(err)
			os.Exit(2)
		}
		m := map[string]string{}
		if err := json.Unmarshal(b, &m); err != nil {
			fmt.Println(err)
			os.Exit(2)
		}
		for rel, repl := range m {
			data, err := os.ReadFile(repl)
			if err != nil {
				fmt.Println(err)
				os.Exit(2)
			}
			overlay[filepath.Join(*repo, rel)] = data
		}
	}
	p, err := engine.Load(*repo, whole, overlay)
	if err != nil {
		fmt.Printf("LOAD-FAILURE property=%s: %v\n", *prop, err)
		os.Exit(2)
	}
	c := engine.NewCtx(p, *prop, *tier, *out)
	func() {
		defer func() {
			if r := recover(); r != nil {
				fmt.Printf("ANALYSER-PANIC property=%s: %v\n", *prop, r)
				panic(r)
			}
		}()
		pr.Run(c)
	}()
	if *tier == "thorough" && *overlayFile == "" {
		res := runMutants(*prop, *repo, *out)
		c.Extra["mutants"] = res
		neu := runNeutral(*prop, *repo, *out)
		c.Extra["neutral_refactorings"] = neu
		code := c.Finish(pr.Explanation, pr.NotDecided, pr.Assumptions)
		fmt.Printf("sensitivity corpus: applied=%d killed=%d skipped=%d blind=%d\n", res.Applied, res.Killed, res.Skipped, len(res.Blind))
		fmt.Printf("specificity corpus (behaviour-preserving refactorings): applied=%d silent=%d skipped=%d false-alarms=%d\n", neu.Applied, neu.Silent, neu.Skipped, len(neu.Alarms))
		if len(neu.Alarms) > 0 && code == 0 {
			for _, b := range neu.Alarms {
				fmt.Printf("CHECKER-FALSE-ALARM %s\n", b)
			}
			os.Exit(2)
		}
		if len(res.Blind) > 0 && code == 0 {
			for _, b := range res.Blind {
				fmt.Printf("CHECKER-BLIND %s\n", b)
			}
			os.Exit(2)
		}
		os.Exit(code)
	}
	os.Exit(c.Finish(pr.Explanation, pr.NotDecided, pr.Assumptions))
}

func writeManifest(out string) {
	type lvl struct {
		Category  string `json:"category"`
		Text      string `json:"text"`
		DesignRef string `json:"design_ref,omitempty"`
	}
	type check struct {
		PropertyID string `json:"property_id"`
		Quick      string `json:"quick_cmd"`
		Thorough   string `json:"thorough_cmd"`
		Evidence   string `json:"evidence_file"`
		Replay     string `json:"replay_cmd_template"`
		Engine     string `json:"engine"`
		Level      lvl    `json:"level_claimed"`
		Note       string `json:"level_note"`
		Technique  string `json:"technique"`
	}
	type na struct {
		PropertyID string `json:"property_id"`
		Reason     string `json:"reason"`
	}
	var ids []string
	f, err := os.Open(filepath.Join(out, "properties.jsonl"))
	if err != nil {
		fmt.Fprintln(os.Stderr, err)
		os.Exit(2)
	}
	sc := bufio.NewScanner(f)
	sc.Buffer(make([]byte, 1<<20), 1<<24)
	for sc.Scan() {
		var rec struct {
			ID string `json:"id"`
		}
		if json.Unmarshal(sc.Bytes(), &rec) == nil && rec.ID != "" {
			ids = append(ids, rec.ID)
		}
	}
	var checks []check
	var nas []na
	var served []string
	for _, id := range ids {
		pr, ok := rules.Registry[id]
		if !ok {
			nas = append(nas, na{id, "no static rule built for this property yet; its clauses are numerical / relational over executions / temporal, or its structural rules are still to be written (see DESIGN.md section 3)"})
			continue
		}
		served = append(served, id)
		tech := pr.Technique
		if tech == "" {
			tech = "static analysis: custom dataflow/path rules over go/ssa of the type-checked program"
		}
		checks = append(checks, check{
			PropertyID: id,
			Quick:      "./check.sh " + id + " quick",
			Thorough:   "./check.sh " + id + " thorough",
			Evidence:   "/verif/evidence/" + id + ".json",
			Replay:     "cat {path}",
			Engine:     "rcheck",
			Level: lvl{Category: "other", DesignRef: pr.DesignRef,
				Text: "Static analysis of /repo's current source (go/packages + go/ssa; nothing is executed). " + pr.Explanation +
					" These are necessary structural conditions of the property decided for all paths / call sites / table rows; they are not the behavioural property itself."},
			Note:      "NOT decided: " + pr.NotDecided + " Trusted base: go/types, go/ssa (x/tools v0.29.0), the rule tables in /verif/rcheck/rules. " + strings.Join(pr.Assumptions, "; "),
			Technique: tech,
		})
	}
	m := map[string]interface{}{
		"version":   1,
		"setup_cmd": "./setup.sh",
		"hooks": map[string]interface{}{
			"guard":            "verif",
			"enable":           "none needed: the checks read source; no hook or instrumentation exists in /repo",
			"baseline_off_cmd": "cd /repo && go test -mod=mod -json -vet=off -count=1 -timeout 25m ./...",
			"source_commits":   []string{},
			"add_only":         true,
		},
		"engines": []map[string]interface{}{{
			"name": "rcheck", "path": "/verif/rcheck", "serves_properties": served,
			"kind_free_text": "repository-specific static analyser (Go): loads /repo with go/packages, builds go/ssa, evaluates per-property rule tables (branch-fact dominance, must-precede reachability, who-may-store/call over the whole program, call-path facts, constant tables, struct-field coverage, Lua AST key sets)",
		}},
		"checks":         checks,
		"not_applicable": nas,
		"notes":          "Every check is static analysis of the current /repo tree; level 'other' = necessary structural clauses of the property, see DESIGN.md. Genuine defects found and repaired are listed in /verif/known_findings.json (fixed:).",
	}
	if nas == nil {
		m["not_applicable"] = []na{}
	}
	b, _ := json.MarshalIndent(m, "", " ")
	fmt.Println(string(b))
}

// runAll decides every property on one load of the tree (two: the whole-program properties get
// their own). Used by the corpus matrices, where 20 separate loads per patch dominate the time.
func runAll(repo, out string) {
	var ids []string
	for id := range rules.Registry {
		ids = append(ids, id)
	}
	sort.Strings(ids)
	progs := map[bool]*engine.Program{}
	worst := 0
	for _, id := range ids {
		pr := rules.Registry[id]
		p, ok := progs[pr.Whole]
		if !ok {
			var err error
			p, err = engine.Load(repo, pr.Whole, nil)
			if err != nil {
				fmt.Printf("LOAD-FAILURE property=%s: %v\n== %s rc=2\n", id, err, id)
				worst = 2
				continue
			}
			progs[pr.Whole] = p
		}
		code := 2
		func() {
			defer func() {
				if r := recover(); r != nil {
					fmt.Printf("ANALYSER-PANIC property=%s: %v\n", id, r)
				}
			}()
			c := engine.NewCtx(p, id, "quick", out)
			pr.Run(c)
			code = c.Finish(pr.Explanation, pr.NotDecided, pr.Assumptions)
		}()
		fmt.Printf("== %s rc=%d\n", id, code)
		if code > worst {
			worst = code
		}
	}
	os.Exit(worst)
}
