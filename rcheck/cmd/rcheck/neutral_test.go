package main

import (
	"os"
	"os/exec"
	"path/filepath"
	"testing"
)

// The overlay patch applier must agree with `git apply` on every refactoring of the corpus.
func TestApplyUnifiedAgreesWithGit(t *testing.T) {
	repo := os.Getenv("VERIF_REPO")
	if repo == "" {
		repo = "/repo"
	}
	patches, _ := filepath.Glob("../../../neutral/*/patch.diff")
	if len(patches) == 0 {
		t.Skip("no corpus")
	}
	for _, pf := range patches {
		diff, _ := os.ReadFile(pf)
		files, ok := parseUnified(string(diff))
		if !ok {
			t.Errorf("%s: not parsed", pf)
			continue
		}
		tmp := t.TempDir()
		for rel := range files {
			src, err := os.ReadFile(filepath.Join(repo, rel))
			if err != nil {
				t.Fatal(err)
			}
			_ = os.MkdirAll(filepath.Dir(filepath.Join(tmp, rel)), 0o755)
			_ = os.WriteFile(filepath.Join(tmp, rel), src, 0o644)
		}
		abs, _ := filepath.Abs(pf)
		cmd := exec.Command("git", "apply", "--unsafe-paths", "--directory="+tmp, abs)
		cmd.Dir = tmp
		if out, err := cmd.CombinedOutput(); err != nil {
			t.Errorf("%s: git apply: %v %s", pf, err, out)
			continue
		}
		for rel, hunks := range files {
			src, _ := os.ReadFile(filepath.Join(repo, rel))
			got, ok := applyUnified(string(src), hunks)
			want, _ := os.ReadFile(filepath.Join(tmp, rel))
			if !ok || got != string(want) {
				t.Errorf("%s: %s differs from git apply (ok=%v)", pf, rel, ok)
			}
		}
	}
}
