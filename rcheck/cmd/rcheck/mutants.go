package main

import (
	"encoding/json"
	"fmt"
	"os"
	"os/exec"
	"path/filepath"
	"sort"
	"strings"
	"sync"
)

// Mutant is one entry of the sensitivity corpus: a single search/replace edit of
// /repo source that breaks the clause a rule decides and still type-checks.
type Mutant struct {
	ID   string `json:"id"`
	Rule string `json:"rule"` // rule id that must report it
	File string `json:"file"` // repo-relative
	Old  string `json:"old"`
	New  string `json:"new"`
	Desc string `json:"desc"`
	// More holds further search/replace pairs in the same file (for edits that
	// need a declaration and a use); each pattern must occur exactly once.
	More [][2]string `json:"more,omitempty"`
}

// MutantResult is recorded in the evidence of the thorough tier.
type MutantResult struct {
	Applied int      `json:"applied"`
	Killed  int      `json:"killed"`
	Skipped int      `json:"skipped"`
	Blind   []string `json:"blind"`
	Detail  []string `json:"detail"`
}

func runMutants(prop, repo, out string) MutantResult {
	var res MutantResult
	b, err := os.ReadFile(filepath.Join(out, "rcheck", "mutants", prop+".json"))
	if err != nil {
		res.Detail = append(res.Detail, "no corpus file for "+prop)
		return res
	}
	var ms []Mutant
	if err := json.Unmarshal(b, &ms); err != nil {
		res.Blind = append(res.Blind, "corpus file unreadable: "+err.Error())
		return res
	}
	self, _ := os.Executable()
	tmp, err := os.MkdirTemp("", "rcheck-mut-")
	if err != nil {
		res.Blind = append(res.Blind, err.Error())
		return res
	}
	defer os.RemoveAll(tmp)
	// the mutant runs need the known-findings file so that known findings do not count as kills
	if kf, err := os.ReadFile(filepath.Join(out, "known_findings.json")); err == nil {
		_ = os.WriteFile(filepath.Join(tmp, "known_findings.json"), kf, 0o644)
	}
	type outcome struct {
		m      Mutant
		status string // killed, blind, skipped, broken
		note   string
	}
	outs := make([]outcome, len(ms))
	sem := make(chan struct{}, 6)
	var wg sync.WaitGroup
	for i, m := range ms {
		i, m := i, m
		src, err := os.ReadFile(filepath.Join(repo, m.File))
		if err != nil || strings.Count(string(src), m.Old) != 1 {
			outs[i] = outcome{m, "skipped", "pattern does not occur exactly once in " + m.File}
			continue
		}
		wg.Add(1)
		go func() {
			defer wg.Done()
			sem <- struct{}{}
			defer func() { <-sem }()
			dir := filepath.Join(tmp, fmt.Sprintf("m%d", i))
			_ = os.MkdirAll(dir, 0o755)
			repl := filepath.Join(dir, "file.go")
			text0 := strings.Replace(string(src), m.Old, m.New, 1)
			for _, e := range m.More {
				if strings.Count(text0, e[0]) != 1 {
					outs[i] = outcome{m, "skipped", "secondary pattern does not occur exactly once in " + m.File}
					return
				}
				text0 = strings.Replace(text0, e[0], e[1], 1)
			}
			_ = os.WriteFile(repl, []byte(text0), 0o644)
			ov, _ := json.Marshal(map[string]string{m.File: repl})
			ovf := filepath.Join(dir, "overlay.json")
			_ = os.WriteFile(ovf, ov, 0o644)
			if kf, err := os.ReadFile(filepath.Join(tmp, "known_findings.json")); err == nil {
				_ = os.WriteFile(filepath.Join(dir, "known_findings.json"), kf, 0o644)
			}
			cmd := exec.Command(self, "-prop", prop, "-tier", "quick", "-repo", repo, "-out", dir, "-overlay", ovf)
			outb, _ := cmd.CombinedOutput()
			text := string(outb)
			switch {
			case strings.Contains(text, "LOAD-FAILURE"):
				outs[i] = outcome{m, "broken", "mutant does not type-check: " + firstLine(text)}
			case strings.Contains(text, "VIOLATION property="+prop) && (m.Rule == "" || strings.Contains(text, "rule "+m.Rule+" ")):
				outs[i] = outcome{m, "killed", ""}
			case strings.Contains(text, "VIOLATION property="+prop):
				outs[i] = outcome{m, "killed", "reported by another rule than " + m.Rule}
			default:
				outs[i] = outcome{m, "blind", "not reported"}
			}
		}()
	}
	wg.Wait()
	for _, o := range outs {
		switch o.status {
		case "killed":
			res.Applied++
			res.Killed++
			res.Detail = append(res.Detail, fmt.Sprintf("killed  %s [%s] %s %s", o.m.ID, o.m.Rule, o.m.Desc, o.note))
		case "blind":
			res.Applied++
			res.Blind = append(res.Blind, fmt.Sprintf("rule=%s mutant=%s (%s): %s", o.m.Rule, o.m.ID, o.m.Desc, o.note))
		case "skipped":
			res.Skipped++
			res.Detail = append(res.Detail, fmt.Sprintf("skipped %s [%s] %s", o.m.ID, o.m.Rule, o.note))
		case "broken":
			res.Skipped++
			res.Detail = append(res.Detail, fmt.Sprintf("skipped %s [%s] %s", o.m.ID, o.m.Rule, o.note))
		}
	}
	sort.Strings(res.Detail)
	return res
}

func firstLine(s string) string {
	for _, l := range strings.Split(s, "\n") {
		if strings.Contains(l, "LOAD-FAILURE") || strings.Contains(l, ".go:") {
			return l
		}
	}
	return ""
}
