package main

import (
	"fmt"
	"os"
	"sort"
	"strings"

	"verif/rcheck/engine"
)

// probeOptional lists unguarded optional-pointer dereferences of API types (exploration aid: rcheck -probe-optional).
func probeOptional(repo string) {
	p, err := engine.Load(repo, false, nil)
	if err != nil {
		fmt.Println(err)
		os.Exit(2)
	}
	var lines []string
	for _, fn := range p.RepoFuncs() {
		name := engine.FuncName(fn)
		if !strings.HasPrefix(name, "pkg/") || strings.HasPrefix(name, "pkg/controller/deployment") {
			continue
		}
		for _, d := range engine.OptionalDerefs(fn, func(owner, field string) bool {
			return strings.Contains(owner, "api/v1beta1") || strings.Contains(owner, "api/v1alpha1")
		}) {
			lines = append(lines, fmt.Sprintf("%s\t%s\t%s.%s\t%s", p.Pos(d.Instr.Pos()), name, d.Owner, d.Field.Name(), d.Ptr.String()))
		}
	}
	sort.Strings(lines)
	for _, l := range lines {
		fmt.Println(l)
	}
	fmt.Println(len(lines), "sites")
}
