package main

import (
	"fmt"
	"os"

	"golang.org/x/tools/go/ssa"

	"verif/rcheck/engine"
)

// probeFacts prints, for every return and call of a function, the branch facts that hold there
// (exploration aid: rcheck -probe-facts <function name>).
func probeFacts(repo, name string) {
	p, err := engine.Load(repo, false, nil)
	if err != nil {
		fmt.Println(err)
		os.Exit(2)
	}
	fn := p.Func(name)
	if fn == nil {
		fmt.Println("no such function:", name)
		os.Exit(2)
	}
	for _, b := range fn.Blocks {
		for _, in := range b.Instrs {
			switch in.(type) {
			case *ssa.Return, ssa.CallInstruction:
			default:
				continue
			}
			fmt.Printf("%s  b%d  %s\n", p.Pos(in.Pos()), b.Index, in.String())
			for _, f := range engine.FactsAtInstr(in) {
				fmt.Printf("      %s\n", f.String())
			}
		}
	}
}
