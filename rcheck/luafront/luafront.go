// Package luafront answers syntactic questions about the shipped Lua scripts
// (assigned-key sets on the result table) using gopher-lua's own parser.
package luafront

import (
	"bytes"
	"fmt"
	"os"
	"sort"
	"strings"

	"github.com/yuin/gopher-lua/ast"
	"github.com/yuin/gopher-lua/parse"
)

// Assign is one assignment  table[key] = rhs  with a constant string key.
type Assign struct {
	Table    string
	Key      string
	Line     int
	Nil      bool   // rhs is nil
	Const    string // rhs is a constant string/number ("" if not)
	IsConst  bool
	TopLevel bool   // statement is a direct child of the chunk (unconditional)
	Guard    string // rendered condition of the innermost enclosing if, "" if none
	InLoop   bool
	Rhs      string // rendered right-hand side
}

// Script is a parsed script.
type Script struct {
	Path    string
	Assigns []Assign
	// DynamicKeyAssigns counts assignments table[expr] = ... whose key is not a constant
	DynamicKeyAssigns []int
	Calls             []string // called function names (dotted), e.g. "string.gsub", "os.execute"
	// MulOfQuotient lists the lines of products one operand of which is a quotient, x * (a / b):
	// in floating point the quotient is rounded before the product, so an exact percentage
	// (x*a divisible by b) can come out just below the integer
	MulOfQuotient []int
	CallSites         []CallSite
	curGuard          string
	curInLoop         bool
	funcs             map[string][]ast.Stmt // bodies of named functions defined in the chunk
	inlining          map[string]bool
	inlined           map[string]bool
	lineOverride      int
	sawReturn         bool // a return statement was seen earlier in source order: later statements are not unconditional
}

// CallSite is a function call with the condition of the innermost enclosing if.
type CallSite struct {
	Name  string
	Args  []string
	Guard string
	Line  int
}

// Parse parses a Lua file.
func Parse(path string) (*Script, error) {
	b, err := os.ReadFile(path)
	if err != nil {
		return nil, err
	}
	return ParseBytes(path, b)
}

// ParseBytes parses Lua source.
func ParseBytes(path string, src []byte) (*Script, error) {
	chunk, err := parse.Parse(bytes.NewReader(src), path)
	if err != nil {
		return nil, fmt.Errorf("%s: %v", path, err)
	}
	s := &Script{Path: path}
	s.walk(chunk, true, "", false)
	// functions that are defined but never called from the chunk are still part of the script
	// (they may be called by name from Go or from other functions): account for their bodies once
	var names []string
	for n := range s.funcs {
		names = append(names, n)
	}
	sort.Strings(names)
	for _, n := range names {
		if !s.inlined[n] {
			saved := s.sawReturn
			s.walk(s.funcs[n], false, "", false)
			s.sawReturn = saved
		}
	}
	sort.SliceStable(s.Assigns, func(i, j int) bool { return s.Assigns[i].Line < s.Assigns[j].Line })
	return s, nil
}

func exprString(e ast.Expr) string {
	switch x := e.(type) {
	case *ast.IdentExpr:
		return x.Value
	case *ast.StringExpr:
		return fmt.Sprintf("%q", x.Value)
	case *ast.NumberExpr:
		return x.Value
	case *ast.NilExpr:
		return "nil"
	case *ast.TrueExpr:
		return "true"
	case *ast.FalseExpr:
		return "false"
	case *ast.AttrGetExpr:
		if k, ok := x.Key.(*ast.StringExpr); ok {
			return exprString(x.Object) + "[" + fmt.Sprintf("%q", k.Value) + "]"
		}
		return exprString(x.Object) + "[" + exprString(x.Key) + "]"
	case *ast.UnaryNotOpExpr:
		return "not " + exprString(x.Expr)
	case *ast.RelationalOpExpr:
		return exprString(x.Lhs) + " " + x.Operator + " " + exprString(x.Rhs)
	case *ast.LogicalOpExpr:
		return exprString(x.Lhs) + " " + x.Operator + " " + exprString(x.Rhs)
	case *ast.FuncCallExpr:
		var as []string
		for _, a := range x.Args {
			as = append(as, exprString(a))
		}
		return exprString(x.Func) + "(" + strings.Join(as, ", ") + ")"
	}
	return fmt.Sprintf("%T", e)
}

func (s *Script) walkExpr(e ast.Expr) {
	switch x := e.(type) {
	case *ast.FuncCallExpr:
		if x.Func != nil {
			s.Calls = append(s.Calls, dotted(x.Func))
			var as []string
			for _, a := range x.Args {
				as = append(as, exprString(a))
			}
			s.CallSites = append(s.CallSites, CallSite{Name: dotted(x.Func), Args: as, Guard: s.curGuard, Line: x.Line()})
			if body, ok := s.funcs[dotted(x.Func)]; ok && !s.inlining[dotted(x.Func)] {
				// the assignments of a chunk-level function happen at the call, conditionally
				if s.inlining == nil {
					s.inlining = map[string]bool{}
				}
				s.inlining[dotted(x.Func)] = true
				if s.inlined == nil {
					s.inlined = map[string]bool{}
				}
				s.inlined[dotted(x.Func)] = true
				savedLine, savedRet := s.lineOverride, s.sawReturn
				if s.lineOverride == 0 {
					s.lineOverride = x.Line()
				}
				s.walk(body, false, s.curGuard, s.curInLoop)
				s.lineOverride, s.sawReturn = savedLine, savedRet
				s.inlining[dotted(x.Func)] = false
			}
			s.walkExpr(x.Func)
		}
		if x.Receiver != nil {
			s.walkExpr(x.Receiver)
			s.Calls = append(s.Calls, dotted(x.Receiver)+":"+x.Method)
		}
		for _, a := range x.Args {
			s.walkExpr(a)
		}
	case *ast.AttrGetExpr:
		s.walkExpr(x.Object)
		s.walkExpr(x.Key)
	case *ast.UnaryNotOpExpr:
		s.walkExpr(x.Expr)
	case *ast.UnaryMinusOpExpr:
		s.walkExpr(x.Expr)
	case *ast.UnaryLenOpExpr:
		s.walkExpr(x.Expr)
	case *ast.RelationalOpExpr:
		s.walkExpr(x.Lhs)
		s.walkExpr(x.Rhs)
	case *ast.LogicalOpExpr:
		s.walkExpr(x.Lhs)
		s.walkExpr(x.Rhs)
	case *ast.ArithmeticOpExpr:
		if x.Operator == "*" {
			for _, side := range []ast.Expr{x.Lhs, x.Rhs} {
				if q, ok := side.(*ast.ArithmeticOpExpr); ok && q.Operator == "/" {
					s.MulOfQuotient = append(s.MulOfQuotient, x.Line())
				}
			}
		}
		s.walkExpr(x.Lhs)
		s.walkExpr(x.Rhs)
	case *ast.StringConcatOpExpr:
		s.walkExpr(x.Lhs)
		s.walkExpr(x.Rhs)
	case *ast.TableExpr:
		for _, f := range x.Fields {
			if f.Key != nil {
				s.walkExpr(f.Key)
			}
			s.walkExpr(f.Value)
		}
	case *ast.FunctionExpr:
		saved := s.sawReturn
		s.walk(x.Stmts, false, "", false)
		s.sawReturn = saved
	}
}

func dotted(e ast.Expr) string {
	switch x := e.(type) {
	case *ast.IdentExpr:
		return x.Value
	case *ast.AttrGetExpr:
		if k, ok := x.Key.(*ast.StringExpr); ok {
			return dotted(x.Object) + "." + k.Value
		}
		return dotted(x.Object) + "[?]"
	}
	return "?"
}

func (s *Script) walk(stmts []ast.Stmt, top bool, guard string, inLoop bool) {
	for _, st := range stmts {
		s.curInLoop = inLoop
		switch x := st.(type) {
		case *ast.AssignStmt:
			for i, l := range x.Lhs {
				var r ast.Expr
				if i < len(x.Rhs) {
					r = x.Rhs[i]
				}
				if r != nil {
					s.walkExpr(r)
				}
				ag, ok := l.(*ast.AttrGetExpr)
				if !ok {
					continue
				}
				tbl := dotted(ag.Object)
				key, isStr := ag.Key.(*ast.StringExpr)
				if !isStr {
					s.DynamicKeyAssigns = append(s.DynamicKeyAssigns, x.Line())
					continue
				}
				line := x.Line()
				if s.lineOverride > 0 {
					line = s.lineOverride
				}
				a := Assign{Table: tbl, Key: key.Value, Line: line, TopLevel: top && !s.sawReturn, Guard: guard, InLoop: inLoop}
				if r != nil {
					a.Rhs = exprString(r)
				}
				switch rv := r.(type) {
				case *ast.NilExpr:
					a.Nil = true
				case *ast.StringExpr:
					a.IsConst, a.Const = true, rv.Value
				case *ast.NumberExpr:
					a.IsConst, a.Const = true, rv.Value
				case nil:
					a.Nil = true
				}
				s.Assigns = append(s.Assigns, a)
			}
		case *ast.LocalAssignStmt:
			for i, r := range x.Exprs {
				// `local function f(...) ... end`: the body runs where f is called, not where it is written
				if fe, ok := r.(*ast.FunctionExpr); ok && i < len(x.Names) {
					if s.funcs == nil {
						s.funcs = map[string][]ast.Stmt{}
					}
					s.funcs[x.Names[i]] = fe.Stmts
					continue
				}
				s.walkExpr(r)
			}
		case *ast.FuncCallStmt:
			s.walkExpr(x.Expr)
		case *ast.IfStmt:
			s.walkExpr(x.Condition)
			g := exprString(x.Condition)
			saved := s.curGuard
			s.curGuard = g
			s.walk(x.Then, false, g, inLoop)
			s.curGuard = "not (" + g + ")"
			s.walk(x.Else, false, "not ("+g+")", inLoop)
			s.curGuard = saved
		case *ast.WhileStmt:
			s.walkExpr(x.Condition)
			s.walk(x.Stmts, false, guard, true)
		case *ast.RepeatStmt:
			s.walk(x.Stmts, false, guard, true)
		case *ast.NumberForStmt:
			s.walk(x.Stmts, false, guard, true)
		case *ast.GenericForStmt:
			for _, e := range x.Exprs {
				s.walkExpr(e)
			}
			s.walk(x.Stmts, false, guard, true)
		case *ast.DoBlockStmt:
			s.walk(x.Stmts, top, guard, inLoop)
		case *ast.FuncDefStmt:
			if x.Func != nil {
				// a plain named function: its body is accounted for at its call sites
				if x.Name != nil && x.Name.Func != nil && x.Name.Receiver == nil {
					if id, ok := x.Name.Func.(*ast.IdentExpr); ok {
						if s.funcs == nil {
							s.funcs = map[string][]ast.Stmt{}
						}
						s.funcs[id.Value] = x.Func.Stmts
						continue
					}
				}
				saved := s.sawReturn // a return inside a function definition does not leave the chunk
				s.walk(x.Func.Stmts, false, "", false)
				s.sawReturn = saved
			}
		case *ast.ReturnStmt:
			for _, e := range x.Exprs {
				s.walkExpr(e)
			}
			s.sawReturn = true
		}
	}
}

// KeySets computes, for the given result table name, the keys that may be set
// to a non-nil value, the keys unconditionally cleared (top level, = nil) and
// the keys unconditionally set to a constant, with the line of first occurrence.
func (s *Script) KeySets(table string) (set, clear, konst map[string]int) {
	set, clear, konst = map[string]int{}, map[string]int{}, map[string]int{}
	for _, a := range s.Assigns {
		if a.Table != table {
			continue
		}
		switch {
		case a.Nil && a.TopLevel:
			if _, ok := clear[a.Key]; !ok {
				clear[a.Key] = a.Line
			}
		case !a.Nil && a.TopLevel && a.IsConst:
			if _, ok := konst[a.Key]; !ok {
				konst[a.Key] = a.Line
			}
		case !a.Nil:
			// conditional constant refresh of a key that already exists: idempotent
			if a.IsConst && strings.Contains(a.Guard, table+"["+fmt.Sprintf("%q", a.Key)+"]") && !strings.HasPrefix(a.Guard, "not ") {
				continue
			}
			if _, ok := set[a.Key]; !ok {
				set[a.Key] = a.Line
			}
		}
	}
	return
}
